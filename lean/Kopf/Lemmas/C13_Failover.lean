/-
  C13 helper lemmas — after an operator is lost (killed, or exited with a refused withdrawal), ANY interleaving of passing
  time, keep-alives, self-touches and deliveries (of the current status or of ANY older view) of the survivors keeps "every live record belongs to a running operator
  or to the lost one"; once the lost one's records have expired the operators see each other again.
-/
import Kopf.Lemmas.C13_Converge
namespace Kopf.C13

-- (`Quiet`, `SleepAlive`: statement vocabulary, defined in the model file)

theorem sleepAlive_upd {s s' : State} {i : Identity} {onew : Op} (h : SleepAlive s) (hops : s'.ops = updOp s.ops i onew)
    (hn : onew.sleeping = true → onew.alive = true) : SleepAlive s' := by
  intro k o hk hs
  rw [hops] at hk
  by_cases hki : k = i
  · subst hki; simp at hk; subst hk; exact hn hs
  · rw [updOp_other _ _ hki] at hk; exact h k o hk hs

theorem sleepAlive_step {u : Int} {s s' : State} {l : Label} (h : SleepAlive s) (hs : step u s l = some s') : SleepAlive s' := by
  cases l with
  | start i p L => obtain ⟨_, _, _, _, hops⟩ := start_spec hs; exact sleepAlive_upd h hops (fun e => by simp at e)
  | keepalive i lag =>
    obtain ⟨o, ho, ha, _, _, _, hops⟩ := keepalive_spec hs
    exact sleepAlive_upd h hops (fun _ => ha)
  | exit i => obtain ⟨o, _, _, _, _, hops, _⟩ := exit_spec hs; exact sleepAlive_upd h hops (fun e => by simp at e)
  | exitBegin i => obtain ⟨o, _, ha, _, _, _, _, hops⟩ := exitBegin_spec hs; exact sleepAlive_upd h hops (fun e => by simp at e)
  | keepaliveFail i w => obtain ⟨o, _, _, _, _, _, hops⟩ := keepaliveFail_spec hs; exact sleepAlive_upd h hops (fun e => by simp at e)
  | exitEnd i => obtain ⟨o, _, _, _, _, _, _, hops⟩ := exitEnd_spec hs; exact sleepAlive_upd h hops (fun e => by simp at e)
  | exitLost i => obtain ⟨o, _, _, _, _, hops, _⟩ := exitLost_spec hs; exact sleepAlive_upd h hops (fun e => by simp at e)
  | kill i => obtain ⟨o, _, _, _, _, hops, _⟩ := kill_spec hs; exact sleepAlive_upd h hops (fun e => by simp at e)
  | deliver i => obtain ⟨o, _, ha, _, _, _, _, hops⟩ := deliver_spec hs; exact sleepAlive_upd h hops (fun _ => ha)
  | deliverStale i v vv =>
    obtain ⟨o, onew, _, ha, _, _, _, _, _, hops, _, _, hal, _⟩ := stale_spec hs
    exact sleepAlive_upd h hops (fun _ => by rw [hal]; exact ha)
  | wake i lag => obtain ⟨o, _, _, _, _, hops, _⟩ := wake_spec hs; exact sleepAlive_upd h hops (fun e => by simp at e)
  | wakeIssue i => obtain ⟨o, _, _, _, _, _, _, hops⟩ := wakeIssue_spec hs; exact sleepAlive_upd h hops (fun e => by simp at e)
  | land i =>
    obtain ⟨o, t, ho, _, _, _, hops, _⟩ := land_spec hs
    exact sleepAlive_upd h hops (fun e => h i o ho (by simpa using e))
  | tick d => simp only [step, Option.some.injEq] at hs; subst hs; exact h
  | expire j => simp only [step, Option.some.injEq] at hs; subst hs; exact h
  | foreign j r => simp only [step, Option.some.injEq] at hs; subst hs; exact h

theorem sleepAlive_reachable {u : Int} {s : State} (h : Reachable u s) : SleepAlive s := by
  induction h with
  | init => intro i o ho; simp [init] at ho
  | step l _ hs ih => exact sleepAlive_step ih hs

/-- every live record belongs to a running operator (with its priority) or to `a` -/
def GhostsOnly (u : Int) (a : Identity) (s : State) : Prop :=
  ∀ j r, (j, r) ∈ s.status → r.dead u s.now = false →
    j = a ∨ ∃ op, s.ops j = some op ∧ op.alive = true ∧ r.priority = op.prio

theorem sameOps_refl (s : State) : SameOps s s := by
  intro i
  cases h : s.ops i with
  | none => exact Or.inl ⟨rfl, rfl⟩
  | some o => exact Or.inr ⟨o, o, rfl, rfl, rfl, rfl⟩

theorem sameOps_trans {a b c : State} (h1 : SameOps a b) (h2 : SameOps b c) : SameOps a c := by
  intro i
  rcases h1 i with ⟨x, y⟩ | ⟨o, o', ho, ho', p1, a1⟩
  · rcases h2 i with ⟨_, z⟩ | ⟨o2, _, ho2, _⟩
    · exact Or.inl ⟨x, z⟩
    · rw [y] at ho2; cases ho2
  · rcases h2 i with ⟨z, _⟩ | ⟨o2, o2', ho2, ho2', p2, a2⟩
    · rw [ho'] at z; cases z
    · rw [ho'] at ho2; injection ho2 with e; subst e
      exact Or.inr ⟨o, o2', ho, ho2', by rw [p2, p1], by rw [a2, a1]⟩

theorem sameOps_upd {s s' : State} {j : Identity} {o onew : Op} (ho : s.ops j = some o) (hops : s'.ops = updOp s.ops j onew)
    (hp : onew.prio = o.prio) (ha : onew.alive = o.alive) : SameOps s s' := by
  intro i
  by_cases hij : i = j
  · subst hij
    exact Or.inr ⟨o, onew, ho, by rw [hops]; simp, hp, ha⟩
  · rw [hops, updOp_other _ _ hij]
    cases h : s.ops i with
    | none => exact Or.inl ⟨rfl, rfl⟩
    | some o2 => exact Or.inr ⟨o2, o2, rfl, rfl, rfl, rfl⟩

/-- a touch of a running operator keeps `GhostsOnly` -/
theorem ghostsOnly_touch {u : Int} {a : Identity} {s s' : State} {i : Identity} {o onew : Op} {t : Int}
    (hg : GhostsOnly u a s) (ho : s.ops i = some o) (hal : o.alive = true) (hnow : s'.now = s.now)
    (hst : s'.status = s.status.patch i (touchVal u o.prio o.lifetime t)) (hops : s'.ops = updOp s.ops i onew)
    (hp : onew.prio = o.prio) (ha : onew.alive = o.alive) : GhostsOnly u a s' := by
  intro j r hm hd
  rw [hnow] at hd
  rw [hst] at hm
  by_cases hji : j = i
  · subst hji
    right
    refine ⟨onew, by rw [hops]; simp, by rw [ha]; exact hal, ?_⟩
    cases hv : touchVal u o.prio o.lifetime t with
    | none => rw [hv] at hm; exact absurd rfl (mem_erase.mp hm).2
    | some r' =>
      rw [hv] at hm
      have hr' : r' = { priority := o.prio, lifetime := o.lifetime, lastseen := t } := by
        simp only [touchVal] at hv
        by_cases hdd : ({ priority := o.prio, lifetime := o.lifetime, lastseen := t } : Rec).dead u t = true
        · rw [if_pos hdd] at hv; cases hv
        · rw [if_neg hdd] at hv; injection hv with e; exact e.symm
      rcases mem_set.mp hm with ⟨_, hrr⟩ | ⟨hne, _⟩
      · rw [hrr, hr', hp]
      · exact absurd rfl hne
  · have hm0 : (j, r) ∈ s.status := (mem_patch_other (fun e => hji e.symm)).mp hm
    rcases hg j r hm0 hd with h | ⟨op, h1, h2, h3⟩
    · exact Or.inl h
    · exact Or.inr ⟨op, by rw [hops, updOp_other _ _ hji]; exact h1, h2, h3⟩

theorem quiet_run {u : Int} {a : Identity} : ∀ (ls : List Label) (s s' : State),
    (∀ l ∈ ls, Quiet l) → GhostsOnly u a s → SleepAlive s → run u s ls = some s' →
    GhostsOnly u a s' ∧ SleepAlive s' ∧ SameOps s s' := by
  intro ls
  induction ls with
  | nil => intro s s' _ hg hsa h; simp only [run, Option.some.injEq] at h; subst h; exact ⟨hg, hsa, sameOps_refl s⟩
  | cons l rest ih =>
    intro s s' hq hg hsa h
    simp only [run] at h
    cases hs : step u s l with
    | none => simp [hs] at h
    | some s1 =>
      simp only [hs] at h
      have hql := hq l List.mem_cons_self
      have hsa1 := sleepAlive_step hsa hs
      have key : GhostsOnly u a s1 ∧ SameOps s s1 := by
        cases l with
        | tick d =>
          simp only [step, Option.some.injEq] at hs; subst hs
          refine ⟨?_, sameOps_refl _⟩
          intro j r hm hd
          have hd0 : r.dead u s.now = false := by
            cases hc : r.dead u s.now with
            | false => rfl
            | true => simp only at hd; rw [dead_mono d hc] at hd; cases hd
          exact hg j r hm hd0
        | expire k =>
          obtain ⟨⟨d, htick⟩, _⟩ := expire_spec hs
          simp only [step, Option.some.injEq] at htick
          subst htick
          refine ⟨?_, sameOps_refl _⟩
          intro j r hm hd
          have hd0 : r.dead u s.now = false := by
            cases hc : r.dead u s.now with
            | false => rfl
            | true => simp only at hd; rw [dead_mono d hc] at hd; cases hd
          exact hg j r hm hd0
        | keepalive i lag =>
          obtain ⟨o, ho, hal, hnow, _, hst, hops⟩ := keepalive_spec hs
          exact ⟨ghostsOnly_touch hg ho hal hnow hst hops rfl rfl, sameOps_upd ho hops rfl rfl⟩
        | wake i lag =>
          obtain ⟨o, ho, hsl, hnow, hst, hops, _⟩ := wake_spec hs
          exact ⟨ghostsOnly_touch hg ho (hsa i o ho hsl) hnow hst hops rfl rfl, sameOps_upd ho hops rfl rfl⟩
        | deliver i =>
          obtain ⟨o, ho, hal, hnow, hst, _, _, hops⟩ := deliver_spec hs
          refine ⟨?_, sameOps_upd ho hops rfl rfl⟩
          intro j r hm hd
          rw [hnow] at hd
          rw [hst] at hm
          rcases hg j r (List.mem_filter.mp hm).1 hd with h | ⟨op, h1, h2, h3⟩
          · exact Or.inl h
          · by_cases hji : j = i
            · subst hji
              rw [ho] at h1; injection h1 with e; subst e
              exact Or.inr ⟨{ o with paused := blockedB u s.status j o.prio s.now, seen := some (s.ver, s.now),
                                     sleeping := willTouch u s j o }, by rw [hops]; simp, h2, h3⟩
            · exact Or.inr ⟨op, by rw [hops, updOp_other _ _ hji]; exact h1, h2, h3⟩
        | start _ _ _ => exact absurd hql (by simp [Quiet])
        | exit _ => exact absurd hql (by simp [Quiet])
        | exitLost _ => exact absurd hql (by simp [Quiet])
        | exitBegin _ => exact absurd hql (by simp [Quiet])
        | keepaliveFail _ _ => exact absurd hql (by simp [Quiet])
        | exitEnd _ => exact absurd hql (by simp [Quiet])
        | kill _ => exact absurd hql (by simp [Quiet])
        | deliverStale i view vv =>
          -- any view: the status stays or loses what `deliver` removes; who runs, and with which priority, stays
          obtain ⟨o, onew, ho, hal, _, hnow, hst, _, _, hops, hp, _, hal', _⟩ := stale_spec hs
          refine ⟨?_, sameOps_upd ho hops hp hal'⟩
          intro j r hm hd
          rw [hnow] at hd
          have hm0 : (j, r) ∈ s.status := by
            rcases hst with e | e
            · rw [e] at hm; exact hm
            · rw [e] at hm; exact (List.mem_filter.mp hm).1
          rcases hg j r hm0 hd with h | ⟨op, h1, h2, h3⟩
          · exact Or.inl h
          · by_cases hji : j = i
            · subst hji
              rw [ho] at h1; injection h1 with e; subst e
              exact Or.inr ⟨onew, by rw [hops]; simp, by rw [hal']; exact h2, by rw [h3, hp]⟩
            · exact Or.inr ⟨op, by rw [hops, updOp_other _ _ hji]; exact h1, h2, h3⟩
        | foreign _ _ => exact absurd hql (by simp [Quiet])
        | wakeIssue _ => exact absurd hql (by simp [Quiet])
        | land _ => exact absurd hql (by simp [Quiet])
      obtain ⟨hg', hsa', hso'⟩ := ih s1 s' (fun l hl => hq l (List.mem_cons_of_mem _ hl)) key.1 hsa1 h
      exact ⟨hg', hsa', sameOps_trans key.2 hso'⟩

/-- the loss itself: a `Good` state minus the operator `a` -/
theorem loss_spec {u : Int} {s s1 : State} {a : Identity} (hg : Good u s)
    (h1 : step u s (.kill a) = some s1 ∨ step u s (.exitLost a) = some s1) :
    GhostsOnly u a s1 ∧ (∃ o, s1.ops a = some o ∧ o.alive = false) ∧
    (∀ i j oi oj, s1.ops i = some oi → s1.ops j = some oj → oi.alive = true → oj.alive = true → oi.prio = oj.prio → i = j) ∧
    (SleepAlive s → SleepAlive s1) := by
  have hspec : ∃ o, s.ops a = some o ∧ o.alive = true ∧ s1.now = s.now ∧ s1.status = s.status ∧
      s1.ops = updOp s.ops a { o with alive := false, sleeping := false } := by
    rcases h1 with h | h
    · obtain ⟨o, x1, x2, x3, x4, x5, _⟩ := kill_spec h; exact ⟨o, x1, x2, x3, x4, x5⟩
    · obtain ⟨o, x1, x2, x3, x4, x5, _⟩ := exitLost_spec h; exact ⟨o, x1, x2, x3, x4, x5⟩
  obtain ⟨o, ho, _, hnow, hst, hops⟩ := hspec
  refine ⟨?_, ⟨{ o with alive := false, sleeping := false }, by rw [hops]; simp, rfl⟩, ?_, ?_⟩
  · intro j r hm hd
    rw [hst] at hm; rw [hnow] at hd
    by_cases hja : j = a
    · exact Or.inl hja
    · obtain ⟨op, x1, x2, x3⟩ := hg.noGhost j r hm hd
      exact Or.inr ⟨op, by rw [hops, updOp_other _ _ hja]; exact x1, x2, x3⟩
  · intro i j oi oj hi hj hai haj hp
    rw [hops] at hi hj
    have hia : i ≠ a := by intro e; subst e; simp at hi; subst hi; simp at hai
    have hja : j ≠ a := by intro e; subst e; simp at hj; subst hj; simp at haj
    rw [updOp_other _ _ hia] at hi
    rw [updOp_other _ _ hja] at hj
    exact hg.distinct i j oi oj hi hj hai haj hp
  · intro hsa
    exact sleepAlive_upd hsa hops (fun e => by simp at e)

/-- running priorities stay distinct when the operators stay the same -/
theorem distinct_sameOps {s s' : State} (hso : SameOps s s')
    (hd : ∀ i j oi oj, s.ops i = some oi → s.ops j = some oj → oi.alive = true → oj.alive = true → oi.prio = oj.prio → i = j) :
    ∀ i j oi oj, s'.ops i = some oi → s'.ops j = some oj → oi.alive = true → oj.alive = true → oi.prio = oj.prio → i = j := by
  intro i j oi oj hi hj hai haj hp
  have back : ∀ k ok, s'.ops k = some ok → ∃ o1, s.ops k = some o1 ∧ ok.prio = o1.prio ∧ ok.alive = o1.alive := by
    intro k ok hk
    rcases hso k with ⟨_, y⟩ | ⟨o, o', ho, ho', hpp, hal⟩
    · rw [y] at hk; cases hk
    · rw [ho'] at hk; injection hk with e; subst e; exact ⟨o, ho, hpp, hal⟩
  obtain ⟨a1, h1', hp1, ha1⟩ := back i oi hi
  obtain ⟨b1, h2', hp2, ha2'⟩ := back j oj hj
  exact hd i j a1 b1 h1' h2' (by rw [← ha1]; exact hai) (by rw [← ha2']; exact haj) (by omega)

/-- no live ghosts before a quiet run, none after it: every live record still belongs to a running operator -/
theorem quiet_noGhost {u : Int} (mid : List Label) (s s2 : State) (hq : ∀ l ∈ mid, Quiet l)
    (hng : ∀ j r, (j, r) ∈ s.status → r.dead u s.now = false → ∃ op, s.ops j = some op ∧ op.alive = true ∧ r.priority = op.prio)
    (hsa : SleepAlive s) (h : run u s mid = some s2) :
    (∀ j r, (j, r) ∈ s2.status → r.dead u s2.now = false → ∃ op, s2.ops j = some op ∧ op.alive = true ∧ r.priority = op.prio) ∧
    SleepAlive s2 ∧ SameOps s s2 := by
  obtain ⟨hx, hsa2, hso⟩ := quiet_run (a := "x") mid s s2 hq (fun j r hm hd => Or.inr (hng j r hm hd)) hsa h
  obtain ⟨hy, _, _⟩ := quiet_run (a := "y") mid s s2 hq (fun j r hm hd => Or.inr (hng j r hm hd)) hsa h
  refine ⟨?_, hsa2, hso⟩
  intro j r hm hd
  rcases hx j r hm hd with hjx | h1
  · rcases hy j r hm hd with hjy | h2
    · rw [hjx] at hjy; exact absurd hjy (by decide)
    · exact h2
  · exact h1

/-! ### frames used by the two-step graceful stop and by "a live record is kept" -/

/-- "every live record belongs to a running operator" carries over to a state with the same clock, fewer records, and
    the same running operators as far as they still have records -/
theorem noGhost_transfer {u : Int} {s s' : State}
    (hng : ∀ j r, (j, r) ∈ s.status → r.dead u s.now = false → ∃ op, s.ops j = some op ∧ op.alive = true ∧ r.priority = op.prio)
    (hnow : s'.now = s.now) (hsub : ∀ j r, (j, r) ∈ s'.status → (j, r) ∈ s.status)
    (hso : ∀ j op, s.ops j = some op → op.alive = true → (∃ r, (j, r) ∈ s'.status) →
      ∃ op', s'.ops j = some op' ∧ op'.alive = true ∧ op'.prio = op.prio) :
    ∀ j r, (j, r) ∈ s'.status → r.dead u s'.now = false → ∃ op, s'.ops j = some op ∧ op.alive = true ∧ r.priority = op.prio := by
  intro j r hm hd
  rw [hnow] at hd
  obtain ⟨op, h1, h2, h3⟩ := hng j r (hsub j r hm) hd
  obtain ⟨op', h1', h2', h3'⟩ := hso j op h1 h2 ⟨r, hm⟩
  exact ⟨op', h1', h2', by rw [h3, h3']⟩

theorem dead_anti {u : Int} {r : Rec} {t t' : Int} (hle : t ≤ t') (h : r.dead u t' = false) : r.dead u t = false := by
  rw [dead_false_iff] at *
  omega

/-- the clock never goes back -/
theorem now_mono_step {u : Int} {s s' : State} {l : Label} (h : step u s l = some s') : s.now ≤ s'.now := by
  cases l with
  | start i p L => obtain ⟨e, _⟩ := start_spec h; omega
  | keepalive i lag => obtain ⟨_, _, _, e, _⟩ := keepalive_spec h; omega
  | exit i => obtain ⟨_, _, _, e, _⟩ := exit_spec h; omega
  | exitLost i => obtain ⟨_, _, _, e, _⟩ := exitLost_spec h; omega
  | exitBegin i => obtain ⟨_, _, _, _, e, _⟩ := exitBegin_spec h; omega
  | keepaliveFail i w => obtain ⟨_, _, _, e, _⟩ := keepaliveFail_spec h; omega
  | exitEnd i => obtain ⟨_, _, _, _, e, _⟩ := exitEnd_spec h; omega
  | kill i => obtain ⟨_, _, _, e, _⟩ := kill_spec h; omega
  | deliver i => obtain ⟨_, _, _, e, _⟩ := deliver_spec h; omega
  | deliverStale i v vv => obtain ⟨_, _, _, _, _, e, _⟩ := stale_spec h; omega
  | wake i lag => obtain ⟨_, _, _, e, _⟩ := wake_spec h; omega
  | wakeIssue i => obtain ⟨_, _, _, _, e, _⟩ := wakeIssue_spec h; omega
  | land i => obtain ⟨_, _, _, _, e, _⟩ := land_spec h; omega
  | tick d => simp only [step, Option.some.injEq] at h; subst h; simp only; omega
  | expire j =>
    obtain ⟨⟨d, ht⟩, _⟩ := expire_spec h
    simp only [step, Option.some.injEq] at ht; subst ht; simp only; omega
  | foreign j r => simp only [step, Option.some.injEq] at h; subst h; exact Int.le_refl _

theorem now_mono_run {u : Int} : ∀ (ls : List Label) (s s' : State), run u s ls = some s' → s.now ≤ s'.now := by
  intro ls
  induction ls with
  | nil => intro s s' h; simp only [run, Option.some.injEq] at h; subst h; exact Int.le_refl _
  | cons l rest ih =>
    intro s s' h
    simp only [run] at h
    cases hs : step u s l with
    | none => simp [hs] at h
    | some s1 =>
      simp only [hs] at h
      have := now_mono_step hs
      have := ih s1 s' h
      omega

end Kopf.C13
