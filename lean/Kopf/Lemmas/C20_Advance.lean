/-
  C20 helper lemmas: the single steps of the shutdown strategy. Each `adv_…` lemma exhibits, under the stated local
  conditions, an internal non-`delay` label that is enabled and decreases the measure `mu`.
-/
import Kopf.Lemmas.C20_Progress
set_option linter.unusedVariables false
namespace Kopf.C20

/-- an internal non-`delay` step that decreases the measure -/
def Advance (cfg : Cfg) (s : State) : Prop :=
  ∃ l s', internal s l = true ∧ (∀ n, l ≠ .delay n) ∧ step cfg s l = some s' ∧ mu cfg s' < mu cfg s

theorem Advance.mk {cfg : Cfg} {s : State} (l : Label) (s' : State) (h1 : internal s l = true)
    (h2 : ∀ n, l ≠ .delay n) (h3 : step cfg s l = some s') (h4 : mu cfg s' < mu cfg s) : Advance cfg s :=
  ⟨l, s', h1, h2, h3, h4⟩

variable {cfg : Cfg} {s : State}

/-! ### helper tasks, workers, daemons -/

theorem adv_daemonExit (hne : s.rt ≠ .exited) (d : Nat) (hd : d < s.nDaemons) (hr : s.dm d = .running) :
    Advance cfg s := by
  apply Advance.mk (.daemonExit d) { s with dm := upd s.dm d .ended } rfl (by intro n h; cases h)
  · simp [step, hne, hd, hr]
  · have := mDaemons_exit_lt s.nDaemons d hd s.dm hr
    simp only [mu]; omega

theorem adv_orphanEnd (hne : s.rt ≠ .exited) (h : 0 < s.orphans) : Advance cfg s := by
  apply Advance.mk .orphanEnd { s with orphans := s.orphans - 1 } rfl (by intro n h; cases h)
  · simp [step, hne, h]
  · simp only [mu]; omega

theorem adv_workerEnd (hne : s.rt ≠ .exited) (w : Nat) (hw : w < s.nWorkers) (o : Task)
    (hr : s.wk w = some (o, .running)) : Advance cfg s := by
  apply Advance.mk (.workerEnd w .done) { s with wk := upd s.wk w (some (o, .done)) } rfl (by intro n h; cases h)
  · simp [step, hne, hw, hr]
  · have := mWorkers_end_lt s.nWorkers w hw s.wk o .done hr (by decide)
    simp only [mu]; omega

theorem adv_waiterEnd (hw : s.waiter = true) (hrt : s.rt = .stoppingHung ∨ s.rt = .cStoppingHung) : Advance cfg s := by
  apply Advance.mk .waiterEnd { s with waiter := false } rfl (by intro n h; cases h)
  · simp [step, hw, hrt]
  · simp only [mu, hw]; simp

/-! ### `run_tasks` -/

theorem adv_rtStopRoots (hw : s.rt = .waiting) (ha : anyRootEnded s = true) : Advance cfg s := by
  apply Advance.mk .rtStopRoots { s with rt := .stoppingRoots, creq := cancelRootsV cfg s, t0 := some s.now } rfl
    (by intro n h; cases h)
  · simp [step, hw, ha]
  · simp only [mu, hw, rtRank, hungTime]; omega

theorem adv_rtHungWait (hw : s.rt = .stoppingRoots) (ha : allRootsEnded s = true) : Advance cfg s := by
  apply Advance.mk .rtHungWait { s with rt := .hungWait (s.now + cfg.H) } rfl (by intro n h; cases h)
  · simp [step, hw, ha]
  · simp only [mu, hw, rtRank, hungTime]; omega

theorem adv_rtCStopHung (hw : s.rt = .cStoppingRoots) (ha : allRootsEnded s = true) : Advance cfg s := by
  apply Advance.mk .rtCStopHung { s with rt := .cStoppingHung } rfl (by intro n h; cases h)
  · simp [step, hw, ha]
  · simp only [mu, hw, rtRank, hungTime]; omega

theorem adv_rtStopHung (dl : Nat) (hw : s.rt = .hungWait dl) (h : hungLive s = false ∨ dl ≤ s.now) :
    Advance cfg s := by
  apply Advance.mk .rtStopHung { s with rt := .stoppingHung } rfl (by intro n h; cases h)
  · simp [step, hw, h]
  · simp only [mu, hw, rtRank, hungTime]; omega

theorem adv_rtExit (hh : hungLive s = false) (hrt : s.rt = .stoppingHung ∨ s.rt = .cStoppingHung) :
    Advance cfg s := by
  rcases hrt with hrt | hrt
  · apply Advance.mk (.rtExit (if s.rootFailed || s.hungFailed then .raised else .returned))
      { s with rt := .exited, exitAt := some s.now, result := some (if s.rootFailed || s.hungFailed then .raised else .returned) } rfl
      (by intro n h; cases h)
    · simp [step, hh, hrt]
    · simp only [mu, hrt, rtRank, hungTime]; omega
  · apply Advance.mk (.rtExit .cancelled)
      { s with rt := .exited, exitAt := some s.now, result := some .cancelled } rfl (by intro n h; cases h)
    · simp [step, hh, hrt]
    · simp only [mu, hrt, rtRank, hungTime]; omega

/-! ### `startup_cleanup_activities` and the core task -/

theorem adv_scStartupBegin (hne : s.rt ≠ .exited) (h : s.sc = .init) : Advance cfg s := by
  apply Advance.mk .scStartupBegin { s with sc := .startup } rfl (by intro n h; cases h)
  · simp [step, hne, h]
  · simp only [mu, h, scRank]; omega

theorem adv_scStartupCancelled (hne : s.rt ≠ .exited) (h : s.sc = .startup)
    (hc : s.creq (.root .startupCleanup) = true) : Advance cfg s := by
  apply Advance.mk (.scStartupEnd .cancelled)
    { s with sc := .stopCore .cancelled, startupFailed := true, creq := upd s.creq (.root .startupCleanup) false } rfl
    (by intro n h; cases h)
  · simp [step, hne, h, hc]
  · simp only [mu, h, scRank]; omega

theorem adv_setStarted (hne : s.rt ≠ .exited) (h : s.sc = .startupOk) : Advance cfg s := by
  apply Advance.mk .setStarted { s with sc := .flagged, started := true } rfl (by intro n h; cases h)
  · simp [step, hne, h]
  · simp only [mu, h, scRank]; omega

theorem adv_ready (hne : s.rt ≠ .exited) (h : s.sc = .flagged) : Advance cfg s := by
  apply Advance.mk .ready { s with sc := .sleeping, ready := true } rfl (by intro n h; cases h)
  · simp [step, hne, h]
  · simp only [mu, h, scRank]; omega

theorem adv_scWake (hne : s.rt ≠ .exited) (h : s.sc = .sleeping) (hc : s.creq (.root .startupCleanup) = true) :
    Advance cfg s := by
  apply Advance.mk .scWake { s with sc := .waitRoots, creq := upd s.creq (.root .startupCleanup) false } rfl
    (by intro n h; cases h)
  · simp [step, hne, h, hc]
  · simp only [mu, h, scRank]; omega

theorem adv_scWaitRootsEnd (hne : s.rt ≠ .exited) (h : s.sc = .waitRoots) (ho : othersEnded s = true)
    (hc : s.creq (.root .startupCleanup) = false) : Advance cfg s := by
  apply Advance.mk .scWaitRootsEnd { s with sc := .stopCore .none } rfl (by intro n h; cases h)
  · simp [step, hne, h, ho, hc]
  · simp only [mu, h, scRank]; omega

/-- a repeated cancellation is pending while the task waits for the other root tasks: it leaves without the cleanup -/
theorem adv_scCut_waitRoots (hne : s.rt ≠ .exited) (h : s.sc = .waitRoots) (hc : s.creq (.root .startupCleanup) = true) :
    Advance cfg s := by
  apply Advance.mk .scCut { s with sc := .stopCore .cancelled, creq := upd s.creq (.root .startupCleanup) false } rfl
    (by intro n h; cases h)
  · simp [step, hne, h, hc]
  · simp only [mu, h, scRank]; omega

theorem adv_scStopCore (hne : s.rt ≠ .exited) (p : Pend) (h : s.sc = .stopCore p) : Advance cfg s := by
  apply Advance.mk .scStopCore { s with sc := .coreStopping p, coreCreq := s.coreCreq || s.core.live } rfl
    (by intro n h; cases h)
  · simp [step, hne, h]
  · simp only [mu, h, scRank]; omega

theorem adv_scCoreStopped (hne : s.rt ≠ .exited) (p : Pend) (h : s.sc = .coreStopping p) (hl : s.core.live = false) :
    Advance cfg s := by
  cases p with
  | none =>
    by_cases hc : s.core = .failed ∧ cfg.coreWatched = false
    · apply Advance.mk .scCoreStopped { s with sc := .over .failed } rfl (by intro n h; cases h)
      · simp [step, hne, hl, h, hc]
      · simp only [mu, h, scRank]; omega
    · apply Advance.mk .scCoreStopped { s with sc := .cleanup s.now, cleanupBegun := true } rfl (by intro n h; cases h)
      · simp [step, hne, hl, h, hc]
      · simp only [mu, h, scRank]; omega
  | failed =>
    apply Advance.mk .scCoreStopped { s with sc := .over .failed } rfl (by intro n h; cases h)
    · simp [step, hne, hl, h]
    · simp only [mu, h, scRank]; omega
  | cancelled =>
    apply Advance.mk .scCoreStopped { s with sc := .over .cancelled } rfl (by intro n h; cases h)
    · simp [step, hne, hl, h]
    · simp only [mu, h, scRank]; omega

theorem adv_scCleanupEnd (hne : s.rt ≠ .exited) (t : Nat) (h : s.sc = .cleanup t) : Advance cfg s := by
  apply Advance.mk (.scCleanupEnd .none) { s with sc := .closing } rfl (by intro n h; cases h)
  · simp [step, hne, h]
  · simp only [mu, h, scRank]; omega

theorem adv_vaultClosed (hne : s.rt ≠ .exited) (h : s.sc = .closing) : Advance cfg s := by
  apply Advance.mk .vaultClosed { s with sc := .over (if s.core = .failed then .failed else .none) } rfl
    (by intro n h; cases h)
  · simp [step, hne, h]
  · simp only [mu, h, scRank]; omega

theorem adv_coreEnd (hne : s.rt ≠ .exited) (hl : s.core.live = true) (hc : s.coreCreq = true) : Advance cfg s := by
  apply Advance.mk (.coreEnd .cancelled) { s with core := .cancelled, coreCreq := false } rfl (by intro n h; cases h)
  · simp [step, hne, hl, hc]
  · simp only [mu, hl]; simp <;> omega

theorem adv_coreEnter (hne : s.rt ≠ .exited) (hw : s.core = .waitingFlag) (hs : s.started = true)
    (hc : s.coreCreq = false) : Advance cfg s := by
  apply Advance.mk .coreEnter { s with core := .running } rfl (by intro n h; cases h)
  · simp [step, hne, hw, hs, hc]
  · simp only [mu, hw]; simp <;> omega

/-! ### root tasks -/

theorem mu_root_lt (r : Root) (x : TS) (creq' : Task → Bool) (rf : Bool) (tf : Option Nat) (k : Bool) (sr : Nat → Bool)
    (fw : Option Task) (osa : Option Nat) (h : rootPot x < rootPot (s.st (.root r))) :
    mu cfg { s with st := upd s.st (.root r) x, creq := creq', rootFailed := rf, tFail := tf, killed := k, stopReq := sr,
                    failWho := fw, orchStopAt := osa }
      < mu cfg s := by
  have := mRoots_upd_lt s.st r x h
  have h2 := mSubs_upd_root s.nSubs s.st s.kind s.withdrawn r x
  simp only [mu]; omega

theorem adv_enter (hne : s.rt ≠ .exited) (r : Root) (hw : s.st (.root r) = .waitingFlag) (hs : s.started = true)
    (hc : s.creq (.root r) = false) : Advance cfg s := by
  apply Advance.mk (.enter r) { s with st := upd s.st (.root r) .running } rfl (by intro n h; cases h)
  · simp [step, hne, hw, hs, hc]
  · exact mu_root_lt r .running s.creq s.rootFailed s.tFail s.killed s.stopReq s.failWho s.orchStopAt
      (by rw [hw]; simp [rootPot])

/-- ending a root task: any enabled `rootEnd` decreases the measure -/
theorem adv_rootEnd (r : Root) (how : TS) (s' : State) (hi : internal s (.rootEnd r how) = true)
    (hstep : step cfg s (.rootEnd r how) = some s') (hlive : (s.st (.root r)).live = true) : Advance cfg s := by
  apply Advance.mk (.rootEnd r how) s' hi (by intro n h; cases h) hstep
  have hpot : rootPot how < rootPot (s.st (.root r)) := by
    have he : how.ended = true := by
      simp only [step] at hstep
      split at hstep
      · rename_i hg; exact hg.2
      · cases hstep
    cases how <;> simp at he <;> (cases hst : s.st (.root r) <;> simp_all [rootPot])
  -- whatever the branch, only `st (root r)`, `creq`, `rootFailed`, `tFail`, `killed` change
  have hshape : s'.st = upd s.st (.root r) how ∧ s'.rt = s.rt ∧ s'.now = s.now ∧ s'.sc = s.sc ∧ s'.core = s.core
      ∧ s'.waiter = s.waiter ∧ s'.orphans = s.orphans ∧ s'.nSubs = s.nSubs ∧ s'.kind = s.kind
      ∧ s'.withdrawn = s.withdrawn ∧ s'.nWorkers = s.nWorkers ∧ s'.wk = s.wk ∧ s'.nDaemons = s.nDaemons
      ∧ s'.dm = s.dm ∧ s'.orchPing = s.orchPing := by
    simp only [step] at hstep
    split at hstep
    · repeat' (split at hstep)
      all_goals (first | (cases hstep; done) | skip)
      all_goals (cases hstep; simp)
    · cases hstep
  obtain ⟨e1, e2, e3, e4, e5, e6, e7, e8, e9, e10, e11, e12, e13, e14, e15⟩ := hshape
  have := mRoots_upd_lt s.st r how hpot
  have h2 := mSubs_upd_root s.nSubs s.st s.kind s.withdrawn r how
  simp only [mu, e1, e2, e3, e4, e5, e6, e7, e8, e9, e10, e11, e12, e13, e14, e15]; omega

theorem adv_rootStopping_observer (hne : s.rt ≠ .exited) (r : Root) (hk : r.kind = .observer)
    (hst : s.st (.root r) = .running) (hc : s.creq (.root r) = true) : Advance cfg s := by
  apply Advance.mk (.rootStopping r (s.werr (.root r)))
    { s with st := upd s.st (.root r) (.stopping (s.werr (.root r)) (some (s.now + cfg.E))),
             creq := upd s.creq (.root r) false,
             tFail := if s.werr (.root r) then markFail s else s.tFail,
             failWho := if s.werr (.root r) then markWho s (.root r) else s.failWho }
    (by simp [internal]) (by intro n h; cases h)
  · cases hw : s.werr (.root r) <;> simp [step, hne, hst, hk, hc, hw]
  · have := mu_root_lt (cfg := cfg) r (.stopping (s.werr (.root r)) (some (s.now + cfg.E))) (upd s.creq (.root r) false)
      s.rootFailed (if s.werr (.root r) then markFail s else s.tFail) s.killed s.stopReq
      (if s.werr (.root r) then markWho s (.root r) else s.failWho) s.orchStopAt (by rw [hst]; simp [rootPot])
    exact this

theorem adv_rootStopping_killer (hne : s.rt ≠ .exited) (hst : s.st (.root .daemonKiller) = .running)
    (hc : s.creq (.root .daemonKiller) = true) : Advance cfg s := by
  apply Advance.mk (.rootStopping .daemonKiller false)
    { s with st := upd s.st (.root .daemonKiller) (.stopping false (some (s.now + cfg.D))),
             creq := upd s.creq (.root .daemonKiller) false, killed := true, stopReq := stopReqNow s }
    (by simp [internal]) (by intro n h; cases h)
  · simp [step, hne, hst, Root.kind, hc]
  · exact mu_root_lt .daemonKiller (.stopping false (some (s.now + cfg.D))) (upd s.creq (.root .daemonKiller) false)
      s.rootFailed s.tFail true (stopReqNow s) s.failWho s.orchStopAt (by rw [hst]; simp [rootPot])

theorem adv_rootStopping_orch (hne : s.rt ≠ .exited) (hst : s.st (.root .orchestrator) = .running)
    (hc : s.creq (.root .orchestrator) = true) : Advance cfg s := by
  apply Advance.mk (.rootStopping .orchestrator s.orchErr)
    { s with st := upd s.st (.root .orchestrator) (.stopping s.orchErr none),
             creq := upd (cancelSubs s) (.root .orchestrator) false, orchStopAt := some s.now }
    (by cases h : s.orchErr <;> simp [internal, h]) (by intro n h; cases h)
  · simp [step, hne, hst, Root.kind, hc]
  · exact mu_root_lt .orchestrator (.stopping s.orchErr none) (upd (cancelSubs s) (.root .orchestrator) false)
      s.rootFailed s.tFail s.killed s.stopReq s.failWho (some s.now) (by rw [hst]; simp [rootPot])

/-- the second of the orchestrator's two exit stops: the streams are over, the keep-alives are cancelled -/
theorem adv_orchStopPingers (hne : s.rt ≠ .exited) (f : Bool) (dl : Option Nat)
    (hst : s.st (.root .orchestrator) = .stopping f dl) (hop : s.orchPing = false) (hns : noLiveStream s = true) :
    Advance cfg s := by
  apply Advance.mk .orchStopPingers { s with creq := cancelPingers s, orchPing := true } rfl (by intro n h; cases h)
  · simp [step, hne, hop, hns, hst]
  · simp only [mu, hop]; simp

/-! ### ensemble tasks -/

theorem adv_withdraw (hne : s.rt ≠ .exited) (i : Nat) (hi : i < s.nSubs) (hk : s.kind i = .pinger)
    (hst : (s.st (.sub i)).isStopping = true) (hw : s.withdrawn i = false) : Advance cfg s := by
  rw [TS.isStopping_iff] at hst
  obtain ⟨f, dl, hst⟩ := hst
  apply Advance.mk (.withdraw i true)
    { s with withdrawn := upd s.withdrawn i true, withdrawnOk := upd s.withdrawnOk i (s.withdrawnOk i || true),
             acts := s.acts + 1 } rfl (by intro n h; cases h)
  · simp [step, hne, hi, hk, hst]
  · have := mSubs_withdraw_lt s.nSubs i hi s.st s.kind s.withdrawn hk hw
    simp only [mu]; omega

theorem adv_subStopping (hne : s.rt ≠ .exited) (i : Nat) (hi : i < s.nSubs) (hst : s.st (.sub i) = .running)
    (hc : s.creq (.sub i) = true) : Advance cfg s := by
  apply Advance.mk (.subStopping i (s.werr (.sub i)))
    { s with st := upd s.st (.sub i) (.stopping (s.werr (.sub i)) (some (s.now + grace cfg s (.sub i)))),
             creq := upd s.creq (.sub i) false,
             tFail := if s.werr (.sub i) = true ∧ cfg.fixed = true then markFail s else s.tFail,
             failWho := if s.werr (.sub i) = true ∧ cfg.fixed = true then markWho s (.sub i) else s.failWho }
    (by simp [internal]) (by intro n h; cases h)
  · cases hw : s.werr (.sub i) <;> simp [step, hne, hi, hst, hc, hw]
  · have := mSubs_upd_lt s.nSubs i hi s.st s.kind s.withdrawn
      (.stopping (s.werr (.sub i)) (some (s.now + grace cfg s (.sub i)))) (by rw [hst]; simp [rootPot])
    have h2 := mRoots_upd_sub s.st i (.stopping (s.werr (.sub i)) (some (s.now + grace cfg s (.sub i))))
    simp only [mu]; omega

theorem mRoots_upd_eq (st : Task → TS) (r : Root) (x : TS) (h : rootPot x = rootPot (st (.root r))) :
    mRoots (upd st (.root r) x) = mRoots st := by
  cases r <;> simp [mRoots, upd] at h ⊢ <;> omega

theorem adv_subEnd (hne : s.rt ≠ .exited) (i : Nat) (hi : i < s.nSubs) (f : Bool) (dl : Option Nat)
    (hst : s.st (.sub i) = .stopping f dl) (hw : noLiveWorkerOf s (.sub i) = true)
    (hp : s.kind i = .pinger → s.withdrawn i = true) : Advance cfg s := by
  have hlt := mSubs_upd_lt s.nSubs i hi s.st s.kind s.withdrawn (failTS f)
    (by rw [hst]; cases f <;> simp [rootPot, failTS])
  have h2 := mRoots_upd_sub s.st i (failTS f)
  have hmu : ∀ (c : Task → Bool) (oe : Bool),
      mu cfg { s with st := upd s.st (.sub i) (failTS f), creq := c, orchErr := oe } < mu cfg s := by
    intro c oe
    simp only [mu]; omega
  by_cases he : cfg.fixed = true ∧ f = true ∧ s.gone i = false ∧ s.st (.root .orchestrator) = .running
  · apply Advance.mk (.subEnd i (failTS f))
      { s with st := upd s.st (.sub i) (failTS f), creq := upd s.creq (.root .orchestrator) true, orchErr := true }
      rfl (by intro n h; cases h)
    · simp [step, hne, hi, hst, hw, he]; exact hp
    · exact hmu _ _
  · by_cases hc : (∃ f' dl', s.st (.root .orchestrator) = .stopping f' dl')
        ∧ cfg.fixed = true ∧ f = true ∧ s.gone i = false
    · obtain ⟨⟨f', dl', ho⟩, hc2⟩ := hc
      apply Advance.mk (.subEnd i (failTS f))
        { s with st := upd (upd s.st (.sub i) (failTS f)) (.root .orchestrator) (.stopping true none), orchErr := true }
        rfl (by intro n h; cases h)
      · simp [step, hne, hi, hst, hw, he, ho, hc2]; exact hp
      · have h3 := mRoots_upd_eq (upd s.st (.sub i) (failTS f)) .orchestrator (.stopping true none)
          (by simp [upd, ho, rootPot])
        have h4 := mSubs_upd_root s.nSubs (upd s.st (.sub i) (failTS f)) s.kind s.withdrawn .orchestrator
          (.stopping true none)
        simp only [mu]; omega
    · apply Advance.mk (.subEnd i (failTS f)) { s with st := upd s.st (.sub i) (failTS f) } rfl
        (by intro n h; cases h)
      · cases ho : s.st (.root .orchestrator) with
        | stopping f' dl' =>
          have : ¬ (cfg.fixed = true ∧ f = true ∧ s.gone i = false) := fun h => hc ⟨⟨f', dl', ho⟩, h⟩
          simp [step, hne, hi, hst, hw, he, ho, this]; exact hp
        | running =>
          have : ¬ (cfg.fixed = true ∧ f = true ∧ s.gone i = false) := fun h => he ⟨h.1, h.2.1, h.2.2, ho⟩
          simp [step, hne, hi, hst, hw, ho, this]; exact hp
        | _ => simp [step, hne, hi, hst, hw, ho]; exact hp
      · exact hmu s.creq s.orchErr

end Kopf.C20
