/-
  C16 helper lemmas, part 7: every operation of a cycle keeps the accumulated patch well-formed and
  leaves `kind` / `metadata.ownerReferences` alone — so the theorems "for ANY accumulated patch" apply
  after any sequence of operations.
-/
import Kopf.Model.C16_Restore
import Kopf.Lemmas.C16_Multi
namespace Kopf.C16
open Kopf Kopf.J

theorem wf_touchValue (v : Option String) : wf (touchValue v) = true := by
  cases v <;> simp [touchValue, wf]

theorem annStore_keeps {env : Env} {c : AnnCfg} {body p p' : J} {k : Str} {r : Rec}
    (h : annStore env c body p k r = .ok p') (hw : wf p = true) (hs : MarkStable p) :
    wf p' = true ∧ MarkStable p' := by
  unfold annStore at h
  cases e1 : ensureAll p (annNames env c.pfx c.v1 body k) (str (env.enc (obj (stored c.verbose r)))) with
  | error e => rw [e1] at h; cases h
  | ok q =>
    rw [e1] at h
    have t1 := ensureAll_touches _ (wf_str _) e1
    have t2 := storeMarker_touches h
    exact ⟨t2.keepsWf (t1.keepsWf hw),
      (hs.of_touches_ann t1).of_touches_ann (names := [markerName c.pfx]) (by simpa using t2)⟩

theorem annPurge_keeps {env : Env} {c : AnnCfg} {body p p' : J} {k : Str}
    (h : annPurge env c body p k = .ok p') (hw : wf p = true) (hs : MarkStable p) :
    wf p' = true ∧ MarkStable p' := by
  unfold annPurge at h
  have t := purgeAll_touches _ h
  exact ⟨t.keepsWf hw, hs.of_touches_ann t⟩

theorem annTouch_keeps {env : Env} {c : AnnCfg} {body p p' value : J} (hv : wf value = true)
    (h : annTouch env c body p value = .ok p') (hw : wf p = true) (hs : MarkStable p) :
    wf p' = true ∧ MarkStable p' := by
  unfold annTouch at h
  have t := touchNames_touches _ hv h
  exact ⟨t.keepsWf hw,
    hs.of_touches_ann (names := annNames env c.pfx c.v1 body c.touchKey ++ [markerName c.pfx])
      (by simpa [List.map_append] using t)⟩

theorem AnnOp.run_keeps {env : Env} {c : AnnCfg} {body p p' : J} (o : AnnOp)
    (h : o.run env c body p = .ok p') (hw : wf p = true) (hs : MarkStable p) :
    wf p' = true ∧ MarkStable p' := by
  cases o with
  | store k r => exact annStore_keeps h hw hs
  | purge k => exact annPurge_keeps h hw hs
  | touch v => exact annTouch_keeps (wf_touchValue v) h hw hs

theorem runAnnOps_keeps {env : Env} {c : AnnCfg} {body : J} (ops : List AnnOp) :
    ∀ {p p' : J}, runAnnOps env c body p ops = .ok p' → wf p = true → MarkStable p →
      wf p' = true ∧ MarkStable p' := by
  induction ops with
  | nil => intro p p' h hw hs; simp [runAnnOps] at h; subst h; exact ⟨hw, hs⟩
  | cons o os ih =>
    intro p p' h hw hs
    simp only [runAnnOps] at h
    cases e : o.run env c body p with
    | error x => rw [e] at h; cases h
    | ok q =>
      rw [e] at h
      have hq := o.run_keeps e hw hs
      exact ih h hq.1 hq.2

end Kopf.C16
