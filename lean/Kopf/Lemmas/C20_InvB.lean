/-
  C20 helper lemmas, part 3: structural invariants (`InvB`): who owns whom, what a worker error does
  to its watcher, the withdrawal of the peering record, `rootFailed`.
-/
import Kopf.Lemmas.C20_InvA
namespace Kopf.C20

/-- a task that may own workers: a root observer or a spawned ensemble task -/
def ownerOk (s : State) : Task → Prop
  | .root r => r.kind = .observer
  | .sub i => i < s.nSubs

@[simp] theorem ownerOk_root (s : State) (r : Root) : ownerOk s (.root r) ↔ r.kind = .observer := Iff.rfl
@[simp] theorem ownerOk_sub (s : State) (i : Nat) : ownerOk s (.sub i) ↔ i < s.nSubs := Iff.rfl

structure InvB (s : State) : Prop where
  rootFailedIff : s.rootFailed = true ↔ ∃ r, s.st (.root r) = .failed
  subOrch : ∀ i, i < s.nSubs → (s.st (.sub i)).live = true → (s.st (.root .orchestrator)).active = true
  wkOwner : ∀ w o, s.wk w = some (o, .running) → w < s.nWorkers ∧ (s.st o).active = true ∧ ownerOk s o
  werrJ : ∀ o, s.werr o = true → ownerOk s o ∧
    ((s.st o = .running ∧ s.creq o = true) ∨ (∃ dl, s.st o = .stopping true dl) ∨ s.st o = .failed)
  withdrawnJ : ∀ i, i < s.nSubs → s.kind i = .pinger → (s.st (.sub i)).ended = true → s.withdrawn i = true
  stoppingNone : ∀ r f, s.st (.root r) = .stopping f none → r = .orchestrator
  subSome : ∀ i f, s.st (.sub i) ≠ .stopping f none
  orchStopSubs : (∃ f dl, s.st (.root .orchestrator) = .stopping f dl) →
    ∀ i, i < s.nSubs → (s.st (.sub i)).live = true →
      s.creq (.sub i) = true ∨ ∃ f dl, s.st (.sub i) = .stopping f dl

theorem InvB.init : InvB init := by
  constructor <;> simp [Kopf.C20.init, initSt]
  · intro r; split <;> simp
  · intro r f; split <;> simp

set_option maxHeartbeats 4000000 in
theorem InvB.preserved {cfg : Cfg} {s s' : State} {l : Label} (hI : InvB s)
    (h : step cfg s l = some s') : InvB s' := by
  obtain ⟨h1, h2, h3, h4, h5, h6, h7, h8⟩ := hI
  cases l <;> simp only [step] at h
  all_goals (repeat' (split at h))
  all_goals (first | (cases h; done) | skip)
  all_goals (cases h)
  all_goals (try simp only [noLiveWorkerOf_iff, noLiveSub_iff] at *)
  all_goals (refine ⟨?_, ?_, ?_, ?_, ?_, ?_, ?_, ?_⟩)
  all_goals (first | (simp_all; done) | skip)
  all_goals (first | grind [upd, Root.kind, TS.active, TS.live, TS.ended, watcherLike, ownerOk, failTS, cancelSubs, cancelRoots, Pend.ts] | (trace_state; sorry))

end Kopf.C20
