/-
  C20 helper lemmas, part 3: structural invariants (`InvB`): who owns whom, what a worker error does
  to its watcher, the withdrawal of the peering record, `rootFailed`.
-/
import Kopf.Lemmas.C20_InvA
namespace Kopf.C20

structure InvB (s : State) : Prop where
  rootFailedIff : s.rootFailed = true ↔ ∃ r, s.st (.root r) = .failed
  subOrch : ∀ i, i < s.nSubs → (s.st (.sub i)).live = true → (s.st (.root .orchestrator)).active = true
  wkRoot : ∀ w r, s.wk w = some (.root r, .running) →
    w < s.nWorkers ∧ (s.st (.root r)).active = true ∧ r.kind = .observer
  wkSub : ∀ w i, s.wk w = some (.sub i, .running) →
    w < s.nWorkers ∧ (s.st (.sub i)).active = true ∧ i < s.nSubs
  werrRoot : ∀ r, s.werr (.root r) = true → r.kind = .observer ∧
    ((s.st (.root r) = .running ∧ s.creq (.root r) = true) ∨ (∃ dl, s.st (.root r) = .stopping true dl)
      ∨ s.st (.root r) = .failed)
  werrSub : ∀ i, s.werr (.sub i) = true → i < s.nSubs ∧
    ((s.st (.sub i) = .running ∧ s.creq (.sub i) = true) ∨ (∃ dl, s.st (.sub i) = .stopping true dl)
      ∨ s.st (.sub i) = .failed)
  withdrawnJ : ∀ i, i < s.nSubs → s.kind i = .pinger → (s.st (.sub i)).ended = true → s.withdrawn i = true
  stoppingNone : ∀ r f, s.st (.root r) = .stopping f none → r = .orchestrator
  subSome : ∀ i f, s.st (.sub i) ≠ .stopping f none
  orchStopSubs : (s.st (.root .orchestrator)).isStopping = true →
    ∀ i, i < s.nSubs → (s.st (.sub i)).live = true →
      s.creq (.sub i) = true ∨ (s.st (.sub i)).isStopping = true

theorem InvB.init : InvB init := by
  constructor <;> simp [Kopf.C20.init, initSt]
  all_goals (intro r; split <;> simp)

set_option maxHeartbeats 4000000 in
theorem InvB.preserved {cfg : Cfg} {s s' : State} {l : Label} (hI : InvB s)
    (h : step cfg s l = some s') : InvB s' := by
  obtain ⟨h1, h2, h3, h4, h5, h6, h7, h8, h9, h10⟩ := hI
  cases l <;> simp only [step] at h
  all_goals (repeat' (split at h))
  all_goals (first | (cases h; done) | skip)
  all_goals (cases h)
  all_goals (try simp only [noLiveWorkerOf_iff, noLiveSub_iff] at *)
  all_goals (refine ⟨?_, ?_, ?_, ?_, ?_, ?_, ?_, ?_, ?_, ?_⟩)
  all_goals (first | exact h1 | exact h2 | exact h3 | exact h4 | exact h5 | exact h6 | exact h7 | exact h8
                   | exact h9 | exact h10 | skip)
  all_goals (try simp only [kind_orchestrator_iff, kind_killer_iff, kind_flagChecker_iff, kind_ultimate_iff,
    kind_startupCleanup_iff] at *)
  all_goals (try subst_vars)
  all_goals (try dsimp only)
  all_goals (grind [upd, Root.kind, TS.active, TS.live, TS.ended, TS.isStopping, watcherLike, failTS, cancelSubs, cancelRoots, Pend.ts])

end Kopf.C20

namespace Kopf.C20

theorem InvB.reach {cfg : Cfg} {s : State} (h : Reach cfg s) : InvB s :=
  Reach.induction (P := InvB) InvB.init (fun _ _ _ _ hI hs => InvB.preserved hI hs) s h

end Kopf.C20
