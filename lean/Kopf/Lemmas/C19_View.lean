/-
  C19 — the consumer's view equals the server's state at `since` (invariant), and what a listing yields.
-/
import Kopf.Lemmas.C19_Watch
namespace Kopf.C19

/-! ### `lastOf`, `liveItems`, filters -/

theorem lastOf_mem {log : List Entry} {k : Nat} {e : Entry} (h : lastOf log k = some e) :
    e ∈ log ∧ e.key = k := by
  unfold lastOf at h
  have hm := List.mem_of_getLast? h
  have := List.mem_filter.mp hm
  exact ⟨this.1, by simpa using this.2⟩

theorem lastOf_append_single (l : List Entry) (e : Entry) (k : Nat) :
    lastOf (l ++ [e]) k = if e.key = k then some e else lastOf l k := by
  unfold lastOf
  by_cases h : e.key = k
  · simp [List.filter_append, h]
  · simp [List.filter_append, h]

theorem lastOf_isSome_of_mem {log : List Entry} {e : Entry} (he : e ∈ log) : ∃ e', lastOf log e.key = some e' := by
  unfold lastOf
  have hm : e ∈ log.filter (fun x => x.key == e.key) := List.mem_filter.mpr ⟨he, by simp⟩
  cases h : (log.filter (fun x => x.key == e.key)).getLast? with
  | none => rw [List.getLast?_eq_none_iff] at h; rw [h] at hm; cases hm
  | some e' => exact ⟨e', rfl⟩

theorem mem_liveItems {log : List Entry} {e : Entry} :
    e ∈ liveItems log ↔ e ∈ log ∧ e.kind ≠ .deleted ∧ lastOf log e.key = some e := by
  simp [liveItems, List.mem_filter]

/-- the entry a listing shows for key `k`, if any -/
theorem find_liveItems (log : List Entry) (k : Nat) :
    ((liveItems log).reverse.find? (fun e => e.key == k)) =
      match lastOf log k with
      | some e => if e.kind = .deleted then none else some e
      | none => none := by
  cases hl : lastOf log k with
  | none =>
      simp only
      rw [List.find?_eq_none]
      intro e he
      have he' := mem_liveItems.mp (List.mem_reverse.mp he)
      intro hk
      have hk' : e.key = k := by simpa using hk
      rw [hk'] at he'
      rw [hl] at he'
      cases he'.2.2
  | some e0 =>
      simp only
      obtain ⟨hm0, hk0⟩ := lastOf_mem hl
      by_cases hd : e0.kind = .deleted
      · simp only [hd, if_true]
        rw [List.find?_eq_none]
        intro e he
        have he' := mem_liveItems.mp (List.mem_reverse.mp he)
        intro hk
        have hk' : e.key = k := by simpa using hk
        rw [hk', hl] at he'
        have : e0 = e := by injection he'.2.2
        subst this
        exact he'.2.1 hd
      · simp only [hd, if_false]
        have hin : e0 ∈ (liveItems log).reverse := by
          apply List.mem_reverse.mpr
          exact mem_liveItems.mpr ⟨hm0, hd, by rw [hk0]; exact hl⟩
        cases hf : (liveItems log).reverse.find? (fun e => e.key == k) with
        | none =>
            have := List.find?_eq_none.mp hf e0 hin
            simp [hk0] at this
        | some e1 =>
            have h1 := List.mem_of_find?_eq_some hf
            have h2 := List.find?_some hf
            have he' := mem_liveItems.mp (List.mem_reverse.mp h1)
            have hk' : e1.key = k := by simpa using h2
            rw [hk', hl] at he'
            have : e0 = e1 := by injection he'.2.2
            rw [this]

theorem blockLookup_items (xs : List Entry) (past : List Out) (k : Nat)
    (hp : blockLookup past k = none) :
    blockLookup (xs.map (fun e => Out.item e.key e.rv) ++ past) k
      = (xs.find? (fun e => e.key == k)).map (·.rv) := by
  induction xs with
  | nil => simpa using hp
  | cons x xs ih =>
      simp only [List.map_cons, List.cons_append, blockLookup, List.find?_cons]
      by_cases h : x.key = k
      · simp [h]
      · have hb : (x.key == k) = false := by simpa using h
        simp [h, hb, ih]

theorem blockLookup_head_not_item {past : List Out} (h : ∀ k rv rest, past ≠ .item k rv :: rest) (k : Nat) :
    blockLookup past k = none := by
  cases past with
  | nil => rfl
  | cons o rest =>
      cases o <;> first | rfl | exact absurd rfl (h _ _ _)

/-! ### the view invariant -/

structure VInv (w : World) : Prop where
  hor : w.horizon ≤ w.srv
  pos : ∀ e ∈ w.log, 0 < e.rv
  head : ∀ k rv rest, w.outs ≠ .item k rv :: rest
  view : ∀ k, viewOf w.outs k = stateAt w.log w.since k

theorem vinv_init : VInv init := by
  refine ⟨by simp [init], by simp [init], by simp [init], ?_⟩
  intro k; simp [init, viewOf, stateAt, lastOf]

/-- outputs that tell the consumer nothing about objects -/
def Out.neutral : Out → Bool
  | .item _ _ => false
  | .listed _ => false
  | .event _ _ _ => false
  | _ => true

theorem viewOf_neutral {o : Out} (h : o.neutral = true) (past : List Out) (k : Nat) :
    viewOf (o :: past) k = viewOf past k := by
  cases o <;> simp_all [Out.neutral, viewOf]

/-- an act that changes neither the log nor `since` and adds at most one neutral output -/
theorem vinv_frame {w w' : World} (h : VInv w) (hlog : w'.log = w.log) (hsince : w'.since = w.since)
    (hhor : w'.horizon ≤ w'.srv)
    (houts : w'.outs = w.outs ∨ ∃ o, o.neutral = true ∧ w'.outs = o :: w.outs) : VInv w' := by
  refine ⟨hhor, by rw [hlog]; exact h.pos, ?_, ?_⟩
  · rcases houts with ho | ⟨o, hn, ho⟩
    · rw [ho]; exact h.head
    · rw [ho]; intro k rv rest heq
      injection heq with h1 _
      subst h1
      simp [Out.neutral] at hn
  · intro k
    rw [hlog, hsince]
    rcases houts with ho | ⟨o, hn, ho⟩
    · rw [ho]; exact h.view k
    · rw [ho, viewOf_neutral hn]; exact h.view k

theorem filter_le_append_gt (l : List Entry) (e : Entry) (v : Nat) (h : v < e.rv) :
    (l ++ [e]).filter (fun x => decide (x.rv ≤ v)) = l.filter (fun x => decide (x.rv ≤ v)) := by
  simp [List.filter_append, Nat.not_le.mpr h]

theorem filter_le_of_bound {l : List Entry} {v : Nat} (h : ∀ e ∈ l, e.rv ≤ v) :
    l.filter (fun x => decide (x.rv ≤ v)) = l := by
  apply List.filter_eq_self.mpr
  intro e he; simpa using h e he

/-- delivering the least pending entry extends the "known" prefix of the log by exactly that entry -/
theorem filter_le_next {log : List Entry} (hs : Sorted log) {v : Nat} {e : Entry}
    (hn : nextEntry log v = some e) :
    log.filter (fun x => decide (x.rv ≤ e.rv)) = log.filter (fun x => decide (x.rv ≤ v)) ++ [e] := by
  unfold nextEntry at hn
  induction log with
  | nil => simp at hn
  | cons x xs ih =>
      have hs' : Sorted xs := (List.pairwise_cons.mp hs).2
      have hx : ∀ y ∈ xs, x.rv < y.rv := (List.pairwise_cons.mp hs).1
      rw [List.find?_cons] at hn
      by_cases hp : v < x.rv
      · simp [hp] at hn
        subst hn
        have hnone : xs.filter (fun y => decide (y.rv ≤ x.rv)) = [] := by
          apply List.filter_eq_nil_iff.mpr
          intro y hy; have := hx y hy; simp; omega
        have hnone2 : xs.filter (fun y => decide (y.rv ≤ v)) = [] := by
          apply List.filter_eq_nil_iff.mpr
          intro y hy; have := hx y hy; simp; omega
        simp [List.filter_cons, hnone, hnone2, Nat.not_le.mpr hp]
      · simp [hp] at hn
        have hle : x.rv ≤ v := Nat.le_of_not_lt hp
        have hgt := (nextEntry_mem (log := xs) (v := v) (e := e) (by unfold nextEntry; exact hn)).2
        have : x.rv ≤ e.rv := by omega
        simp [List.filter_cons, hle, this, ih hs' hn]

theorem stateAt_append_gt (l : List Entry) (e : Entry) (v k : Nat) (h : v < e.rv) :
    stateAt (l ++ [e]) v k = stateAt l v k := by
  unfold stateAt; rw [filter_le_append_gt l e v h]

theorem vinv_step {w : World} (hi : Inv w) (h : VInv w) (a : Act) : VInv (step w a) := by
  cases a with
  | change key kind vis =>
      simp only [step]
      split
      · refine ⟨?_, ?_, h.head, ?_⟩
        · have := h.hor; simp; omega
        · intro e he
          rcases List.mem_append.mp he with he | he
          · exact h.pos e he
          · simp at he; subst he; simp
        · intro k
          have hlt : w.since < w.srv + 1 := Nat.lt_succ_of_le hi.since_le
          show viewOf w.outs k = stateAt (w.log ++ [⟨w.srv + 1, key, kind⟩]) w.since k
          rw [stateAt_append_gt _ _ _ _ hlt]
          exact h.view k
      · exact ⟨by have := h.hor; simp; omega, h.pos, h.head, h.view⟩
  | compact upto =>
      refine ⟨?_, h.pos, h.head, h.view⟩
      have := h.hor
      simp only [step]
      omega
  | setHttp410 b => exact ⟨h.hor, h.pos, h.head, h.view⟩
  | pause => exact ⟨h.hor, h.pos, h.head, h.view⟩
  | resume => exact ⟨h.hor, h.pos, h.head, h.view⟩
  | unknownType => exact h
  | notice =>
      simp only [step]
      split
      · split <;> first | exact h | exact ⟨h.hor, h.pos, h.head, h.view⟩
      · exact h
  | unblock =>
      simp only [step]
      split
      · split
        · exact h
        · exact vinv_frame h rfl rfl h.hor (Or.inr ⟨.reqList, rfl, rfl⟩)
      · exact h
  | wake =>
      simp only [step]
      split
      · split
        · exact ⟨h.hor, h.pos, h.head, h.view⟩
        · exact vinv_frame h rfl rfl h.hor (Or.inr ⟨.reqList, rfl, rfl⟩)
      · exact h
  | retry =>
      simp only [step]
      split
      · exact vinv_frame h rfl rfl h.hor (Or.inr ⟨.retryList, rfl, rfl⟩)
      · exact vinv_frame h rfl rfl h.hor (Or.inr ⟨.retryWatch w.since, rfl, rfl⟩)
      · exact h
  | failReq k =>
      simp only [step]
      split
      · cases k
        · exact ⟨h.hor, h.pos, h.head, h.view⟩
        · exact ⟨h.hor, h.pos, h.head, h.view⟩
        · exact ⟨h.hor, h.pos, h.head, h.view⟩
        · exact vinv_frame h rfl rfl h.hor (Or.inr ⟨.raised .fatal, rfl, rfl⟩)
      · cases k
        · simp only [rewatch]; split
          · exact ⟨h.hor, h.pos, h.head, h.view⟩
          · exact vinv_frame h rfl rfl h.hor (Or.inr ⟨.reqWatch w.since, rfl, rfl⟩)
        · simp only [rewatch]; split
          · exact ⟨h.hor, h.pos, h.head, h.view⟩
          · exact vinv_frame h rfl rfl h.hor (Or.inr ⟨.reqWatch w.since, rfl, rfl⟩)
        · exact ⟨h.hor, h.pos, h.head, h.view⟩
        · exact vinv_frame h rfl rfl h.hor (Or.inr ⟨.raised .fatal, rfl, rfl⟩)
      · exact h
  | drop d =>
      simp only [step]
      split
      · simp only [rewatch]; split
        · exact ⟨h.hor, h.pos, h.head, h.view⟩
        · exact vinv_frame h rfl rfl h.hor (Or.inr ⟨.reqWatch w.since, rfl, rfl⟩)
      · exact h
  | err410 =>
      simp only [step]
      split
      · exact ⟨h.hor, h.pos, h.head, h.view⟩
      · exact h
  | errUnknown =>
      simp only [step]
      split
      · exact vinv_frame h rfl rfl h.hor (Or.inr ⟨.raised .unknownError, rfl, rfl⟩)
      · exact h
  | garbage =>
      simp only [step]
      split
      · exact vinv_frame h rfl rfl h.hor (Or.inr ⟨.raised .garbage, rfl, rfl⟩)
      · exact h
  | bookmark b =>
      simp only [step]
      split
      · split
        · rename_i hb
          simp only [bookmarkOK, Bool.and_eq_true, decide_eq_true_eq, List.all_eq_true,
            Bool.or_eq_true] at hb
          obtain ⟨⟨h1, h2⟩, h3⟩ := hb
          refine ⟨h.hor, h.pos, by simp [emit], ?_⟩
          intro k
          show viewOf (Out.bookmark b :: w.outs) k = stateAt w.log b k
          rw [viewOf_neutral rfl, h.view k]
          unfold stateAt
          have : w.log.filter (fun x => decide (x.rv ≤ b)) = w.log.filter (fun x => decide (x.rv ≤ w.since)) := by
            apply List.filter_congr
            intro e he
            rcases h3 e he with hl | hg
            · have : e.rv ≤ b := Nat.le_trans hl h1
              simp [hl, this]
            · have h4 : ¬ e.rv ≤ b := by omega
              have h5 : ¬ e.rv ≤ w.since := by omega
              simp [h4, h5]
          rw [this]
        · exact h
      · exact h
  | deliver =>
      simp only [step]
      split
      · split
        · rename_i e hn
          refine ⟨h.hor, h.pos, by simp [emit], ?_⟩
          intro k
          show viewOf (Out.event e.kind e.key e.rv :: w.outs) k = stateAt w.log e.rv k
          unfold stateAt
          rw [filter_le_next hi.sorted hn, lastOf_append_single]
          simp only [viewOf]
          by_cases hk : e.key = k
          · simp [hk]
          · simp only [hk, if_false]
            have := h.view k
            unfold stateAt at this
            exact this
        · exact h
      · exact h
  | respond =>
      simp only [step]
      split
      · -- a listing: the view is replaced by what was listed = the server's state now
        have hview : ∀ k, viewOf (.listed w.srv :: itemsBlock w.log ++ w.outs) k = stateAt w.log w.srv k := by
          intro k
          show blockLookup (itemsBlock w.log ++ w.outs) k = stateAt w.log w.srv k
          rw [itemsBlock_eq, blockLookup_items _ _ _ (blockLookup_head_not_item h.head k), find_liveItems]
          unfold stateAt
          rw [filter_le_of_bound hi.bound]
          cases lastOf w.log k with
          | none => rfl
          | some e => by_cases hd : e.kind = .deleted <;> simp only [hd, if_true, if_false] <;> rfl
        simp only [rewatch]
        split
        · exact ⟨h.hor, h.pos, by simp [emit, toBackoff], hview⟩
        · refine ⟨h.hor, h.pos, by simp [emit], ?_⟩
          intro k
          show viewOf (Out.reqWatch w.srv :: (.listed w.srv :: itemsBlock w.log ++ w.outs)) k = stateAt w.log w.srv k
          rw [viewOf_neutral rfl]
          exact hview k
      · split
        · exact ⟨h.hor, h.pos, h.head, h.view⟩
        · split
          · exact ⟨h.hor, h.pos, h.head, h.view⟩
          · split
            · exact ⟨h.hor, h.pos, h.head, h.view⟩
            · exact ⟨h.hor, h.pos, h.head, h.view⟩
      · exact h

theorem vinv_run (as : List Act) : ∀ {w : World}, Inv w → VInv w → VInv (run w as) := by
  induction as with
  | nil => intro w _ h; exact h
  | cons a as ih => intro w hi h; exact ih (inv_step hi a) (vinv_step hi h a)

end Kopf.C19
