/-
  C01 — invariant preservation, part B (the clauses about live instances: stream ownership, uniqueness,
  non-empty backlog of not-yet-started instances).
-/
import Kopf.Lemmas.C01_Inv
namespace Kopf.C01

section
variable {s s' : State} {l : Label}

theorem live_stream_step (hi : Inv s) (h : step s l = some s') :
    ∀ w p, s'.pc w = some p → p.live = true → s'.streams w.key ≠ none := by
  have h1 := hi.live_stream
  have h2 := hi.uniq
  have h3 := hi.hand_none
  have h4 := hi.pend_iff
  have h5 := hi.no_checked
  intro w p
  cases l <;> step_cases h <;> (try simp only [upd_apply]) <;> (try split) <;> simp_all
  all_goals grind [Pc.live_pending, Pc.live_spawned, Pc.live_waiting, Pc.live_busy, Pc.live_leaving]

theorem uniq_step (hi : Inv s) (h : step s l = some s') :
    ∀ w w' p p', s'.pc w = some p → s'.pc w' = some p' → p.live = true → p'.live = true →
      w.key = w'.key → w = w' := by
  have h1 := hi.live_stream
  have h2 := hi.uniq
  have h3 := hi.hand_none
  have h4 := hi.pend_iff
  have h5 := hi.no_checked
  have h6 := hi.fresh
  intro w w' p p'
  cases l <;> step_cases h <;> (try dsimp only)
  all_goals grind [upd_apply, Pc.live_pending, Pc.live_spawned, Pc.live_waiting, Pc.live_busy, Pc.live_leaving]

theorem nonempty_step (hi : Inv s) (h : step s l = some s') :
    ∀ w, (s'.pc w = some .pending ∨ s'.pc w = some .spawned) → s'.streams w.key ≠ some [] := by
  have h1 := hi.nonempty
  have h2 := hi.uniq
  have h3 := hi.hand_none
  have h5 := hi.no_checked
  have h6 : ∀ w rest, s.pendingQ = w :: rest → s.pc w = some .pending := by
    intro w rest hq; exact (hi.pend_iff w).1 (by simp [hq])
  intro w
  cases l <;> step_cases h <;> (try dsimp only)
  all_goals grind [upd_apply, List.append_eq_nil_iff, Pc.live_pending, Pc.live_spawned, Pc.live_waiting, Pc.live_busy, Pc.live_leaving]

end
end Kopf.C01
