/-
  Lemmas for C14: persistence of finished records of *selected* handlers across passes whose reason
  changes (the "extras" path of C02's cycle), under the invariant that stored records carry one purpose.
-/
import Kopf.Props.C02
namespace Kopf.C02

/-- with uniform purposes, "extras" means: every stored record has a purpose other than the reason -/
theorem extras_purpose {cfg : Cfg} {P : Store} {now : Tick} (hsub : ∀ i ∈ cfg.selected, i ∈ cfg.owned)
    (hu : UniformOn cfg.owned P) (hex : extras cfg P now = true) :
    ∀ i ∈ cfg.owned, ∀ r, P i = some r → r.purpose ≠ some cfg.reason := by
  obtain ⟨p, hp⟩ := hu
  unfold extras hasExtras at hex
  rw [List.any_eq_true] at hex
  obtain ⟨j, hjk, hj⟩ := hex
  have hpne : p ≠ cfg.reason := by
    cases hs : withHandlers (fromStorage P cfg.owned) cfg.selected cfg.reason now j with
    | none => simp [hs] at hj
    | some h =>
      simp only [hs] at hj
      unfold withHandlers fromStorage at hs
      by_cases hsel : j ∈ cfg.selected
      · have ho := hsub j hsel
        cases hP : P j with
        | none => simp [hsel, ho, hP] at hs; rw [← hs] at hj; simp [fresh] at hj
        | some r =>
          simp [hsel, ho, hP] at hs; rw [← hs] at hj; simp only at hj
          have := hp j ho r hP
          rw [this] at hj
          intro heq; subst heq; simp at hj
      · by_cases ho : j ∈ cfg.owned
        · cases hP : P j with
          | none => simp [hsel, ho, hP] at hs
          | some r =>
            simp [hsel, ho, hP] at hs; rw [← hs] at hj; simp only at hj
            have := hp j ho r hP
            rw [this] at hj
            intro heq; subst heq; simp at hj
        · simp [hsel, ho] at hs
  intro i ho r hP
  rw [hp i ho r hP]
  intro h; exact hpne (Option.some.inj h)

theorem preState_extras_selected {cfg : Cfg} {P : Store} {now : Tick} {i : Id} {r : Rec}
    (hex : extras cfg P now = true) (hs : i ∈ cfg.selected) (ho : i ∈ cfg.owned) (hP : P i = some r) :
    preState cfg P now i = some { r := { r with purpose := some cfg.reason }, active := true,
                                   dirty := r.purpose != some cfg.reason } := by
  unfold preState
  unfold extras at hex
  rw [if_pos hex]
  simp [repurpose, withHandlers, fromStorage, hs, ho, hP]

/-- A finished record of a *selected* handler survives every pass that leaves the cycle open —
    also when the reason changed and the records were re-purposed. -/
theorem finished_persists_selected (cfg : Cfg) (P : Store) (now now1 : Tick) (exec : Id → Nat → Outcome)
    (hsub : ∀ i ∈ cfg.selected, i ∈ cfg.owned) (hu : UniformOn cfg.owned P)
    (i : Id) (r : Rec) (hs : i ∈ cfg.selected) (hP : P i = some r) (hfin : r.finished = true)
    (hr : handlerReasons.contains cfg.reason = true)
    (hc : (cycle cfg P now now1 exec).closed = false) :
    ∃ r', (cycle cfg P now now1 exec).P' i = some r' ∧ r'.finished = true := by
  have ho := hsub i hs
  have he' : cfg.selected.isEmpty = false := by
    cases hl : cfg.selected with
    | nil => rw [hl] at hs; simp at hs
    | cons a as => simp
  rw [cycle_main cfg P now now1 exec hr he'] at hc ⊢
  simp only at hc
  simp only [hc, Bool.false_eq_true, if_false]
  by_cases hex : extras cfg P now = true
  · have hpre := preState_extras_selected (now := now) hex hs ho hP
    have hpost : postState cfg P now now1 exec i = preState cfg P now i := by
      unfold postState
      apply postState_unplanned
      intro hs' hst
      rw [hpre] at hst
      cases hst
      have hf2 : ({ r with purpose := some cfg.reason } : Rec).finished = true := by
        simpa [Rec.finished] using hfin
      simp [Rec.awakened, hf2]
    have hne := extras_purpose (now := now) hsub hu hex i ho r hP
    refine ⟨{ r with purpose := some cfg.reason }, ?_, by simpa [Rec.finished] using hfin⟩
    unfold store
    rw [hpost, hpre]
    have : (r.purpose != some cfg.reason) = true := by simpa using hne
    simp [this]
  · have hex' : extras cfg P now = false := by simpa using hex
    refine ⟨r, ?_, hfin⟩
    rw [midStore_noExtras hex']
    have hpre := preState_stored (now := now) hex' ho hP
    have hpost : postState cfg P now now1 exec i = preState cfg P now i := by
      unfold postState
      apply postState_unplanned
      intro hs' hst
      rw [hpre] at hst
      cases hst
      simp [Rec.awakened, hfin]
    rw [store_clean (h := { r := r, active := decide (i ∈ cfg.selected), dirty := false }) (by rw [hpost, hpre]) rfl]
    exact hP

/-- dirty states after execution are selected handlers' states -/
theorem postState_dirty_selected {cfg : Cfg} {P : Store} {now now1 : Tick} {exec : Id → Nat → Outcome}
    {i : Id} {h : HS} (ho : i ∈ cfg.owned) (hex : extras cfg P now = true)
    (hp : postState cfg P now now1 exec i = some h) (hd : h.dirty = true) :
    h.r.purpose = some cfg.reason := by
  obtain ⟨h0, hpre, hpur⟩ := execOnce_purpose (by unfold postState at hp; exact hp)
  rw [hpur]
  by_cases hs : i ∈ cfg.selected
  · cases hP : P i with
    | none =>
      unfold preState at hpre
      unfold extras at hex
      rw [if_pos hex] at hpre
      simp [repurpose, withHandlers, fromStorage, hs, ho, hP] at hpre
      rw [← hpre]
    | some r =>
      rw [preState_extras_selected hex hs ho hP] at hpre
      cases hpre; rfl
  · -- not selected: the state is clean before and never planned, so it cannot be dirty
    exfalso
    have hpre' : preState cfg P now i = some h0 := hpre
    have hclean : h0.dirty = false := by
      unfold preState at hpre'
      unfold extras at hex
      rw [if_pos hex] at hpre'
      simp only [repurpose, hs, if_false, withHandlers, fromStorage, ho, if_true] at hpre'
      cases hP : P i with
      | none => simp [hP] at hpre'
      | some r => simp [hP] at hpre'; rw [← hpre']
    have hsame : postState cfg P now now1 exec i = preState cfg P now i := by
      unfold postState
      simp only [execOnce]
      split
      · rename_i hpl
        have := plan_sub _ _ _ i hpl
        simp only [List.mem_filter] at this
        exact absurd this.1 hs
      · rfl
    rw [hsame, hpre'] at hp
    cases hp
    rw [hclean] at hd
    cases hd

/-- The one-purpose invariant is preserved by every pass. -/
theorem uniform_preserved (cfg : Cfg) (P : Store) (now now1 : Tick) (exec : Id → Nat → Outcome)
    (hsub : ∀ i ∈ cfg.selected, i ∈ cfg.owned) (hu : UniformOn cfg.owned P) :
    UniformOn cfg.owned (cycle cfg P now now1 exec).P' := by
  by_cases hr : handlerReasons.contains cfg.reason = true
  · by_cases hex : extras cfg P now = true
    · -- everything owned is purged; what is written back is re-purposed to the reason
      by_cases he : cfg.selected.isEmpty = true
      · rw [cycle_no_handlers cfg P now now1 exec hr he]
        refine ⟨cfg.reason, ?_⟩
        intro i ho r hP'
        simp [purge, ho] at hP'
      · have he' : cfg.selected.isEmpty = false := by simpa using he
        rw [cycle_main cfg P now now1 exec hr he']
        refine ⟨cfg.reason, ?_⟩
        intro i ho r hP'
        simp only at hP'
        by_cases hd : done (postState cfg P now now1 exec) (known cfg) = true
        · simp [hd, purge, ho] at hP'
        · simp only [hd, Bool.false_eq_true, if_false] at hP'
          unfold store at hP'
          cases hpost : postState cfg P now now1 exec i with
          | none =>
            simp only [hpost] at hP'
            exfalso
            have hPi := midStore_some hP'
            have hpre : ∃ h0, preState cfg P now i = some h0 := by
              unfold preState
              by_cases hs : i ∈ cfg.selected <;>
                by_cases hx : hasExtras (withHandlers (fromStorage P cfg.owned) cfg.selected cfg.reason now)
                    (known cfg) cfg.reason = true <;>
                simp [hx, repurpose, withHandlers, fromStorage, hs, ho, hPi]
            obtain ⟨h0, hp0⟩ := hpre
            obtain ⟨h1, hp1, _⟩ := postState_of_pre (now1 := now1) (exec := exec) hp0
            rw [hpost] at hp1
            cases hp1
          | some h =>
            simp only [hpost] at hP'
            by_cases hdirty : h.dirty = true
            · simp only [hdirty, if_true, Option.some.injEq] at hP'
              subst hP'
              exact postState_dirty_selected ho hex hpost hdirty
            · have hdirty' : h.dirty = false := by simpa using hdirty
              simp only [hdirty', Bool.false_eq_true, if_false] at hP'
              have hPi := midStore_some hP'
              have hne := extras_purpose (now := now) hsub hu hex i ho r hPi
              have hpost' := hpost
              unfold postState at hpost'
              obtain ⟨h0, hp0, _, heq⟩ := execOnce_st_some hpost'
              have h0eq := heq hdirty'
              subst h0eq
              by_cases hs : i ∈ cfg.selected
              · -- selected: it was re-purposed, hence dirty
                exfalso
                rw [preState_extras_selected hex hs ho hPi] at hp0
                cases hp0
                have : (r.purpose != some cfg.reason) = true := by simpa using hne
                simp [this] at hdirty'
              · -- not selected and not purged: it carries no other purpose; uniformity excludes `none`
                obtain ⟨p, hp⟩ := hu
                have hrp := hp i ho r hPi
                rcases midStore_unselected_purpose ho hs hP' with hn | hsome
                · rw [hrp] at hn; cases hn
                · exact hsome
    · have hex' : extras cfg P now = false := by simpa using hex
      -- no extras: every stored purpose already is the reason (or nothing is stored)
      have hne : NoExtras cfg P := by
        intro i ho r hP
        unfold extras hasExtras at hex'
        rw [List.any_eq_false] at hex'
        have hk : i ∈ known cfg := by simp [known, ho]
        have := hex' i hk
        have hst : ∃ h, withHandlers (fromStorage P cfg.owned) cfg.selected cfg.reason now i = some h ∧ h.r = r := by
          unfold withHandlers fromStorage
          by_cases hs : i ∈ cfg.selected <;> simp [hs, ho, hP]
        obtain ⟨h, hh, hr'⟩ := hst
        simp only [hh, hr'] at this
        cases hp : r.purpose with
        | none => exact Or.inl rfl
        | some q =>
          right
          simp [hp] at this
          rw [this]
      have hpres := noExtras_preserved cfg P now now1 exec hsub hne
      refine ⟨cfg.reason, ?_⟩
      intro i ho r hP'
      rcases hpres i ho r hP' with hnone | hsome
      · -- a purpose-less record can only be an untouched old one; uniformity of P rules it out
        exfalso
        obtain ⟨p, hp⟩ := hu
        -- P' i with purpose none: trace it back to P i
        by_cases he : cfg.selected.isEmpty = true
        · rw [cycle_no_handlers cfg P now now1 exec hr he] at hP'
          simp [purge, ho] at hP'
        · have he' : cfg.selected.isEmpty = false := by simpa using he
          rw [cycle_main cfg P now now1 exec hr he'] at hP'
          simp only at hP'
          by_cases hd : done (postState cfg P now now1 exec) (known cfg) = true
          · simp [hd, purge, ho] at hP'
          · simp only [hd, Bool.false_eq_true, if_false, midStore_noExtras hex'] at hP'
            unfold store at hP'
            cases hpost : postState cfg P now now1 exec i with
            | none => simp only [hpost] at hP'; have := hp i ho r hP'; rw [hnone] at this; cases this
            | some h =>
              simp only [hpost] at hP'
              by_cases hdirty : h.dirty = true
              · simp only [hdirty, if_true, Option.some.injEq] at hP'
                subst hP'
                obtain ⟨h0, hpre, hpur⟩ := execOnce_purpose (by unfold postState at hpost; exact hpost)
                rw [preState_noExtras hex'] at hpre
                unfold withHandlers fromStorage at hpre
                by_cases hs : i ∈ cfg.selected
                · cases hP : P i with
                  | none => simp [hs, ho, hP] at hpre; rw [hpur, ← hpre] at hnone; simp [fresh] at hnone
                  | some r0 =>
                    simp [hs, ho, hP] at hpre
                    rw [hpur, ← hpre] at hnone
                    have := hp i ho r0 hP; rw [hnone] at this; cases this
                · cases hP : P i with
                  | none => simp [hs, ho, hP] at hpre
                  | some r0 =>
                    simp [hs, ho, hP] at hpre
                    rw [hpur, ← hpre] at hnone
                    have := hp i ho r0 hP; rw [hnone] at this; cases this
              · simp only [hdirty, Bool.false_eq_true, if_false] at hP'
                have := hp i ho r hP'; rw [hnone] at this; cases this
      · exact hsome
  · have hr' : handlerReasons.contains cfg.reason = false := by simpa using hr
    rw [cycle_not_handler_reason cfg P now now1 exec hr']
    by_cases hn : (cfg.reason == "noop") = true
    · obtain ⟨p, _⟩ := hu
      refine ⟨p, ?_⟩
      intro i ho r hP'
      simp [hn, purge, ho] at hP'
    · simp only [hn, Bool.false_eq_true, if_false]
      exact hu

end Kopf.C02
