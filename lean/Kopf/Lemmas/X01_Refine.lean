/-
  X01 lemmas — the composed step on a FRESH view with nothing else in flight is C03's `loopStep`.
-/
import Kopf.Model.X01_Reactor
import Kopf.Lemmas.C03_Final
import Kopf.Lemmas.C07_Barrier
namespace Kopf.X01
open Kopf

variable {E : Type} [DecidableEq E]

/-- "Every event is delivered in time": the one event in flight (if any) shows the object as the server holds it,
    the worker expects nothing or exactly that version, nothing is carried. -/
def InTime (r : RState E) : Prop :=
  r.carried = .none ∧
  (r.queue = [] ∨ ∃ ev, r.queue = [ev] ∧ ev.ver = r.rv ∧ ev.snap = r.srv ∧
    (r.w = C07.WState.init ∨ r.w.expected = some ⟨r.rv, false⟩))

theorem finConflict_same (v : Nat) (b : Bool) : finConflict v v b = false := by
  simp [finConflict, C08.applyPayload]

theorem arrive_inTime {w : C07.WState} {v : Nat} (h : w = C07.WState.init ∨ w.expected = some ⟨v, false⟩) :
    C07.arrive w (some ⟨v, false⟩) = C07.WState.init := by
  rcases h with h | h
  · rw [h]; rfl
  · unfold C07.arrive; rw [h]; simp

/-- not held, nothing awaited, same version, nothing else in flight: C03's turn -/
theorem turnOf_fresh (env : C03.Env) (c : C03.Carried) (o : C07.Outcome) (v : Nat) (sv : C03.State E)
    (hh : o.held = false) : turnOf env c none o v v none sv = C03.loopStep env sv := by
  unfold turnOf
  simp only [hh, finConflict_same, Bool.and_false, Bool.false_eq_true, if_false]
  cases sleepEnd env { sv with now := o.left } <;> rfl

/-- a turn that leaves an event behind has not released the object -/
theorem pending_not_released (env : C03.Env) (s : C03.State E) (hp : (C03.loopStep env s).pending = true) :
    ((C03.loopStep env s).gone && !s.gone) = false := by
  rcases C03.loopStep_form env s with h | ⟨_, h⟩ | h | ⟨g, h⟩ | h | h | ⟨_, _, _, h⟩
  · rw [h]; cases s.gone <;> rfl
  · rw [h] at hp; cases hp
  · rw [h]; show (s.gone && !s.gone) = false; cases s.gone <;> rfl
  · rw [h] at hp ⊢
    have : g = false := by
      have : (!g) = true := hp
      cases g <;> simp_all
    subst this; rfl
  · rw [h] at hp ⊢
    have hf : env.foreignFins = true := hp
    show ((!env.foreignFins) && !s.gone) = false
    rw [hf]; rfl
  · rw [h, (C03.purgeTurn_fields env s).2.2.2.2.1]; cases s.gone <;> rfl
  · rw [h]; show (s.gone && !s.gone) = false; cases s.gone <;> rfl

/-- the write-back of a turn computed on the server's own state is that turn's object -/
theorem writeBack_fresh (env : C03.Env) (r : RState E) (t : Int) :
    let sv := viewOf r r.srv t
    let sv' := C03.loopStep env sv
    writeBack r.srv sv sv' = objOfS sv' := by
  intro sv sv'
  have he : sv'.ess = r.srv.ess := C03.loopStep_ess env sv
  have hm : sv'.marked = r.srv.marked := C03.loopStep_marked env sv
  have hg : r.srv.gone = true → sv'.gone = true := fun h => C03.gone_stays env sv h
  unfold writeBack objOfS
  rw [he, hm]
  congr 1
  · funext i
    show (if sv'.P i != r.srv.P i then sv'.P i else r.srv.P i) = sv'.P i
    by_cases h : sv'.P i = r.srv.P i <;> simp [h]
  · show (if sv'.base = r.srv.base then r.srv.base else sv'.base) = sv'.base
    by_cases h : sv'.base = r.srv.base <;> simp [h]
  · show (if sv'.blocked = r.srv.blocked then r.srv.blocked else sv'.blocked) = sv'.blocked
    by_cases h : sv'.blocked = r.srv.blocked <;> simp [h]
  · show (r.srv.gone || (sv'.gone && !r.srv.gone)) = sv'.gone
    cases h : r.srv.gone
    · simp
    · simp [hg h]

/-- GLUE 7 is about stale views only -/
theorem constStale_fresh (a b c d e : Bool) (v : Nat) : (a && decide (v ≠ v) && b && c && d && e) = false := by simp

theorem objOfS_viewOf (r : RState E) (o : Obj E) (t : Int) : objOfS (viewOf r o t) = o := rfl

/-- on a fresh view the write-back changes the server exactly when the turn changed its view: never a no-op -/
theorem echo_fresh (ids : List Id) (a b : Obj E) (p q : Bool) :
    (p && !(p && objDiffers ids a b && !objDiffers ids a b && q)) = p := by
  cases p <;> cases objDiffers ids a b <;> simp

theorem iter0_ver (env : C03.Env) (r : RState E) (ev : Ev E) (rest : List (Ev E)) (t0 : Int) :
    (iter0 env r ev rest t0).ver = some ⟨ev.ver, false⟩ := rfl

theorem iterOf_ver (it : C07.Iter) (p : Option C07.Ver) (t : Int) : (iterOf it p t).ver = it.ver := rfl
theorem iterOf_patched (it : C07.Iter) (p : Option C07.Ver) (t : Int) : (iterOf it p t).patched = p := rfl

theorem iter0_patchInit (env : C03.Env) (r : RState E) (ev : Ev E) (rest : List (Ev E)) (t0 : Int)
    (hc : r.carried = .none) : (iter0 env r ev rest t0).patchInit = true := by
  simp [C07.Iter.patchInit, iter0, hc]

theorem init_deadline : C07.WState.init.deadline = none := rfl

theorem work_fresh (T : Int) (env : C03.Env) (r : RState E) (ev : Ev E) (hc : r.carried = .none)
    (hw : r.w = C07.WState.init ∨ r.w.expected = some ⟨r.rv, false⟩)
    (hq : r.queue = [ev]) (hv : ev.ver = r.rv) (hs : ev.snap = r.srv) (t0 : Int)
    (ht0 : t0 = if r.clock < ev.at_ then ev.at_ else r.clock) (sv' : C03.State E)
    (hsv' : sv' = C03.loopStep env (viewOf r r.srv t0)) (tret : Int) (htret : tret = if sv'.now < t0 then t0 else sv'.now) :
    (work T env 0 r).srv = objOfS sv' ∧
    (work T env 0 r).queue = (if sv'.pending then [{ ver := r.rv + 1, snap := objOfS sv', at_ := tret, own := true }] else []) ∧
    (work T env 0 r).noticed = sv'.noticed ∧ (work T env 0 r).fullyHandled = sv'.fullyHandled ∧
    (work T env 0 r).resumed = sv'.resumed ∧ (work T env 0 r).carried = .none ∧
    (work T env 0 r).clock = tret ∧ (work T env 0 r).writes = sv'.writes ∧
    (sv'.pending = true → (work T env 0 r).rv = r.rv + 1 ∧
      ((work T env 0 r).w = C07.WState.init ∨ (work T env 0 r).w.expected = some ⟨r.rv + 1, false⟩)) := by
  subst ht0 hsv' htret
  have harr : C07.arrive r.w (some ⟨r.rv, false⟩) = C07.WState.init := arrive_inTime hw
  have hheld : (C07.process none (iter0 env r ev [] (if r.clock < ev.at_ then ev.at_ else r.clock))).held = false := by
    rw [(C07.process_none _).2.2, iter0_patchInit env r ev [] _ hc]; simp
  have hturn := turnOf_fresh env r.carried (C07.process none (iter0 env r ev [] (if r.clock < ev.at_ then ev.at_ else r.clock))) r.rv
    (viewOf r r.srv (if r.clock < ev.at_ then ev.at_ else r.clock)) hheld
  have hwb := writeBack_fresh env r (if r.clock < ev.at_ then ev.at_ else r.clock)
  simp only [work, turn, patchedOf, hq, iter0_ver, hs, hv, harr, init_deadline, List.head?_nil, Option.map_none, hturn, hwb,
    List.nil_append, List.getLast?_nil, Int.natCast_zero, Int.add_zero, Int.lt_irrefl, if_false, objOfS_viewOf, constStale_fresh, Bool.false_eq_true, Bool.or_false, echo_fresh]
  refine ⟨trivial, trivial, trivial, trivial, trivial, trivial, trivial, trivial, ?_⟩
  intro hp
  have hrel := pending_not_released env (viewOf r r.srv (if r.clock < ev.at_ then ev.at_ else r.clock)) hp
  simp only [hp, hrel, Bool.true_or, if_true, C07.stepEvent, iterOf_ver, iter0_ver, C07.feedback, iterOf_patched]
  refine ⟨trivial, ?_⟩
  rw [hv, harr]
  by_cases hT : T = 0
  · left; simp [hT]
  · right; simp [hT]

end Kopf.X01
