/-
  C04 — the exact-key / progress-prefix route for EVERY diff-base configuration (single storages and
  MultiDiffBaseStorage as of kopf 55b75e2): two runs on bodies that differ only at an own, unmarked
  annotation `k0` stay "paired" through all stages, and `k0` is gone from both once its storage cleaned.
-/
import Kopf.Lemmas.C04_OwnKey
set_option linter.unusedSimpArgs false
namespace Kopf.C04
open Kopf Kopf.J

/-! ### lists that agree off one key -/

def Gone (k0 : String) (a a' : Kvs) : Prop := k0 ∉ keys a ∧ k0 ∉ keys a'

theorem agreeKey_filtK {k0 : String} {a a' : Kvs} (f : String → Bool) (h : AgreeOffKey k0 a' a) :
    AgreeOffKey k0 (filtK f a') (filtK f a) := by
  unfold AgreeOffKey filtK at *
  rw [List.filter_filter, List.filter_filter]
  have e : ∀ l : Kvs, l.filter (fun kv => (kv.1 != k0) && f kv.1) = (l.filter (fun kv => kv.1 != k0)).filter (fun kv => f kv.1) := by
    intro l; rw [List.filter_filter]; congr 1; funext kv; exact Bool.and_comm _ _
  rw [e a', e a, h]

theorem notMem_filtK {k0 : String} {a : Kvs} (f : String → Bool) (h : k0 ∉ keys a) : k0 ∉ keys (filtK f a) :=
  fun hm => h (keys_filtK hm)

theorem notMem_filtK_false {k0 : String} (a : Kvs) {f : String → Bool} (h : f k0 = false) : k0 ∉ keys (filtK f a) := by
  intro hm
  simp only [keys, filtK, List.mem_map] at hm
  obtain ⟨kv, hkv, rfl⟩ := hm
  have := (List.mem_filter.1 hkv).2
  rw [h] at this; cases this

theorem filter_ne_self {k0 : String} {a : Kvs} (h : k0 ∉ keys a) : a.filter (fun kv => kv.1 != k0) = a := by
  apply List.filter_eq_self.2
  intro kv hkv
  apply bne_iff_ne.2
  intro e
  exact h (by simp only [keys, List.mem_map]; exact ⟨kv, hkv, e⟩)

theorem eq_of_gone {k0 : String} {a a' : Kvs} (h : AgreeOffKey k0 a' a) (hg : Gone k0 a a') : a' = a := by
  unfold AgreeOffKey at h
  rw [filter_ne_self hg.1, filter_ne_self hg.2] at h
  exact h

theorem leafAnn_pair {k0 : String} {a a' : Kvs} (ks : List String) (h : AgreeOffKey k0 a' a)
    (hmark : markedPrefix? k0 = none) : AgreeOffKey k0 (leafAnn ks a') (leafAnn ks a) := by
  unfold leafAnn
  have : keepA a' = keepA a := funext (keepA_congr_unmarked h hmark)
  rw [this]
  exact agreeKey_filtK _ (agreeKey_filtK _ h)

theorem keepA_pair {k0 : String} {a a' : Kvs} (h : AgreeOffKey k0 a' a) (hmark : markedPrefix? k0 = none) :
    AgreeOffKey k0 (filtK (keepA a') a') (filtK (keepA a) a) := by
  have : keepA a' = keepA a := funext (keepA_congr_unmarked h hmark)
  rw [this]
  exact agreeKey_filtK _ h

/-! ### `build` on two bodies that agree off `metadata` -/

theorem lookup_erase4 (kvs : Kvs) (k : String) :
    lookup k (erase4 kvs) = if k = "apiVersion" ∨ k = "kind" ∨ k = "metadata" ∨ k = "status" then none else lookup k kvs := by
  simp only [erase4]
  by_cases h4 : k = "status"
  · subst h4; simp [lookup_erase_same]
  · rw [lookup_erase_other _ h4]
    by_cases h3 : k = "metadata"
    · subst h3; simp [lookup_erase_same]
    · rw [lookup_erase_other _ h3]
      by_cases h2 : k = "kind"
      · subst h2; simp [lookup_erase_same]
      · rw [lookup_erase_other _ h2]
        by_cases h1 : k = "apiVersion"
        · subst h1; simp [lookup_erase_same]
        · rw [lookup_erase_other _ h1]; simp [h1, h2, h3, h4]

theorem resolveE_of_off {kvs kvs' : Kvs} (hoff : ∀ k, k ≠ "metadata" → lookup k kvs = lookup k kvs')
    {extra : List (List String)} (hx : ExtraAvoids "metadata" extra) :
    ∀ f, f ∈ extra → resolveE (.obj kvs) f = resolveE (.obj kvs') f := by
  intro f hf
  obtain ⟨k, ks, rfl, hk⟩ := hx f hf
  rw [resolveE_obj_cons, resolveE_obj_cons, hoff k hk]

theorem baseBuild_agree' {ig extra : List (List String)} {kvs kvs' : Kvs} {e e' : J}
    (hoff : ∀ k, k ≠ "metadata" → lookup k kvs = lookup k kvs')
    (hig : AvoidKey "metadata" ig) (hx : ExtraAvoids "metadata" extra)
    (h : baseBuild ig extra (.obj kvs) = .ok e) (h' : baseBuild ig extra (.obj kvs') = .ok e') : AgreeOff e e' := by
  have hr := resolveE_of_off hoff hx
  rw [baseBuild_eq] at h h'
  cases h1 : cherrypick (.obj kvs) (.obj (erase4 kvs)) [ML, MA] with
  | error er => rw [h1] at h; cases h
  | ok e1 =>
    cases h1' : cherrypick (.obj kvs') (.obj (erase4 kvs')) [ML, MA] with
    | error er => rw [h1'] at h'; cases h'
    | ok e1' =>
      rw [h1] at h; rw [h1'] at h'
      obtain ⟨o1, g1⟩ := picks_off h1 rfl
      obtain ⟨o1', g1'⟩ := picks_off h1' rfl
      obtain ⟨l1, rfl⟩ := isObj_obj o1
      obtain ⟨l1', rfl⟩ := isObj_obj o1'
      have a1 : AgreeOff (.obj l1) (.obj l1') := by
        refine ⟨rfl, rfl, fun k hk => ?_⟩
        rw [g1 k hk, g1' k hk]
        simp only [get?, lookup_erase4]
        split
        · rfl
        · exact hoff k hk
      simp only [tailBuild] at h h'
      split at h
      · cases h
      · split at h'
        · cases h'
        · have a2 : AgreeOff (stage2 (.obj l1)) (stage2 (.obj l1')) := by
            unfold stage2; exact filterAnnotations_agree _ _ a1
          cases h3 : cherrypickSkip (.obj kvs) (stage2 (.obj l1)) extra with
          | error er => rw [h3] at h; cases h
          | ok e3 =>
            cases h3' : cherrypickSkip (.obj kvs') (stage2 (.obj l1')) extra with
            | error er => rw [h3'] at h'; cases h'
            | ok e3' =>
              rw [h3] at h; rw [h3'] at h'
              simp only [] at h h'
              have a3 := cherrypickSkip_agree _ _ extra _ _ _ _ hx hr a2 h3 h3'
              obtain ⟨l3, rfl⟩ := isObj_obj a3.1
              obtain ⟨l3', rfl⟩ := isObj_obj a3.2.1
              split at h
              · cases h
              · split at h'
                · cases h'
                · exact ignoreFields_agree ig _ _ e e' hig (removeEmptyStanzas_agree a3) h h'

theorem leafBuild_agree {hs : Hashes} {extra : List (List String)} {kvs kvs' : Kvs} {e e' : J} (lf : DiffBaseLeaf)
    (hoff : ∀ k, k ≠ "metadata" → lookup k kvs = lookup k kvs')
    (hav : AvoidKey "metadata" (leafFields lf)) (hx : ExtraAvoids "metadata" extra)
    (h : leafBuild hs extra (.obj kvs) lf = .ok e) (h' : leafBuild hs extra (.obj kvs') lf = .ok e') : AgreeOff e e' := by
  cases lf with
  | annotations p key v1 ig =>
    simp only [leafBuild] at h h'
    obtain ⟨b1, hb1, h3⟩ := bind_ok h
    obtain ⟨mk1, _, h4⟩ := bind_ok h3
    obtain ⟨ks1, _, h5⟩ := bind_ok h4
    obtain ⟨b1', hb1', h3'⟩ := bind_ok h'
    obtain ⟨mk1', _, h4'⟩ := bind_ok h3'
    obtain ⟨ks1', _, h5'⟩ := bind_ok h4'
    have ab := baseBuild_agree' hoff hav hx hb1 hb1'
    obtain ⟨lb, rfl⟩ := isObj_obj ab.1
    obtain ⟨lb', rfl⟩ := isObj_obj ab.2.1
    cases hmo : metaOK (.obj lb) with
    | false => simp [hmo, throw, throwThe, MonadExceptOf.throw, bind, Except.bind] at h5
    | true =>
      cases hmo' : metaOK (.obj lb') with
      | false => simp [hmo', throw, throwThe, MonadExceptOf.throw, bind, Except.bind] at h5'
      | true =>
        simp [hmo, pure, Except.pure] at h5
        simp [hmo', pure, Except.pure] at h5'
        have af := filterAnnotations_agree (fun k => !ks1.contains k) (fun k => !ks1'.contains k) ab
        obtain ⟨lf1, hlf⟩ := isObj_obj af.1
        obtain ⟨lf1', hlf'⟩ := isObj_obj af.2.1
        rw [hlf, hlf'] at af
        have ar := removeEmptyStanzas_agree af
        have e1eq : e = removeEmptyStanzas (.obj lf1) := by rw [← hlf]; exact h5.symm
        have e1eq' : e' = removeEmptyStanzas (.obj lf1') := by rw [← hlf']; exact h5'.symm
        rw [e1eq, e1eq']; exact ar
  | status f ig =>
    simp only [leafBuild] at h h'
    obtain ⟨b1, hb1, h2⟩ := bind_ok h
    obtain ⟨b1', hb1', h2'⟩ := bind_ok h'
    have ab := baseBuild_agree' hoff (fun g hg => hav g (List.mem_cons_of_mem _ hg)) hx hb1 hb1'
    obtain ⟨hd, hhd, hne⟩ := hav f List.mem_cons_self
    exact ignoreFields_agree [f] b1 b1' e e' (avoidKey_one hhd hne) ab h2 h2'

/-! ### the key mark of the pseudo-body is the key mark of the real body -/

theorem isDRS_of {kvs : Kvs} {kd : J} (hk : lookup "kind" kvs = some kd) :
    (lookup "metadata" kvs = none → isDRS (.obj kvs) = drsOf (some kd) none) ∧
    (∀ m, lookup "metadata" kvs = some (.obj m) → isDRS (.obj kvs) = drsOf (some kd) (lookup "ownerReferences" m)) := by
  constructor
  · intro hm; simp only [isDRS, get?, hk, hm]
  · intro m hm; simp only [isDRS, get?, hk, hm]

theorem lookup_owner_N {l : Kvs} {L : Option J} {A : Option Kvs} (h : lookup "metadata" l = N L A) :
    lookup "metadata" l = none ∨ ∃ mm, lookup "metadata" l = some (.obj mm) ∧ lookup "ownerReferences" mm = none := by
  rw [h]
  unfold N
  cases L.filter (fun v => v.truthy) <;> cases A.filter (fun a => !a.isEmpty) <;> simp [mk, lookup_cons]

theorem isDRS_pseudo {kvs m l : Kvs} {kd : J} {L : Option J} {A : Option Kvs}
    (hk : lookup "kind" kvs = some kd) (hm : lookup "metadata" kvs = some (.obj m)) (hl : lookup "metadata" l = N L A) :
    isDRS (pseudoBody (.obj kvs) (.obj l)) = isDRS (.obj kvs) := by
  rw [(isDRS_of hk).2 m hm]
  have hkind : lookup "kind" (withOwners (.obj kvs) (withKind (.obj kvs) l)) = some kd := by
    rw [lookup_withOwners _ _ (by decide)]
    unfold withKind
    simp only [get?, hk, lookup_insert_same]
  have hor : ownerRefs (.obj kvs) = lookup "ownerReferences" m := by simp [ownerRefs, get?, hm]
  show isDRS (.obj (withOwners (.obj kvs) (withKind (.obj kvs) l))) = _
  cases ho : lookup "ownerReferences" m with
  | none =>
    have hw : withOwners (.obj kvs) (withKind (.obj kvs) l) = withKind (.obj kvs) l := by
      unfold withOwners; rw [hor, ho]
    rw [hw] at hkind ⊢
    have hmeta : lookup "metadata" (withKind (.obj kvs) l) = lookup "metadata" l := lookup_withKind _ _ (by decide)
    rcases lookup_owner_N hl with hn | ⟨mm, hmm, hno⟩
    · rw [(isDRS_of hkind).1 (hmeta.trans hn)]
    · rw [(isDRS_of hkind).2 mm (hmeta.trans hmm), hno]
  | some o =>
    have hmeta : lookup "metadata" (withOwners (.obj kvs) (withKind (.obj kvs) l)) =
        some (.obj (J.insert "ownerReferences" o (metaKvs (withKind (.obj kvs) l)))) := by
      unfold withOwners; rw [hor, ho]; exact lookup_insert_same _ _ _
    rw [(isDRS_of hkind).2 _ hmeta, lookup_insert_same]

/-! ### one leaf storage, two paired runs -/

theorem leaf_pair {hs : Hashes} {extra : List (List String)} {pk pk' a a' : Kvs} {L : Option J} {k0 : String} {e e' : J}
    (lf : DiffBaseLeaf) (hsrc : Src pk L (some a)) (hsrc' : Src pk' L (some a'))
    (hoff : ∀ k, k ≠ "metadata" → lookup k pk = lookup k pk') (hdrs : isDRS (.obj pk') = isDRS (.obj pk))
    (hd : AgreeOffKey k0 a' a) (hmark : markedPrefix? k0 = none)
    (hav : AvoidKey "metadata" (leafFields lf)) (hx : ExtraAvoids "metadata" extra)
    (h : leafBuild hs extra (.obj pk) lf = .ok e) (h' : leafBuild hs extra (.obj pk') lf = .ok e') :
    ∃ le le' b b', e = .obj le ∧ e' = .obj le' ∧ lookup "metadata" le = N L (some b) ∧
      lookup "metadata" le' = N L (some b') ∧ AgreeOffKey k0 b' b ∧ AgreeOff e e' ∧ (Gone k0 a a' → Gone k0 b b') ∧
      (∀ p key v1 ig mk ks, lf = .annotations p key v1 ig → markKey (.obj pk) key.toList = .ok mk →
        makeKeys hs v1 p.toList mk = .ok ks → k0 ∈ ks → Gone k0 b b') := by
  have hag := leafBuild_agree lf hoff hav hx h h'
  obtain ⟨o1, g1⟩ := leafBuild_meta lf hsrc hav hx h
  obtain ⟨o1', g1'⟩ := leafBuild_meta lf hsrc' hav hx h'
  obtain ⟨le, rfl⟩ := isObj_obj o1
  obtain ⟨le', rfl⟩ := isObj_obj o1'
  cases lf with
  | annotations p key v1 ig =>
    obtain ⟨mk, ks, hmk, hks, g⟩ := g1
    obtain ⟨mk', ks', hmk', hks', g'⟩ := g1'
    have hmkeq : markKey (.obj pk') key.toList = markKey (.obj pk) key.toList := by simp only [markKey, hdrs]
    rw [hmkeq, hmk] at hmk'; cases hmk'
    rw [hks] at hks'; cases hks'
    refine ⟨le, le', leafAnn ks a, leafAnn ks a', rfl, rfl, by simpa [get?] using g, by simpa [get?] using g',
      leafAnn_pair ks hd hmark, hag, ?_, ?_⟩
    · intro hg
      exact ⟨notMem_filtK _ (notMem_filtK _ hg.1), notMem_filtK _ (notMem_filtK _ hg.2)⟩
    · intro p2 key2 v12 ig2 mk2 ks2 heq hmk2 hks2 hin
      cases heq
      rw [hmk] at hmk2; cases hmk2
      rw [hks] at hks2; cases hks2
      have hf : notIn ks k0 = false := by simp [notIn, hin]
      exact ⟨notMem_filtK_false _ hf, notMem_filtK_false _ hf⟩
  | status f ig =>
    refine ⟨le, le', filtK (keepA a) a, filtK (keepA a') a', rfl, rfl, by simpa [get?] using g1, by simpa [get?] using g1',
      keepA_pair hd hmark, hag, ?_, ?_⟩
    · intro hg; exact ⟨notMem_filtK _ hg.1, notMem_filtK _ hg.2⟩
    · intro p2 key2 v12 ig2 mk2 ks2 heq; cases heq

/-! ### MultiDiffBaseStorage, progress clear, and the theorem -/

def HitIn (hs : Hashes) (orig : J) (k0 : String) (ls : List DiffBaseLeaf) : Prop :=
  ∃ p key v1 ig mk ks, DiffBaseLeaf.annotations p key v1 ig ∈ ls ∧ markKey orig key.toList = .ok mk ∧
    makeKeys hs v1 p.toList mk = .ok ks ∧ k0 ∈ ks

theorem pseudo_off {kvs l l' : Kvs} {kd : J} (hk : lookup "kind" kvs = some kd) (ha : AgreeOff (.obj l) (.obj l')) :
    ∀ k, k ≠ "metadata" → lookup k (withOwners (.obj kvs) (withKind (.obj kvs) l)) =
      lookup k (withOwners (.obj kvs) (withKind (.obj kvs) l')) := by
  intro k hkm
  rw [lookup_withOwners _ _ hkm, lookup_withOwners _ _ hkm]
  by_cases e : k = "kind"
  · subst e
    unfold withKind
    simp only [get?, hk, lookup_insert_same]
  · rw [lookup_withKind _ _ e, lookup_withKind _ _ e]
    simpa [get?] using ha.2.2 k hkm

theorem multi_pair {hs : Hashes} {extra : List (List String)} {kvs m : Kvs} {kd : J} {L : Option J} {k0 : String}
    (hk : lookup "kind" kvs = some kd) (hm : lookup "metadata" kvs = some (.obj m))
    (hmark : markedPrefix? k0 = none) (hx : ExtraAvoids "metadata" extra) :
    ∀ (ls : List DiffBaseLeaf) (l l' a a' : Kvs) (e e' : J),
      lookup "metadata" l = N L (some a) → lookup "metadata" l' = N L (some a') → AgreeOffKey k0 a' a →
      AgreeOff (.obj l) (.obj l') → (∀ lf, lf ∈ ls → AvoidKey "metadata" (leafFields lf)) →
      multiBuild hs extra (.obj kvs) (.obj l) ls = .ok e → multiBuild hs extra (.obj kvs) (.obj l') ls = .ok e' →
      ∃ le le' b b', e = .obj le ∧ e' = .obj le' ∧ lookup "metadata" le = N L (some b) ∧
        lookup "metadata" le' = N L (some b') ∧ AgreeOffKey k0 b' b ∧ AgreeOff e e' ∧ (Gone k0 a a' → Gone k0 b b') ∧
        (HitIn hs (.obj kvs) k0 ls → Gone k0 b b')
  | [], l, l', a, a', e, e', hl, hl', hd, hag, _, h, h' => by
    simp [multiBuild] at h h'; subst h; subst h'
    refine ⟨l, l', a, a', rfl, rfl, hl, hl', hd, hag, id, ?_⟩
    rintro ⟨p, key, v1, ig, mk, ks, hin, _⟩
    cases hin
  | lf :: ls, l, l', a, a', e, e', hl, hl', hd, hag, hav, h, h' => by
    simp only [multiBuild] at h h'
    obtain ⟨e1, h1, h2⟩ := bind_ok h
    obtain ⟨e1', h1', h2'⟩ := bind_ok h'
    have hp1 : leafBuild hs extra (.obj (withOwners (.obj kvs) (withKind (.obj kvs) l))) lf = .ok e1 := h1
    have hp1' : leafBuild hs extra (.obj (withOwners (.obj kvs) (withKind (.obj kvs) l'))) lf = .ok e1' := h1'
    have hdrs : isDRS (.obj (withOwners (.obj kvs) (withKind (.obj kvs) l'))) =
        isDRS (.obj (withOwners (.obj kvs) (withKind (.obj kvs) l))) := by
      have e1 := isDRS_pseudo hk hm hl
      have e2 := isDRS_pseudo hk hm hl'
      simp only [pseudoBody] at e1 e2
      rw [e1, e2]
    obtain ⟨le, le', b, b', rfl, rfl, hlb, hlb', hdb, hagb, hgone, hhit⟩ :=
      leaf_pair lf (src_pseudo (.obj kvs) hl) (src_pseudo (.obj kvs) hl') (pseudo_off hk hag) hdrs hd hmark
        (hav lf List.mem_cons_self) hx hp1 hp1'
    obtain ⟨lz, lz', c, c', rfl, rfl, hlc, hlc', hdc, hagc, hgone2, hhit2⟩ :=
      multi_pair hk hm hmark hx ls le le' b b' e e' hlb hlb' hdb hagb
        (fun x hx' => hav x (List.mem_cons_of_mem _ hx')) h2 h2'
    refine ⟨lz, lz', c, c', rfl, rfl, hlc, hlc', hdc, hagc, fun hg => hgone2 (hgone hg), ?_⟩
    rintro ⟨p, key, v1, ig, mk, ks, hin, hmk, hks, hk0⟩
    rcases List.mem_cons.1 hin with heq | htail
    · have hmk' : markKey (.obj (withOwners (.obj kvs) (withKind (.obj kvs) l))) key.toList = .ok mk := by
        have e1 := isDRS_pseudo hk hm hl
        simp only [pseudoBody] at e1
        simp only [markKey, e1]
        simpa [markKey] using hmk
      exact hgone2 (hhit p key v1 ig mk ks heq.symm hmk' hks hk0)
    · exact hhit2 ⟨p, key, v1, ig, mk, ks, htail, hmk, hks, hk0⟩

theorem progress_pair {L : Option J} {k0 : String} {pc : ProgressCfg} {l l' a a' : Kvs} {e e' : J}
    (hl : lookup "metadata" l = N L (some a)) (hl' : lookup "metadata" l' = N L (some a'))
    (hd : AgreeOffKey k0 a' a) (hag : AgreeOff (.obj l) (.obj l')) (hav : AvoidKey "metadata" (progressFields pc))
    (h : progressClear (.obj l) pc = .ok e) (h' : progressClear (.obj l') pc = .ok e') :
    ∃ b b', e.get? "metadata" = N L (some b) ∧ e'.get? "metadata" = N L (some b') ∧ AgreeOffKey k0 b' b ∧
      AgreeOff e e' ∧ (Gone k0 a a' → Gone k0 b b') ∧ (progOK pc k0 = false → Gone k0 b b') :=
  ⟨filtK (progOK pc) a, filtK (progOK pc) a', progress_meta pc l _ e hl hav h, progress_meta pc l' _ e' hl' hav h',
    agreeKey_filtK _ hd, progressClear_agree pc _ _ e e' hav hag h h',
    fun hg => ⟨notMem_filtK _ hg.1, notMem_filtK _ hg.2⟩,
    fun hf => ⟨notMem_filtK_false _ hf, notMem_filtK_false _ hf⟩⟩

/-- **own key under an unmarked prefix, every diff-base configuration**. -/
theorem own_key_unmarked_general {cfg : Cfg} {extra : List (List String)} {kvs m A A' : Kvs} {k0 : String} {kd : J}
    {e e' : J} (hplain : MetaPlain cfg extra)
    (hk : lookup "kind" kvs = some kd) (hm : lookup "metadata" kvs = some (.obj m))
    (ha : lookup "annotations" m = some (.obj A)) (hd : AgreeOffKey k0 A' A) (hmark : markedPrefix? k0 = none)
    (hown : OwnKeyOf cfg (.obj kvs) k0)
    (hw : wf (.obj kvs) = true) (hw' : wf (.obj (withAnn kvs m A')) = true)
    (h : essence cfg extra (.obj kvs) = .ok e) (h' : essence cfg extra (.obj (withAnn kvs m A')) = .ok e') :
    diff e e' [] = [] := by
  obtain ⟨hdf, hpf, hx⟩ := hplain
  have hwe := wf_essence hw h
  have hwe' := wf_essence hw' h'
  simp only [essence] at h h'
  obtain ⟨e1, h1, h2⟩ := bind_ok h
  obtain ⟨e1', h1', h2'⟩ := bind_ok h'
  have hoffB : ∀ k, k ≠ "metadata" → lookup k kvs = lookup k (withAnn kvs m A') := by
    intro k hkm; unfold withAnn; exact (lookup_insert_other _ kvs hkm).symm
  have hsrc : Src kvs (bodyLabels kvs) (some A) := by
    have := src_body kvs; rwa [bodyAnn_of hm ha] at this
  have hsrc' : Src (withAnn kvs m A') (bodyLabels kvs) (some A') := by
    have := src_body (withAnn kvs m A'); rwa [bodyLabels_withAnn hm, bodyAnn_withAnn] at this
  -- stage 1: the diff-base storage(s)
  have stage1 : ∃ le le' b b', e1 = .obj le ∧ e1' = .obj le' ∧ lookup "metadata" le = N (bodyLabels kvs) (some b) ∧
      lookup "metadata" le' = N (bodyLabels kvs) (some b') ∧ AgreeOffKey k0 b' b ∧ AgreeOff e1 e1' ∧
      ((∃ p key v1 ig mk ks, DiffBaseLeaf.annotations p key v1 ig ∈ diffbaseLeaves cfg.diffbase ∧
        markKey (.obj kvs) key.toList = .ok mk ∧ makeKeys cfg.hashes v1 p.toList mk = .ok ks ∧ k0 ∈ ks) → Gone k0 b b') := by
    cases hdb : cfg.diffbase with
    | leaf lf =>
      rw [hdb] at h1 h1' hdf
      simp only [diffbaseBuild] at h1 h1'
      obtain ⟨le, le', b, b', r1, r2, g, g', hdb2, hag, _, hhit⟩ :=
        leaf_pair lf hsrc hsrc' hoffB (isDRS_withAnn hm) hd hmark hdf hx h1 h1'
      refine ⟨le, le', b, b', r1, r2, g, g', hdb2, hag, ?_⟩
      rintro ⟨p, key, v1, ig, mk, ks, hin, hmk, hks, hk0⟩
      simp only [diffbaseLeaves, List.mem_singleton] at hin
      exact hhit p key v1 ig mk ks hin.symm hmk hks hk0
    | multi ls =>
      rw [hdb] at h1 h1' hdf
      simp only [diffbaseBuild] at h1 h1'
      obtain ⟨e0, hb0, h3⟩ := bind_ok h1
      obtain ⟨e0', hb0', h3'⟩ := bind_ok h1'
      rw [multiBuild_withAnn _ _ hm] at h3'
      have g0 := hsrc [] extra e0 (fun _ hf => by cases hf) hx hb0
      have g0' := hsrc' [] extra e0' (fun _ hf => by cases hf) hx hb0'
      have ag0 := baseBuild_agree' hoffB (fun _ hf => by cases hf) hx hb0 hb0'
      obtain ⟨l0, rfl⟩ := isObj_obj ag0.1
      obtain ⟨l0', rfl⟩ := isObj_obj ag0.2.1
      obtain ⟨le, le', b, b', r1, r2, g, g', hdb2, hag, _, hhit⟩ :=
        multi_pair hk hm hmark hx ls l0 l0' _ _ e1 e1' (by simpa [get?] using g0) (by simpa [get?] using g0')
          (keepA_pair hd hmark) ag0 (fun lf hlf f hf => hdf f (List.mem_flatMap.2 ⟨lf, hlf, hf⟩)) h3 h3'
      refine ⟨le, le', b, b', r1, r2, g, g', hdb2, hag, ?_⟩
      rintro ⟨p, key, v1, ig, mk, ks, hin, hmk, hks, hk0⟩
      exact hhit ⟨p, key, v1, ig, mk, ks, hin, hmk, hks, hk0⟩
  obtain ⟨le, le', b, b', rfl, rfl, g, g', hdb2, hag, hhit⟩ := stage1
  -- stage 2: progress clear
  obtain ⟨c, c', gm, gm', hdc, hagc, hgone, hphit⟩ := progress_pair g g' hdb2 hag hpf h2 h2'
  have hG : Gone k0 c c' := by
    rcases hown with hd1 | ⟨q, hq, hu⟩
    · exact hgone (hhit hd1)
    · exact hphit (progOK_false_of_under _ _ _ hq hu)
  have hcc : c' = c := eq_of_gone hdc hG
  obtain ⟨lz, rfl⟩ := isObj_obj hagc.1
  obtain ⟨lz', rfl⟩ := isObj_obj hagc.2.1
  have hall : ∀ k, lookup k lz = lookup k lz' := by
    intro k
    by_cases hkm : k = "metadata"
    · subst hkm
      have : (J.obj lz).get? "metadata" = (J.obj lz').get? "metadata" := by rw [gm, gm', hcc]
      simpa [get?] using this
    · simpa [get?] using hagc.2.2 k hkm
  exact (diff_nil_iff _ _ [] hwe hwe').2 (eqv_of_lookup_eq (by simpa [wf] using hwe) (by simpa [wf] using hwe') hall)

end Kopf.C04
