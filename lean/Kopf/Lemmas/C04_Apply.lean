/-
  C04 — applying `diff a b` to `a` yields `b` (up to `≈`).
  Method: per-key bookkeeping. Applying items to an object only touches the key at the head of the
  item's path (`stepOpt`), so the final lookup of a key is the fold of the items under that key.
-/
import Kopf.Lemmas.C04_Reduce
namespace Kopf.C04
open Kopf Kopf.J

/-! ### insert / erase -/

theorem lookup_insert_same (k : String) (v : J) (l : Kvs) : lookup k (J.insert k v l) = some v := by
  induction l with
  | nil => simp [J.insert, lookup_cons]
  | cons kv l ih =>
    obtain ⟨k2, v2⟩ := kv
    by_cases h : k2 = k
    · simp [J.insert, h, lookup_cons]
    · simp [J.insert, h, lookup_cons, ih]

theorem lookup_insert_other {k k' : String} (v : J) (l : Kvs) (hne : k' ≠ k) :
    lookup k' (J.insert k v l) = lookup k' l := by
  induction l with
  | nil => simp [J.insert, lookup_cons, Ne.symm hne]
  | cons kv l ih =>
    obtain ⟨k2, v2⟩ := kv
    by_cases h : k2 = k
    · subst h; simp [J.insert, lookup_cons, Ne.symm hne]
    · by_cases h2 : k2 = k'
      · subst h2; simp [J.insert, h, lookup_cons]
      · simp [J.insert, h, lookup_cons, h2, ih]

theorem hasKey_iff_lookup (k : String) (l : Kvs) : hasKey k l = true ↔ (lookup k l).isSome = true := by
  cases hl : lookup k l with
  | none => simp [(lookup_none_iff k l).1 hl]
  | some v => simp [lookup_some_hasKey hl]

theorem hasKey_insert_other {k k' : String} (v : J) (l : Kvs) (hne : k' ≠ k) :
    hasKey k' (J.insert k v l) = hasKey k' l := by
  have h1 := hasKey_iff_lookup k' (J.insert k v l)
  have h2 := hasKey_iff_lookup k' l
  rw [lookup_insert_other v l hne] at h1
  cases ha : hasKey k' (J.insert k v l) <;> cases hb : hasKey k' l <;> simp_all

theorem nodupKeys_insert (k : String) (v : J) {l : Kvs} (h : nodupKeys l = true) :
    nodupKeys (J.insert k v l) = true := by
  induction l with
  | nil => simp [J.insert, nodupKeys]
  | cons kv l ih =>
    obtain ⟨k2, v2⟩ := kv
    simp [nodupKeys] at h
    by_cases hk : k2 = k
    · subst hk; simp [J.insert, nodupKeys, h.1, h.2]
    · simp [J.insert, hk, nodupKeys, ih h.2, hasKey_insert_other v l hk, h.1]

theorem lookup_erase_same (k : String) (l : Kvs) : lookup k (erase k l) = none := by
  rw [lookup_none_iff]
  cases h : hasKey k (erase k l) with
  | false => rfl
  | true => exact absurd rfl ((hasKey_erase k k l).1 h).2

theorem lookup_erase_other {k k' : String} (l : Kvs) (hne : k' ≠ k) : lookup k' (erase k l) = lookup k' l := by
  induction l with
  | nil => simp [erase]
  | cons kv l ih =>
    obtain ⟨k2, v2⟩ := kv
    by_cases h : k2 = k
    · subst h; simp [erase, lookup_cons, Ne.symm hne, ih]
    · by_cases h2 : k2 = k'
      · subst h2; simp [erase, h, lookup_cons]
      · simp [erase, h, lookup_cons, h2, ih]

theorem wfKvs_iff (l : Kvs) : wfKvs l = true ↔ nodupKeys l = true ∧ ∀ k v, lookup k l = some v → wf v = true := by
  induction l with
  | nil => simp [wfKvs, nodupKeys]
  | cons kv l ih =>
    obtain ⟨k2, v2⟩ := kv
    rw [wfKvs_cons, ih]
    simp only [nodupKeys, Bool.and_eq_true, Bool.not_eq_true']
    constructor
    · rintro ⟨h1, h2, h3, h4⟩
      refine ⟨⟨h1, h3⟩, ?_⟩
      intro k v hl
      by_cases hk : k2 = k
      · simp [lookup_cons, hk] at hl; subst hl; exact h2
      · simp [lookup_cons, hk] at hl; exact h4 k v hl
    · rintro ⟨⟨h1, h3⟩, h4⟩
      refine ⟨h1, h4 k2 v2 (by simp [lookup_cons]), h3, ?_⟩
      intro k v hl
      have hk : k2 ≠ k := by
        intro e; subst e
        rw [lookup_some_hasKey hl] at h1; cases h1
      exact h4 k v (by simp [lookup_cons, hk, hl])

/-! ### what one item does to one key of an object -/

def stepOpt (o : Option J) (it : Item) : Option J :=
  match it.path with
  | [] => o
  | _ :: q =>
    match it.op with
    | .remove =>
      (match q with
       | [] => none
       | _ :: _ => o.map (fun c => delPath c q))
    | _ => some (setPath (o.getD (.obj [])) q it.new)

def headIs (k : String) (it : Item) : Bool := it.path.head? == some k

theorem applyItem_obj (kvs : Kvs) (it : Item) (k0 : String) (q : Path) (hp : it.path = k0 :: q)
    (hn : nodupKeys kvs = true) :
    ∃ kvs1, applyItem (.obj kvs) it = .obj kvs1 ∧ nodupKeys kvs1 = true ∧
      lookup k0 kvs1 = stepOpt (lookup k0 kvs) it ∧ ∀ k, k ≠ k0 → lookup k kvs1 = lookup k kvs := by
  obtain ⟨op, path, o, n⟩ := it
  simp only at hp
  subst hp
  cases op with
  | remove =>
    cases q with
    | nil =>
      refine ⟨erase k0 kvs, by simp [applyItem, delPath], nodupKeys_erase k0 hn, ?_, ?_⟩
      · simp [stepOpt, lookup_erase_same]
      · intro k hk; exact lookup_erase_other kvs hk
    | cons k2 ks =>
      cases hl : lookup k0 kvs with
      | none =>
        refine ⟨kvs, by simp [applyItem, delPath, hl], hn, ?_, fun _ _ => rfl⟩
        simp [stepOpt, hl]
      | some c =>
        refine ⟨J.insert k0 (delPath c (k2 :: ks)) kvs, by simp [applyItem, delPath, hl], nodupKeys_insert _ _ hn, ?_, ?_⟩
        · simp [stepOpt, lookup_insert_same]
        · intro k hk; exact lookup_insert_other _ kvs hk
  | add =>
    refine ⟨J.insert k0 (setPath ((lookup k0 kvs).getD (.obj [])) q n) kvs, by simp [applyItem, setPath],
      nodupKeys_insert _ _ hn, ?_, ?_⟩
    · simp [stepOpt, lookup_insert_same]
    · intro k hk; exact lookup_insert_other _ kvs hk
  | change =>
    refine ⟨J.insert k0 (setPath ((lookup k0 kvs).getD (.obj [])) q n) kvs, by simp [applyItem, setPath],
      nodupKeys_insert _ _ hn, ?_, ?_⟩
    · simp [stepOpt, lookup_insert_same]
    · intro k hk; exact lookup_insert_other _ kvs hk

/-- applying a list of items (all with non-empty paths) to an object, key by key. -/
theorem foldl_applyItem_obj : ∀ (d : List Item) (kvs : Kvs), (∀ it, it ∈ d → it.path ≠ []) →
    nodupKeys kvs = true →
    ∃ kvs', d.foldl applyItem (.obj kvs) = .obj kvs' ∧ nodupKeys kvs' = true ∧
      ∀ k, lookup k kvs' = (d.filter (headIs k)).foldl stepOpt (lookup k kvs)
  | [], kvs, _, hn => ⟨kvs, rfl, hn, fun _ => rfl⟩
  | it :: d, kvs, hp, hn => by
    have hne := hp it List.mem_cons_self
    cases hpath : it.path with
    | nil => exact absurd hpath hne
    | cons k0 q =>
      obtain ⟨kvs1, h1, hn1, hk0, hother⟩ := applyItem_obj kvs it k0 q hpath hn
      obtain ⟨kvs', h2, hn2, hl2⟩ := foldl_applyItem_obj d kvs1 (fun i hi => hp i (List.mem_cons_of_mem _ hi)) hn1
      refine ⟨kvs', by simp [List.foldl_cons, h1, h2], hn2, ?_⟩
      intro k
      rw [hl2 k]
      by_cases hk : k = k0
      · subst hk
        have : headIs k it = true := by simp [headIs, hpath]
        simp [this, hk0]
      · have : headIs k it = false := by simp [headIs, hpath, Ne.symm hk]
        simp [this, hother k hk]

/-! ### the items under one key, for the three groups of an object diff -/

theorem filter_addItem_same (k : String) (y : J) : (addItem [k] y).filter (headIs k) = addItem [k] y := by
  cases y <;> simp [addItem, headIs]

theorem filter_addItem_other {k k0 : String} (y : J) (h : k0 ≠ k) : (addItem [k0] y).filter (headIs k) = [] := by
  cases y <;> simp [addItem, headIs, h]

theorem filter_removeItem_same (k : String) (x : J) : (removeItem [k] x).filter (headIs k) = removeItem [k] x := by
  cases x <;> simp [removeItem, headIs]

theorem filter_removeItem_other {k k0 : String} (x : J) (h : k0 ≠ k) : (removeItem [k0] x).filter (headIs k) = [] := by
  cases x <;> simp [removeItem, headIs, h]

theorem filter_map_pre_same (k : String) (d : List Item) : (d.map (pre [k])).filter (headIs k) = d.map (pre [k]) := by
  induction d with
  | nil => rfl
  | cons it d ih => simp [headIs, pre, ih]

theorem filter_map_pre_other {k k0 : String} (d : List Item) (h : k0 ≠ k) : (d.map (pre [k0])).filter (headIs k) = [] := by
  induction d with
  | nil => rfl
  | cons it d ih => simp [headIs, pre, ih, h]

theorem filter_added (ka : Kvs) (k : String) : ∀ (kb : Kvs), nodupKeys kb = true →
    (diffAdded ka kb []).filter (headIs k) =
      match lookup k ka, lookup k kb with
      | none, some y => addItem [k] y
      | _, _ => []
  | [], _ => by cases lookup k ka <;> simp [diffAdded]
  | (k0, y0) :: kb, hn => by
    simp [nodupKeys] at hn
    have ih := filter_added ka k kb hn.2
    simp only [diffAdded, List.nil_append, List.filter_append]
    by_cases hk : k0 = k
    · subst hk
      have hnone : lookup k0 kb = none := (lookup_none_iff k0 kb).2 hn.1
      rw [hnone] at ih
      have ih' : (diffAdded ka kb []).filter (headIs k0) = [] := by
        rw [ih]; cases lookup k0 ka <;> rfl
      rw [ih', List.append_nil]
      simp only [lookup_cons, if_true]
      cases hla : lookup k0 ka with
      | some _ => simp
      | none => simp only []; rw [filter_addItem_same]
    · simp only [lookup_cons, if_neg hk]
      rw [ih]
      cases hl0 : lookup k0 ka with
      | some _ => simp only [List.filter_nil, List.nil_append]
      | none => simp only []; rw [filter_addItem_other _ hk, List.nil_append]

theorem filter_removed (kb : Kvs) (k : String) : ∀ (ka : Kvs), nodupKeys ka = true →
    (diffRemoved ka kb []).filter (headIs k) =
      match lookup k ka, lookup k kb with
      | some x, none => removeItem [k] x
      | _, _ => []
  | [], _ => by simp [diffRemoved]
  | (k0, x0) :: ka, hn => by
    simp [nodupKeys] at hn
    have ih := filter_removed kb k ka hn.2
    simp only [diffRemoved, List.nil_append, List.filter_append]
    by_cases hk : k0 = k
    · subst hk
      have hnone : lookup k0 ka = none := (lookup_none_iff k0 ka).2 hn.1
      rw [hnone] at ih
      rw [ih, List.append_nil]
      simp only [lookup_cons, if_true]
      cases hlb : lookup k0 kb with
      | some _ => simp
      | none => simp only []; rw [filter_removeItem_same]
    · simp only [lookup_cons, if_neg hk]
      rw [ih]
      cases hl0 : lookup k0 kb with
      | some _ => simp only [List.filter_nil, List.nil_append]
      | none => simp only []; rw [filter_removeItem_other _ hk, List.nil_append]

theorem filter_common (kb : Kvs) (k : String) : ∀ (ka : Kvs), nodupKeys ka = true →
    (diffCommon ka kb []).filter (headIs k) =
      match lookup k ka, lookup k kb with
      | some x, some y => (diff x y []).map (pre [k])
      | _, _ => []
  | [], _ => by simp [diffCommon]
  | (k0, x0) :: ka, hn => by
    simp [nodupKeys] at hn
    have ih := filter_common kb k ka hn.2
    simp only [diffCommon, List.nil_append, List.filter_append]
    by_cases hk : k0 = k
    · subst hk
      have hnone : lookup k0 ka = none := (lookup_none_iff k0 ka).2 hn.1
      rw [hnone] at ih
      rw [ih, List.append_nil]
      simp only [lookup_cons, if_true]
      cases hlb : lookup k0 kb with
      | none => simp
      | some y => simp only []; rw [diff_pre x0 y [k0], filter_map_pre_same]
    · simp only [lookup_cons, if_neg hk]
      rw [ih]
      cases hl0 : lookup k0 kb with
      | none => simp only [List.filter_nil, List.nil_append]
      | some y => simp only []; rw [diff_pre x0 y [k0], filter_map_pre_other _ hk, List.nil_append]

/-! ### all items of an object diff have a non-empty path -/

theorem path_ne_addItem {k : String} {y : J} {it : Item} (h : it ∈ addItem [k] y) : it.path ≠ [] := by
  cases y <;> simp [addItem] at h <;> subst h <;> simp

theorem path_ne_removeItem {k : String} {x : J} {it : Item} (h : it ∈ removeItem [k] x) : it.path ≠ [] := by
  cases x <;> simp [removeItem] at h <;> subst h <;> simp

theorem path_ne_added (ka : Kvs) : ∀ (kb : Kvs) (it : Item), it ∈ diffAdded ka kb [] → it.path ≠ []
  | [], it, h => by simp [diffAdded] at h
  | (k0, y0) :: kb, it, h => by
    simp only [diffAdded, List.nil_append, List.mem_append] at h
    rcases h with h | h
    · cases hl : lookup k0 ka with
      | some _ => rw [hl] at h; simp at h
      | none => rw [hl] at h; exact path_ne_addItem h
    · exact path_ne_added ka kb it h

theorem path_ne_removed (kb : Kvs) : ∀ (ka : Kvs) (it : Item), it ∈ diffRemoved ka kb [] → it.path ≠ []
  | [], it, h => by simp [diffRemoved] at h
  | (k0, x0) :: ka, it, h => by
    simp only [diffRemoved, List.nil_append, List.mem_append] at h
    rcases h with h | h
    · cases hl : lookup k0 kb with
      | some _ => rw [hl] at h; simp at h
      | none => rw [hl] at h; exact path_ne_removeItem h
    · exact path_ne_removed kb ka it h

theorem path_ne_common (kb : Kvs) : ∀ (ka : Kvs) (it : Item), it ∈ diffCommon ka kb [] → it.path ≠ []
  | [], it, h => by simp [diffCommon] at h
  | (k0, x0) :: ka, it, h => by
    simp only [diffCommon, List.nil_append, List.mem_append] at h
    rcases h with h | h
    · cases hl : lookup k0 kb with
      | none => rw [hl] at h; simp at h
      | some y =>
        rw [hl] at h
        simp only [] at h
        rw [diff_pre x0 y [k0]] at h
        obtain ⟨it', _, rfl⟩ := List.mem_map.1 h
        simp [pre]
    · exact path_ne_common kb ka it h

/-! ### items below a key act on the value of that key -/

/-- the state of a key (`none`: erased) stands for a child value (`null` when erased). -/
def optVal (o : Option J) (c : J) : Prop := o = some c ∨ (o = none ∧ c = .null)

theorem setPath_null_eq (q : Path) (v : J) : q ≠ [] → setPath .null q v = setPath (.obj []) q v := by
  intro h
  cases q with
  | nil => exact absurd rfl h
  | cons k ks => simp [setPath, J.insert]

theorem stepOpt_pre (k : String) (o : Option J) (c : J) (it : Item) (h : optVal o c) :
    optVal (stepOpt o (pre [k] it)) (applyItem c it) := by
  obtain ⟨op, q, old, new⟩ := it
  cases op with
  | remove =>
    cases q with
    | nil => right; simp [stepOpt, pre, applyItem, delPath]
    | cons k2 ks =>
      rcases h with h | ⟨h1, h2⟩
      · left; subst h; simp [stepOpt, pre, applyItem]
      · right; subst h1; subst h2; simp [stepOpt, pre, applyItem, delPath]
  | add =>
    left
    rcases h with h | ⟨h1, h2⟩
    · subst h; simp [stepOpt, pre, applyItem]
    · subst h1; subst h2
      cases q with
      | nil => simp [stepOpt, pre, applyItem, setPath]
      | cons k2 ks => simp [stepOpt, pre, applyItem, setPath_null_eq]
  | change =>
    left
    rcases h with h | ⟨h1, h2⟩
    · subst h; simp [stepOpt, pre, applyItem]
    · subst h1; subst h2
      cases q with
      | nil => simp [stepOpt, pre, applyItem, setPath]
      | cons k2 ks => simp [stepOpt, pre, applyItem, setPath_null_eq]

theorem foldl_stepOpt_pre (k : String) : ∀ (d : List Item) (o : Option J) (c : J), optVal o c →
    optVal ((d.map (pre [k])).foldl stepOpt o) (d.foldl applyItem c)
  | [], _, _, h => h
  | it :: d, o, c, h => by
    simp only [List.map_cons, List.foldl_cons]
    exact foldl_stepOpt_pre k d _ _ (stepOpt_pre k o c it h)

/-! ### the theorem -/

/-- the state of a key up to `≈`: erased ≡ `null`. -/
def oeqv (oa ob : Option J) : Prop := optRel same (dnOpt oa) (dnOpt ob)

theorem eqv_obj_iff {ka kb : Kvs} (hwa : wfKvs ka = true) (hwb : wfKvs kb = true) :
    same (dropNulls (.obj ka)) (dropNulls (.obj kb)) = true ↔ ∀ k, oeqv (lookup k ka) (lookup k kb) := by
  rw [dropNulls_obj, dropNulls_obj, pyEq_obj_iff (wfKvs_dropNulls hwa) (wfKvs_dropNulls hwb)]
  simp only [lookup_dropNulls _ (nodupKeys_of_wf hwa), lookup_dropNulls _ (nodupKeys_of_wf hwb), oeqv]

theorem eqv_refl (a : J) (h : wf a = true) : same (dropNulls a) (dropNulls a) = true :=
  pyEq_refl _ (wf_dropNulls a h)

theorem diffLeaf_cases {a b : J} (p : Path) (h : same a b = false) :
    (diffLeaf a b p = [⟨.remove, p, a, b⟩] ∧ b = .null) ∨
    (diffLeaf a b p = [⟨.add, p, a, b⟩]) ∨ (diffLeaf a b p = [⟨.change, p, a, b⟩]) := by
  unfold diffLeaf
  simp only [h, Bool.false_eq_true, if_false]
  cases a <;> cases b <;> simp [same] at h ⊢

theorem apply_leaf {a b : J} (hwa : wf a = true) (hwb : wf b = true) :
    wf (applyDiff (diffLeaf a b []) a) = true ∧
    same (dropNulls (applyDiff (diffLeaf a b []) a)) (dropNulls b) = true := by
  cases h : same a b with
  | true =>
    rw [(diffLeaf_nil_iff a b []).2 h]
    exact ⟨hwa, (diff_nil_iff a b [] hwa hwb).1 (diff_of_pyEq [] h)⟩
  | false =>
    rcases diffLeaf_cases [] h with ⟨h1, h2⟩ | h1 | h1
    · subst h2; rw [h1]; simp [applyDiff, applyItem, delPath, wf, dropNulls, same]
    · rw [h1]; simp only [applyDiff, List.foldl_cons, List.foldl_nil, applyItem, setPath]
      exact ⟨hwb, eqv_refl b hwb⟩
    · rw [h1]; simp only [applyDiff, List.foldl_cons, List.foldl_nil, applyItem, setPath]
      exact ⟨hwb, eqv_refl b hwb⟩

theorem dropNulls_eq_null {y : J} (h : dropNulls y = .null) : y = .null := by
  cases y <;> simp [dropNulls] at h ⊢

/-- **applying `diff a b` to `a` gives a well-formed value equal to `b` up to `≈`.** -/
theorem apply_diff_aux (a : J) : ∀ (b : J), wf a = true → wf b = true →
    wf (applyDiff (diff a b []) a) = true ∧
    same (dropNulls (applyDiff (diff a b []) a)) (dropNulls b) = true := by
  refine objInduction (P := fun a => ∀ (b : J), wf a = true → wf b = true →
    wf (applyDiff (diff a b []) a) = true ∧
    same (dropNulls (applyDiff (diff a b []) a)) (dropNulls b) = true) a ?_ ?_
  · intro a ha b hwa hwb
    rw [diff_leaf_left b [] ha]; exact apply_leaf hwa hwb
  · intro ka ih b hwa hwb
    cases hb : b.isObj with
    | false => rw [diff_leaf_right _ [] hb]; exact apply_leaf hwa hwb
    | true =>
      cases b <;> simp [isObj] at hb
      rename_i kb
      rw [diff_obj_obj]
      by_cases hpe : same (.obj ka) (.obj kb) = true
      · rw [if_pos hpe]
        exact ⟨hwa, (diff_nil_iff _ _ [] hwa hwb).1 (diff_of_pyEq [] hpe)⟩
      · rw [if_neg hpe]
        have hwa' := hwa
        have hwb' := hwb
        rw [wf_obj] at hwa' hwb'
        have hna := nodupKeys_of_wf hwa'
        have hnb := nodupKeys_of_wf hwb'
        have hpaths : ∀ it, it ∈ diffAdded ka kb [] ++ diffRemoved ka kb [] ++ diffCommon ka kb [] → it.path ≠ [] := by
          intro it hit
          simp only [List.mem_append] at hit
          rcases hit with (hit | hit) | hit
          · exact path_ne_added ka kb it hit
          · exact path_ne_removed kb ka it hit
          · exact path_ne_common kb ka it hit
        obtain ⟨kr, hr, hnr, hlk⟩ := foldl_applyItem_obj _ ka hpaths hna
        have hr' : applyDiff (diffAdded ka kb [] ++ diffRemoved ka kb [] ++ diffCommon ka kb []) (.obj ka) = .obj kr := hr
        rw [hr']
        have key : ∀ k, (∀ v, lookup k kr = some v → wf v = true) ∧ oeqv (lookup k kr) (lookup k kb) := by
          intro k
          rw [hlk k, List.filter_append, List.filter_append, filter_added ka k kb hnb,
            filter_removed kb k ka hna, filter_common kb k ka hna]
          cases hla : lookup k ka with
          | none =>
            cases hlb : lookup k kb with
            | none => simp [oeqv, dnOpt, optRel]
            | some y =>
              have hwy := wf_of_lookup hwb' hlb
              simp only [List.append_nil]
              cases y with
              | null => simp [addItem, oeqv, dnOpt, optRel, isNull]
              | _ =>
                simp only [addItem, List.foldl_cons, List.foldl_nil, stepOpt, setPath]
                refine ⟨?_, ?_⟩
                · intro v hv; cases hv; exact hwy
                · exact (optRel_dn_some _ _).2 (eqv_refl _ hwy)
          | some x =>
            have hwx := wf_of_lookup hwa' hla
            cases hlb : lookup k kb with
            | none =>
              simp only [List.nil_append, List.append_nil]
              cases x with
              | null => simp [removeItem, oeqv, dnOpt, optRel, isNull, wf]
              | _ => simp [removeItem, stepOpt, oeqv, dnOpt, optRel]
            | some y =>
              have hwy := wf_of_lookup hwb' hlb
              simp only [List.nil_append]
              obtain ⟨hwu, heq⟩ := ih k x (mem_of_lookup hla) y hwx hwy
              have hov := foldl_stepOpt_pre k (diff x y []) (some x) x (Or.inl rfl)
              rcases hov with ho | ⟨ho, hu⟩
              · rw [ho]
                refine ⟨?_, (optRel_dn_some _ _).2 heq⟩
                intro v hv; cases hv; exact hwu
              · rw [ho]
                refine ⟨(by intro v hv; cases hv), ?_⟩
                have hu' : applyDiff (diff x y []) x = .null := hu
                rw [hu'] at heq
                have : y = .null := dropNulls_eq_null (pyEq_null_left (by simpa [dropNulls] using heq))
                subst this
                simp [oeqv, dnOpt, optRel, isNull]
        have hwr : wfKvs kr = true := (wfKvs_iff kr).2 ⟨hnr, fun k v hv => (key k).1 v hv⟩
        refine ⟨by rw [wf_obj]; exact hwr, ?_⟩
        exact (eqv_obj_iff hwr hwb').2 (fun k => (key k).2)

end Kopf.C04
