/-
  C04 — counting lemmas for association lists with unique keys (needed because `same` on
  objects is "same length and every binding of the left is matched on the right").
-/
import Kopf.Lemmas.C04_Assoc
namespace Kopf.C04
open Kopf Kopf.J

def nodupKeys : Kvs → Bool
  | [] => true
  | (k, _) :: l => !hasKey k l && nodupKeys l

theorem nodupKeys_of_wf {l : Kvs} (h : wfKvs l = true) : nodupKeys l = true := by
  induction l with
  | nil => rfl
  | cons kv l ih =>
    obtain ⟨k, v⟩ := kv
    obtain ⟨hk, _, hl⟩ := (wfKvs_cons k v l).1 h
    simp [nodupKeys, hk, ih hl]

theorem hasKey_cons_iff (k k' : String) (v : J) (l : Kvs) :
    hasKey k ((k', v) :: l) = true ↔ k' = k ∨ hasKey k l = true := by
  simp [hasKey_cons]

theorem hasKey_erase (k k' : String) (l : Kvs) :
    hasKey k' (erase k l) = true ↔ hasKey k' l = true ∧ k ≠ k' := by
  induction l with
  | nil => simp [erase]
  | cons kv l ih =>
    obtain ⟨k2, v⟩ := kv
    by_cases h : k2 = k
    · subst h
      simp only [erase, if_true, ih, hasKey_cons_iff]
      constructor
      · rintro ⟨h1, h2⟩; exact ⟨Or.inr h1, h2⟩
      · rintro ⟨h1 | h1, h2⟩
        · exact absurd h1 h2
        · exact ⟨h1, h2⟩
    · simp only [erase, if_neg h, hasKey_cons_iff, ih]
      constructor
      · rintro (h1 | ⟨h1, h2⟩)
        · subst h1; exact ⟨Or.inl rfl, fun e => h e.symm⟩
        · exact ⟨Or.inr h1, h2⟩
      · rintro ⟨h1 | h1, h2⟩
        · exact Or.inl h1
        · exact Or.inr ⟨h1, h2⟩

theorem hasKey_erase_false (k k' : String) (l : Kvs) (h : hasKey k' l = false) :
    hasKey k' (erase k l) = false := by
  cases hh : hasKey k' (erase k l) with
  | false => rfl
  | true => rw [((hasKey_erase k k' l).1 hh).1] at h; cases h

theorem nodupKeys_erase (k : String) {l : Kvs} (h : nodupKeys l = true) : nodupKeys (erase k l) = true := by
  induction l with
  | nil => rfl
  | cons kv l ih =>
    obtain ⟨k2, v⟩ := kv
    simp [nodupKeys] at h
    by_cases hk : k2 = k
    · simp [erase, hk, ih h.2]
    · simp [erase, hk, nodupKeys, ih h.2, hasKey_erase_false k k2 l h.1]

theorem erase_of_not_hasKey (k : String) {l : Kvs} (h : hasKey k l = false) : erase k l = l := by
  induction l with
  | nil => rfl
  | cons kv l ih =>
    obtain ⟨k2, v⟩ := kv
    simp at h
    simp [erase, h.1, ih h.2]

theorem length_erase_le (k : String) (l : Kvs) : (erase k l).length ≤ l.length := by
  induction l with
  | nil => simp [erase]
  | cons kv l ih =>
    obtain ⟨k2, v⟩ := kv
    by_cases hk : k2 = k <;> simp [erase, hk] <;> omega

theorem length_erase_lt (k : String) {l : Kvs} (h : hasKey k l = true) :
    (erase k l).length + 1 ≤ l.length := by
  induction l with
  | nil => simp at h
  | cons kv l ih =>
    obtain ⟨k2, v⟩ := kv
    by_cases hk : k2 = k
    · have := length_erase_le k l
      simp [erase, hk]; omega
    · simp [hk] at h
      have := ih h
      simp [erase, hk]; omega

theorem length_erase_eq (k : String) {l : Kvs} (hn : nodupKeys l = true) (h : hasKey k l = true) :
    (erase k l).length + 1 = l.length := by
  induction l with
  | nil => simp at h
  | cons kv l ih =>
    obtain ⟨k2, v⟩ := kv
    simp [nodupKeys] at hn
    by_cases hk : k2 = k
    · subst hk
      simp [erase, erase_of_not_hasKey k2 hn.1]
    · simp [hk] at h
      have := ih hn.2 h
      simp [erase, hk]; omega

/-- unique keys on the left, all of them present on the right: the right is at least as long. -/
theorem length_le_of_keys_sub : ∀ (a b : Kvs), nodupKeys a = true →
    (∀ k, hasKey k a = true → hasKey k b = true) → a.length ≤ b.length
  | [], _, _, _ => by simp
  | (k, x) :: a, b, hn, hs => by
    simp [nodupKeys] at hn
    have hkb : hasKey k b = true := hs k (by simp)
    have ih := length_le_of_keys_sub a (erase k b) hn.2 (by
      intro k' hk'
      have hne : ¬ k = k' := by
        intro e; subst e; rw [hn.1] at hk'; cases hk'
      have := hs k' (by simp [hk'])
      exact (hasKey_erase k k' b).2 ⟨this, hne⟩)
    have := length_erase_lt k hkb
    simp; omega

/-- same length, unique keys on both sides, left keys ⊆ right keys: then right keys ⊆ left keys. -/
theorem keys_sub_of_length_eq : ∀ (a b : Kvs), nodupKeys a = true → nodupKeys b = true →
    a.length = b.length → (∀ k, hasKey k a = true → hasKey k b = true) →
    ∀ k, hasKey k b = true → hasKey k a = true
  | [], b, _, _, hl, _, k, hk => by
    cases b with
    | nil => simp at hk
    | cons _ _ => simp at hl
  | (k0, x) :: a, b, hna, hnb, hl, hs, k, hk => by
    simp [nodupKeys] at hna
    have hkb : hasKey k0 b = true := hs k0 (by simp)
    have hlen := length_erase_eq k0 hnb hkb
    have ih := keys_sub_of_length_eq a (erase k0 b) hna.2 (nodupKeys_erase k0 hnb)
      (by simp at hl; omega) (by
        intro k' hk'
        have hne : ¬ k0 = k' := by
          intro e; subst e; rw [hna.1] at hk'; cases hk'
        have := hs k' (by simp [hk'])
        exact (hasKey_erase k0 k' b).2 ⟨this, hne⟩)
    by_cases e : k0 = k
    · simp [e]
    · have := ih k ((hasKey_erase k0 k b).2 ⟨hk, e⟩)
      simp [this]

end Kopf.C04
