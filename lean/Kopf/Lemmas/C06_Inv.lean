/-
  C06 helper lemmas: invariants of the LTS (unguarded `InvU`, guarded `InvG`), the Boolean core of
  the decision block, and the single-step form of "never removed early".
-/
import Kopf.Lemmas.C06_Lists
namespace Kopf.C06

@[simp] theorem snap_rv (s : State) : (snap s).rv = s.rv := rfl
@[simp] theorem snap_marked (s : State) : (snap s).marked = s.marked := rfl
@[simp] theorem snap_fins (s : State) : (snap s).fins = s.fins := rfl
@[simp] theorem snap_matchDel (s : State) : (snap s).matchDel = s.matchDel := rfl
@[simp] theorem snap_matchDmn (s : State) : (snap s).matchDmn = s.matchDmn := rfl

structure InvU (s : State) : Prop where
  rvle : ∀ p, s.pending = some p → p.rvTest ≤ s.rv
  view : ∀ p, s.pending = some p → s.rv = p.rvTest → p.view = s.fins
  forever : s.dmnForever = true → s.dmnLive = false

theorem invU_init {s : State} (h : Init s) : InvU s := by
  obtain ⟨_, _, _, h4, h5, _, h7⟩ := h
  constructor <;> simp_all

theorem invU_step {own : String} {s s' : State} {l : Label} (h : InvU s) (hs : step own s l = some s') :
    InvU s' := by
  obtain ⟨h1, h2, h3⟩ := h
  unfold step at hs
  split at hs
  · cases hs
  cases l with
  | decide e v =>
    simp only [stepDecide] at hs
    split at hs
    · cases hs
    · split at hs
      · cases hs
      · next hguard =>
        cases hs
        simp only [Bool.or_eq_true, Bool.not_eq_true', decide_eq_false_iff_not, Bool.and_eq_true, beq_iff_eq,
          bne_iff_ne, ne_eq, not_or, Decidable.not_not, not_and] at hguard
        constructor
        · intro p hp; simp at hp; subst hp; exact hguard.1
        · intro p hp hrv; simp at hp; subst hp
          simp only at hrv ⊢
          have := hguard.2 hrv.symm
          rw [this]; rfl
        · simp; intro hf; simp [hf, h3 hf]
  | mergePatch =>
    simp only [stepMerge] at hs
    split at hs
    · split at hs
      · cases hs
        constructor
        · intro p hp; simp at hp; subst hp; simp
        · intro p hp; simp at hp; subst hp; simp
        · exact h3
      · cases hs
    · cases hs
  | jsonPatch f =>
    simp only [stepJson] at hs
    split at hs
    · split at hs
      · cases hs
      · split at hs
        · cases hs; constructor <;> simp_all
        · split at hs
          · cases hs; constructor <;> simp_all
          · cases hs; constructor <;> simp_all
    · cases hs
  | editFins l' =>
    simp only [stepEditFins] at hs
    split at hs
    · cases hs
    · split at hs
      · cases hs; exact ⟨h1, h2, h3⟩
      · cases hs
        constructor
        · intro p hp; have := h1 p hp; simp; omega
        · intro p hp hrv; have := h1 p hp; simp at hrv; omega
        · exact h3
  | mark =>
    simp only [stepMark] at hs
    split at hs
    · cases hs; exact ⟨h1, h2, h3⟩
    · split at hs
      · cases hs; exact ⟨h1, h2, h3⟩
      · cases hs
        constructor
        · intro p hp; have := h1 p hp; simp; omega
        · intro p hp hrv; have := h1 p hp; simp at hrv; omega
        · exact h3
  | toggleDel =>
    cases hs
    constructor
    · intro p hp; have := h1 p hp; simp; omega
    · intro p hp hrv; have := h1 p hp; simp at hrv; omega
    · exact h3
  | toggleDmn =>
    cases hs
    constructor
    · intro p hp; have := h1 p hp; simp; omega
    · intro p hp hrv; have := h1 p hp; simp at hrv; omega
    · exact h3
  | write d m =>
    cases hs
    constructor
    · intro p hp; have := h1 p hp; simp; omega
    · intro p hp hrv; have := h1 p hp; simp at hrv; omega
    · exact h3
  | handlerFinishes => cases hs; exact ⟨h1, h2, h3⟩
  | daemonExits o =>
    simp only at hs
    split at hs
    · cases hs; exact ⟨h1, h2, by simp⟩
    · cases hs
  | restart =>
    cases hs
    constructor <;> simp

theorem invU_reach {own : String} {s : State} (h : Reach own s) : InvU s := by
  induction h with
  | init hi => exact invU_init hi
  | step _ hs ih => exact invU_step ih hs

/-- `memory.remaining_patch` never holds a finalizer edit: a rejected JSON patch leaves nothing of
the framework's own fns behind (unguarded: any number of HTTP 422). -/
theorem mem_nil_step {own : String} {s s' : State} {l : Label} (h : s.mem = [])
    (hs : step own s l = some s') : s'.mem = [] := by
  unfold step at hs
  split at hs
  · cases hs
  cases l <;> simp only [stepDecide, stepMerge, stepJson, stepEditFins, stepMark] at hs <;>
    (repeat' split at hs) <;> (try cases hs) <;> simp_all [carry_nil]

theorem mem_nil_reach {own : String} {s : State} (h : Reach own s) : s.mem = [] := by
  induction h with
  | init hi => exact hi.2.2.2.2.2.1
  | step _ hs ih => exact mem_nil_step ih hs

/-! ## The Boolean core of the decision block -/

def inputsB (matchDel matchDmn delDone dmnLive dmnForever marked blocked cons memEmpty otherChanging otherDelays delReset : Bool) : In :=
  { spawning := true, spawnReq := matchDmn && !dmnForever, changing := matchDel || otherChanging,
    changeReq := matchDel, isBlocked := blocked, isOngoing := marked, deletedEvent := false,
    consistent := cons && memEmpty, spawnDelays := dmnLive && (marked || !matchDmn),
    changeDelays := (marked && blocked && matchDel && !(delDone && !delReset)) || otherDelays,
    deadline := false, paused := false, carried := false }

/-- The same inputs with an awaited version (`consistency_time is not None`) and/or a carried patch
(`not patch_initially_empty`; its effect on `consistent` is in `inputsB`'s own argument): read by the early exit
only, for the delays it returns — nothing else of the decision depends on them (`dw_*`). -/
def withWait (i : In) (w c : Bool) : In := { i with deadline := w, carried := c }

theorem inputs_eq (own : String) (v : Snap) (s : State) (e : Env) :
    inputs own v s e = withWait (inputsB v.matchDel v.matchDmn s.delDone s.dmnLive s.dmnForever v.marked
      (decide (own ∈ v.fins)) (e.consistent && !e.carried) s.mem.isEmpty e.otherChanging e.otherDelays e.delReset)
      e.waiting (e.carried || !s.mem.isEmpty) := rfl

@[simp] theorem dw_add (i : In) (w c : Bool) : (decision (withWait i w c)).add = (decision i).add := rfl
@[simp] theorem dw_rem (i : In) (w c : Bool) : (decision (withWait i w c)).removeUnneeded = (decision i).removeUnneeded := rfl
@[simp] theorem dw_rel (i : In) (w c : Bool) : (decision (withWait i w c)).release = (decision i).release := rfl
@[simp] theorem dw_run (i : In) (w c : Bool) : (decision (withWait i w c)).handlersRun = (decision i).handlersRun := rfl
@[simp] theorem dw_fns (i : In) (w c : Bool) : (decision (withWait i w c)).fns = (decision i).fns := rfl

/-- Whenever the block queues a removal, nothing requires the finalizer on the object it saw
(the daemon it may just have spawned included). -/
theorem key_bool : ∀ (matchDel matchDmn delDone dmnLive dmnForever marked blocked cons memEmpty otherChanging otherDelays delReset : Bool),
    (dmnForever = true → dmnLive = false) →
    ((decision (inputsB matchDel matchDmn delDone dmnLive dmnForever marked blocked cons memEmpty otherChanging otherDelays delReset)).removeUnneeded
      || (decision (inputsB matchDel matchDmn delDone dmnLive dmnForever marked blocked cons memEmpty otherChanging otherDelays delReset)).release) = true →
    ((matchDel && !(if (decision (inputsB matchDel matchDmn delDone dmnLive dmnForever marked blocked cons memEmpty otherChanging otherDelays delReset)).handlersRun
                    then delDone && !delReset else delDone))
      || (matchDmn && (dmnLive || (!marked && matchDmn && !dmnForever)))) = false := by
  decide

theorem allow_mem_fns (d : Decision) : Fn.allow ∈ d.fns ↔ (d.removeUnneeded || d.release) = true := by
  rcases d with ⟨a, r, l, h, dl⟩
  cases a <;> cases r <;> cases l <;> simp [Decision.fns]

theorem block_mem_fns (d : Decision) : Fn.block ∈ d.fns ↔ d.add = true := by
  rcases d with ⟨a, r, l, h, dl⟩
  cases a <;> cases r <;> cases l <;> simp [Decision.fns]

/-! ## The guarded invariant -/

structure InvG (s : State) : Prop extends InvU s where
  memNil : s.mem = []
  fresh : ∀ p, s.pending = some p → Fn.allow ∈ p.fns → s.rv = p.rvTest → required s = false

theorem invG_init {s : State} (h : Init s) : InvG s := by
  refine ⟨invU_init h, ?_, ?_⟩
  · exact h.2.2.2.2.2.1
  · obtain ⟨_, _, _, _, _, _, h7⟩ := h; simp [h7]

theorem invG_step {own : String} {s s' : State} {l : Label} (h : InvG s) (hg : Guard s l)
    (hs : step own s l = some s') : InvG s' := by
  have hU' : InvU s' := invU_step h.toInvU hs
  obtain ⟨⟨h1, h2, h3⟩, h4', h5⟩ := h
  have h4 : Fn.allow ∉ s.mem := by rw [h4']; simp
  refine ⟨hU', mem_nil_step h4' hs, ?_⟩
  unfold step at hs
  split at hs
  · cases hs
  -- fresh
  · cases l with
    | decide e v =>
      simp only [stepDecide] at hs
      split at hs
      · cases hs
      · split at hs
        · cases hs
        · next hguard =>
          cases hs
          simp only [Bool.or_eq_true, Bool.not_eq_true', decide_eq_false_iff_not, Bool.and_eq_true, beq_iff_eq,
            bne_iff_ne, ne_eq, not_or, Decidable.not_not, not_and] at hguard
          intro p hp hal hrv
          simp only [Option.some.injEq] at hp
          subst hp
          simp only at hrv
          have hv : v = snap s := hguard.2 hrv.symm
          subst hv
          simp only [List.mem_append] at hal
          have hd : Fn.allow ∈ (decision (inputs own (snap s) s e)).fns := hal.resolve_left h4
          rw [allow_mem_fns, inputs_eq] at hd
          have := key_bool _ _ _ _ _ _ _ _ _ _ _ _ h3 hd
          simp only [required, inputs_eq]
          exact this
    | mergePatch =>
      simp only [stepMerge] at hs
      split at hs
      · next p hp =>
        split at hs
        · cases hs
          intro p' hp' hal _
          simp only [Option.some.injEq] at hp'
          subst hp'
          have := hg p hp hal
          simpa [required] using this
        · cases hs
      · cases hs
    | jsonPatch f =>
      simp only [stepJson] at hs
      split at hs
      · split at hs
        · cases hs
        · split at hs
          · cases hs; intro p hp; simp at hp
          · split at hs
            · cases hs; intro p hp; simp at hp
            · cases hs; intro p hp; simp at hp
      · cases hs
    | editFins l' =>
      simp only [stepEditFins] at hs
      split at hs
      · cases hs
      · split at hs
        · cases hs; exact h5
        · cases hs
          intro p hp _ hrv
          have := h1 p hp
          simp at hrv; omega
    | mark =>
      simp only [stepMark] at hs
      split at hs
      · cases hs; exact h5
      · split at hs
        · cases hs
          intro p hp hal hrv
          have := h5 p hp hal hrv
          simpa [required] using this
        · cases hs
          intro p hp _ hrv
          have := h1 p hp
          simp at hrv; omega
    | toggleDel =>
      cases hs
      intro p hp _ hrv
      have := h1 p hp
      simp at hrv; omega
    | toggleDmn =>
      cases hs
      intro p hp _ hrv
      have := h1 p hp
      simp at hrv; omega
    | handlerFinishes =>
      cases hs
      intro p hp hal hrv
      have := h5 p hp hal hrv
      simp [required] at this ⊢
      exact this.2
    | write d m =>
      cases hs
      intro p hp _ hrv
      have := h1 p hp
      simp at hrv; omega
    | daemonExits o =>
      simp only at hs
      split at hs
      · cases hs
        intro p hp hal hrv
        have := h5 p hp hal hrv
        simp [required] at this ⊢
        exact this.1
      · cases hs
    | restart => cases hs; intro p hp; simp at hp

theorem invG_reach {own : String} {s : State} (h : ReachG own s) : InvG s := by
  induction h with
  | init hi => exact invG_init hi
  | step _ hg hs ih => exact invG_step ih hg hs

theorem reach_of_reachG {own : String} {s : State} (h : ReachG own s) : Reach own s := by
  induction h with
  | init hi => exact Reach.init hi
  | step _ _ hs ih => exact Reach.step ih hs

/-! ## One step never removes the own finalizer into a state that requires it (guarded) -/

theorem never_early_step_of_inv {own : String} {s s' : State} {l : Label} (h : InvG s)
    (hs : step own s l = some s') (hown : own ∈ s.fins) (hreq : required s' = true) : own ∈ s'.fins := by
  obtain ⟨⟨h1, h2, h3⟩, h4, h5⟩ := h
  unfold step at hs
  split at hs
  · cases hs
  cases l with
  | decide e v =>
    simp only [stepDecide] at hs
    split at hs
    · cases hs
    · split at hs
      · cases hs
      · cases hs; exact hown
  | mergePatch =>
    simp only [stepMerge] at hs
    split at hs
    · split at hs
      · cases hs; exact hown
      · cases hs
    · cases hs
  | jsonPatch f =>
    simp only [stepJson] at hs
    split at hs
    · next p hp =>
      split at hs
      · cases hs
      · split at hs
        · cases hs; exact hown
        · split at hs
          · cases hs; exact hown
          · next hne hacc =>
            cases hs
            simp only [Bool.or_eq_true, bne_iff_ne, ne_eq, not_or, Bool.not_eq_true, Decidable.not_not] at hacc
            have hview := h2 p hp hacc.2
            show own ∈ applyFns own p.fns p.view
            by_cases hin : own ∈ applyFns own p.fns p.view
            · exact hin
            · exfalso
              have hal := allow_mem_of_removed own p.fns p.view (hview ▸ hown) hin
              have := h5 p hp hal hacc.2
              have hreq' : required s = true := hreq
              rw [this] at hreq'
              cases hreq'
    · cases hs
  | editFins l' =>
    simp only [stepEditFins] at hs
    split at hs
    · cases hs
    · next hguard =>
      split at hs
      · cases hs; exact hown
      · cases hs
        simp only [bne_iff_ne, ne_eq, Decidable.not_not, decide_eq_decide] at hguard
        exact hguard.mpr hown
  | mark =>
    simp only [stepMark] at hs
    split at hs
    · cases hs; exact hown
    · split at hs <;> (cases hs; exact hown)
  | toggleDel => cases hs; exact hown
  | toggleDmn => cases hs; exact hown
  | write d m => cases hs; exact hown
  | handlerFinishes => cases hs; exact hown
  | daemonExits o =>
    simp only at hs
    split at hs
    · cases hs; exact hown
    · cases hs
  | restart => cases hs; exact hown

/-! ## One undisturbed cycle -/

/-- The state after a cycle nobody interferes with: the fns (carried first) are applied to the
list the cycle saw; nothing is sent when that changes nothing. -/
def afterCycle (own : String) (s : State) (e : Env) : State :=
  let fns := s.mem ++ (decision (inputs own (snap s) s e)).fns
  let target := applyFns own fns s.fins
  let live := s.dmnLive || (!s.marked && s.matchDmn && !s.dmnForever)
  let done := if (decision (inputs own (snap s) s e)).handlersRun then s.delDone && !e.delReset else s.delDone
  let rv1 := if e.merge && e.mergeChanges then s.rv + 1 else s.rv     -- the merge patch, if it changes the object
  if target = s.fins then { s with dmnLive := live, delDone := done, rv := rv1, pending := none, mem := [] }
  else { s with dmnLive := live, delDone := done, fins := target, rv := rv1 + 1, pending := none, mem := [],
                gone := s.marked && target.isEmpty }

theorem cycle_run (own : String) (s : State) (e : Env) (hg : s.gone = false) (hp : s.pending = none) :
    run own s (cycleLabels s e) = some (afterCycle own s e) := by
  rcases e with ⟨c, m, oc, od, mc, uf, cr, wt, dr⟩
  cases m <;> cases mc <;>
    simp [cycleLabels, run, step, stepDecide, stepMerge, stepJson, hg, hp, afterCycle] <;>
    split <;> simp_all

theorem release_bool : ∀ (matchDel matchDmn delDone dmnForever otherChanging : Bool),
    (matchDel = true → delDone = true) →
    let d := decision (inputsB matchDel matchDmn delDone false dmnForever true true true true otherChanging false false)
    d.add = false ∧ (d.removeUnneeded || d.release) = true := by
  decide

theorem add_bool : ∀ (matchDel matchDmn delDone dmnLive dmnForever cons memEmpty otherChanging otherDelays delReset : Bool),
    (matchDel || (matchDmn && !dmnForever)) = true →
    let d := decision (inputsB matchDel matchDmn delDone dmnLive dmnForever false false cons memEmpty otherChanging otherDelays delReset)
    d.add = true ∧ d.removeUnneeded = false ∧ d.release = false := by
  decide

theorem remove_bool : ∀ (matchDel matchDmn delDone dmnLive dmnForever marked cons memEmpty otherChanging otherDelays delReset : Bool),
    (matchDel || (matchDmn && !dmnForever)) = false →
    let d := decision (inputsB matchDel matchDmn delDone dmnLive dmnForever marked true cons memEmpty otherChanging otherDelays delReset)
    d.add = false ∧ d.removeUnneeded = true := by
  decide

theorem arm_bool : ∀ (matchDel matchDmn delDone dmnLive dmnForever marked blocked cons memEmpty otherChanging otherDelays delReset : Bool),
    ((decision (inputsB matchDel matchDmn delDone dmnLive dmnForever marked blocked cons memEmpty otherChanging otherDelays delReset)).add = true →
      (matchDel || (matchDmn && !dmnForever)) = true ∧ blocked = false ∧ marked = false) ∧
    (((decision (inputsB matchDel matchDmn delDone dmnLive dmnForever marked blocked cons memEmpty otherChanging otherDelays delReset)).removeUnneeded
      || (decision (inputsB matchDel matchDmn delDone dmnLive dmnForever marked blocked cons memEmpty otherChanging otherDelays delReset)).release) = true →
      blocked = true ∧ ((matchDel || (matchDmn && !dmnForever)) = false ∨ marked = true)) := by
  decide

/-- `arm_bool` on the inputs of a cycle of the LTS. -/
theorem arm_inputs (own : String) (v : Snap) (s : State) (e : Env) :
    ((decision (inputs own v s e)).add = true →
      (v.matchDel || (v.matchDmn && !s.dmnForever)) = true ∧ decide (own ∈ v.fins) = false ∧ v.marked = false) ∧
    (((decision (inputs own v s e)).removeUnneeded || (decision (inputs own v s e)).release) = true →
      decide (own ∈ v.fins) = true ∧ ((v.matchDel || (v.matchDmn && !s.dmnForever)) = false ∨ v.marked = true)) :=
  arm_bool v.matchDel v.matchDmn s.delDone s.dmnLive s.dmnForever v.marked (decide (own ∈ v.fins))
    (e.consistent && !e.carried) s.mem.isEmpty e.otherChanging e.otherDelays e.delReset

/-- the fns of a decision without `add` and with a removal end in a removal -/
theorem fns_snoc_allow (d : Decision) (ha : d.add = false) (hr : (d.removeUnneeded || d.release) = true) :
    ∃ pre, d.fns = pre ++ [Fn.allow] := by
  rcases d with ⟨a, r, l, h, dl⟩
  simp only at ha; subst ha
  cases r <;> cases l
  · simp at hr
  · exact ⟨[], rfl⟩
  · exact ⟨[], rfl⟩
  · exact ⟨[Fn.allow], rfl⟩

theorem fns_add_only (d : Decision) (ha : d.add = true) (hr : d.removeUnneeded = false) (hl : d.release = false) :
    d.fns = [Fn.block] := by
  rcases d with ⟨a, r, l, h, dl⟩
  simp only at ha hr hl; subst ha hr hl
  rfl

theorem reach_of_run {own : String} : ∀ (ls : List Label) {s s' : State}, Reach own s → run own s ls = some s' → Reach own s'
  | [], s, s', h, hr => by simp [run] at hr; subst hr; exact h
  | l :: ls, s, s', h, hr => by
    simp only [run] at hr
    cases hst : step own s l with
    | none => simp [hst] at hr
    | some s1 =>
      simp [hst] at hr
      exact reach_of_run ls (Reach.step h hst) hr

end Kopf.C06
