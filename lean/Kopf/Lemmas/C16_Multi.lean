/-
  C16 helper lemmas, part 5: Multi storages.  A storage tree behaves as the flat list of its
  leaves; a `store` / `purge` over a list of leaves is a sequence of writes at the leaves' paths.
-/
import Kopf.Lemmas.C16_Clear
import Kopf.Lemmas.C16_Keys
namespace Kopf.C16
open Kopf Kopf.J

/-! ## a tree is its flattening -/

theorem runLeaves_append (f : Leaf → J → Except Err J) (a b : Storage) (p : J) :
    runLeaves f (a ++ b) p =
      match runLeaves f a p with
      | .ok p' => runLeaves f b p'
      | .error e => .error e := by
  induction a generalizing p with
  | nil => simp [runLeaves]
  | cons l ls ih =>
    simp only [List.cons_append, runLeaves]
    cases f l p with
    | ok p1 => simp only [ih]
    | error e => rfl

mutual
  theorem run_flatten (f : Leaf → J → Except Err J) :
      (t : STree) → (p : J) → STree.run f t p = runLeaves f t.flatten p
    | .leaf l, p => by
      simp only [STree.run, STree.flatten, runLeaves]
      cases f l p <;> rfl
    | .multi ts, p => by
      simp only [STree.run, STree.flatten]
      exact runList_flatten f ts p
  theorem runList_flatten (f : Leaf → J → Except Err J) :
      (ts : List STree) → (p : J) → STree.runList f ts p = runLeaves f (STree.flattenList ts) p
    | [], p => by simp [STree.runList, STree.flattenList, runLeaves]
    | t :: ts, p => by
      simp only [STree.runList, STree.flattenList, runLeaves_append]
      rw [run_flatten f t p]
      cases runLeaves f t.flatten p with
      | ok p' => simp only [runList_flatten f ts p']
      | error e => rfl
end

theorem store_eq_runLeaves (env : Env) (body : J) (k : Str) (r : Rec) (ls : Storage) : ∀ patch,
    store env body k r patch ls = runLeaves (fun l p => l.store env body p k r) ls patch := by
  induction ls with
  | nil => intro p; rfl
  | cons l ls ih => intro p; simp only [store, runLeaves]; cases l.store env body p k r <;> simp [ih]

theorem purge_eq_runLeaves (env : Env) (body : J) (k : Str) (ls : Storage) : ∀ patch,
    purge env body k patch ls = runLeaves (fun l p => l.purge env body p k) ls patch := by
  induction ls with
  | nil => intro p; rfl
  | cons l ls ih => intro p; simp only [purge, runLeaves]; cases l.purge env body p k <;> simp [ih]

theorem touch_eq_runLeaves (env : Env) (body value : J) (ls : Storage) : ∀ patch,
    touch env body value patch ls = runLeaves (fun l p => l.touch env body p value) ls patch := by
  induction ls with
  | nil => intro p; rfl
  | cons l ls ih => intro p; simp only [touch, runLeaves]; cases l.touch env body p value <;> simp [ih]

theorem clear_eq_runLeaves (ls : Storage) : ∀ e,
    clear e ls = runLeaves (fun l e => l.clear e) ls e := by
  induction ls with
  | nil => intro p; rfl
  | cons l ls ih => intro p; simp only [clear, runLeaves]; cases l.clear p <;> simp [ih]

theorem fetch_append (env : Env) (body : J) (k : Str) (a b : Storage) :
    fetch env body k (a ++ b) =
      match fetch env body k a with
      | .ok none => fetch env body k b
      | r => r := by
  induction a with
  | nil => simp [fetch]
  | cons l ls ih =>
    simp only [List.cons_append, fetch]
    cases hl : l.fetch env body k with
    | error e => rfl
    | ok o =>
      cases o with
      | none => simp only [ih]
      | some x => rfl

mutual
  theorem fetch_flatten (env : Env) (body : J) (k : Str) :
      (t : STree) → STree.fetch env body k t = fetch env body k t.flatten
    | .leaf l => by
      simp only [STree.fetch, STree.flatten, fetch]
      cases hl : l.fetch env body k with
      | error e => rfl
      | ok o => cases o <;> rfl
    | .multi ts => by
      simp only [STree.fetch, STree.flatten]
      exact fetchList_flatten env body k ts
  theorem fetchList_flatten (env : Env) (body : J) (k : Str) :
      (ts : List STree) → STree.fetchList env body k ts = fetch env body k (STree.flattenList ts)
    | [] => by simp [STree.fetchList, STree.flattenList, fetch]
    | t :: ts => by
      simp only [STree.fetchList, STree.flattenList, fetch_append]
      rw [fetch_flatten env body k t]
      cases h : fetch env body k t.flatten with
      | error e => rfl
      | ok o =>
        cases o with
        | none => simp only [fetchList_flatten env body k ts]
        | some x => rfl
end

/-! the same for the diff-base trees -/

theorem dstore_append (env : Env) (body essence : J) (a b : DStorage) (p : J) :
    dstore env body essence p (a ++ b) =
      match dstore env body essence p a with
      | .ok p' => dstore env body essence p' b
      | .error e => .error e := by
  induction a generalizing p with
  | nil => simp [dstore]
  | cons l ls ih =>
    simp only [List.cons_append, dstore]
    cases l.store env body p essence with
    | ok p1 => simp only [ih]
    | error e => rfl

mutual
  theorem dstore_flatten (env : Env) (body essence : J) :
      (t : DTree) → (p : J) → DTree.store env body essence t p = dstore env body essence p t.flatten
    | .leaf l, p => by
      simp only [DTree.store, DTree.flatten, dstore]
      cases l.store env body p essence <;> rfl
    | .multi ts, p => by
      simp only [DTree.store, DTree.flatten]
      exact dstoreList_flatten env body essence ts p
  theorem dstoreList_flatten (env : Env) (body essence : J) :
      (ts : List DTree) → (p : J) →
        DTree.storeList env body essence ts p = dstore env body essence p (DTree.flattenList ts)
    | [], p => by simp [DTree.storeList, DTree.flattenList, dstore]
    | t :: ts, p => by
      simp only [DTree.storeList, DTree.flattenList, dstore_append]
      rw [dstore_flatten env body essence t p]
      cases dstore env body essence p t.flatten with
      | ok p' => simp only [dstoreList_flatten env body essence ts p']
      | error e => rfl
end

theorem dfetch_append (env : Env) (body : J) (a b : DStorage) :
    dfetch env body (a ++ b) =
      match dfetch env body a with
      | .ok none => dfetch env body b
      | r => r := by
  induction a with
  | nil => simp [dfetch]
  | cons l ls ih =>
    simp only [List.cons_append, dfetch]
    cases hl : l.fetch env body with
    | error e => rfl
    | ok o =>
      cases o with
      | none => simp only [ih]
      | some x => rfl

mutual
  theorem dfetch_flatten (env : Env) (body : J) :
      (t : DTree) → DTree.fetch env body t = dfetch env body t.flatten
    | .leaf l => by
      simp only [DTree.fetch, DTree.flatten, dfetch]
      cases hl : l.fetch env body with
      | error e => rfl
      | ok o => cases o <;> rfl
    | .multi ts => by
      simp only [DTree.fetch, DTree.flatten]
      exact dfetchList_flatten env body ts
  theorem dfetchList_flatten (env : Env) (body : J) :
      (ts : List DTree) → DTree.fetchList env body ts = dfetch env body (DTree.flattenList ts)
    | [] => by simp [DTree.fetchList, DTree.flattenList, dfetch]
    | t :: ts => by
      simp only [DTree.fetchList, DTree.flattenList, dfetch_append]
      rw [dfetch_flatten env body t]
      cases h : dfetch env body t.flatten with
      | error e => rfl
      | ok o =>
        cases o with
        | none => simp only [dfetchList_flatten env body ts]
        | some x => rfl
end

/-! ## a store over leaves writes at the leaves' paths only -/

theorem annStore_touches {env : Env} {c : AnnCfg} {body p p' : J} {k : Str} {r : Rec}
    (h : annStore env c body p k r = .ok p') : Touches p p' (Leaf.writes env body k (.ann c)) := by
  unfold annStore at h
  cases h1 : ensureAll p (annNames env c.pfx c.v1 body k) (str (env.enc (obj (stored c.verbose r)))) with
  | error e => rw [h1] at h; cases h
  | ok p1 =>
    rw [h1] at h
    exact ((ensureAll_touches _ (wf_str _) h1).mono (fun x hx => List.mem_append_left _ hx)).trans
      ((storeMarker_touches h).mono (fun x hx => List.mem_append_right _ hx))

theorem leaf_store_touches {env : Env} {body p p' : J} {k : Str} {r : Rec} (hr : wf (obj r) = true) :
    ∀ {l : Leaf}, l.store env body p k r = .ok p' → Touches p p' (l.writes env body k)
  | .ann c, h => annStore_touches h
  | .status sc, h => by
    simp only [Leaf.store, statusStore] at h
    simp only [Leaf.writes]
    split at h
    · cases h; rename_i hn; simp [hn]; exact Touches.refl _ _
    · rename_i hn; simp [hn]; exact touches_ensure hr (liftD_ok h)

theorem store_touches {env : Env} {body : J} {k : Str} {r : Rec} (hr : wf (obj r) = true) (ls : Storage) :
    ∀ {p p' : J}, store env body k r p ls = .ok p' → Touches p p' (ls.flatMap (Leaf.writes env body k)) := by
  induction ls with
  | nil => intro p p' h; simp [store] at h; subst h; exact Touches.refl _ _
  | cons l ls ih =>
    intro p p' h
    simp only [store] at h
    cases h1 : l.store env body p k r with
    | error e => rw [h1] at h; cases h
    | ok p1 =>
      rw [h1] at h
      exact ((leaf_store_touches hr h1).mono (fun x hx => by rw [List.flatMap_cons]; exact List.mem_append_left _ hx)).trans
        ((ih h).mono (fun x hx => by rw [List.flatMap_cons]; exact List.mem_append_right _ hx))

/-- what an annotations store leaves in the patch -/
theorem annStore_facts {env : Env} {c : AnnCfg} {body p p' : J} {k : Str} {r : Rec}
    (hw : wf p = true) (hs : MarkStable p) (h : annStore env c body p k r = .ok p') :
    wf p' = true ∧ MarkStable p' ∧
    probe p' (annPath (v2Key c.pfx env.sfx (markKey (isDRS body) k)))
      = .set (str (env.enc (obj (stored c.verbose r)))) := by
  have t := annStore_touches h
  refine ⟨t.keepsWf hw, ?_, ?_⟩
  · apply hs.of_touches t
    · intro path hp; simp only [Leaf.writes, List.mem_append, List.mem_map, List.mem_singleton] at hp
      rcases hp with ⟨n, _, rfl⟩ | rfl <;> exact diverge_kind_ann _
    · intro path hp; simp only [Leaf.writes, List.mem_append, List.mem_map, List.mem_singleton] at hp
      rcases hp with ⟨n, _, rfl⟩ | rfl <;> exact diverge_owners_ann _
  · unfold annStore at h
    cases h1 : ensureAll p (annNames env c.pfx c.v1 body k) (str (env.enc (obj (stored c.verbose r)))) with
    | error e => rw [h1] at h; cases h
    | ok p1 =>
      rw [h1] at h
      obtain ⟨rest, hn⟩ := makeKeys_head c.pfx c.v1 env.sfx (markKey (isDRS body) k)
      have hset := ensureAll_set _ (wf_str _) (by simp) h1 (v2Key c.pfx env.sfx (markKey (isDRS body) k))
        (by simp [annNames, hn])
      exact storeMarker_keep h _ _ hset

/-- what `fetch` reads when the patch sets the v2 annotation -/
theorem annFetch_of_probe {env : Env} {c : AnnCfg} {body p : J} {k : Str} {s : String} {j : J}
    (hw : wf p = true) (hs : MarkStable p)
    (hp : probe p (annPath (v2Key c.pfx env.sfx (markKey (isDRS body) k))) = .set (str s))
    (hd : env.dec s = some j) (hj : j ≠ null) :
    annFetch env c (mergePatch body p) k = .ok (some j) := by
  obtain ⟨rest, hn⟩ := makeKeys_head c.pfx c.v1 env.sfx (markKey (isDRS body) k)
  unfold annFetch
  rw [annNames, isDRS_merge hw hs body, hn]
  exact fetchNames_head env _ _ _ _ _ (merged_set_str hw body _ _ hp) hd hj

/-! ## a purge over leaves is one `purgeAll` over the leaves' own paths -/

theorem purgeAll_append (body : J) (a b : List Path) (p : J) :
    purgeAll body p (a ++ b) =
      match purgeAll body p a with
      | .ok p' => purgeAll body p' b
      | .error e => .error e := by
  induction a generalizing p with
  | nil => simp [purgeAll]
  | cons q qs ih =>
    simp only [List.cons_append, purgeAll]
    cases purgePath body p q with
    | ok p1 => simp only [ih]
    | error e => rfl

theorem leaf_purge_eq (env : Env) (body p : J) (k : Str) (l : Leaf) :
    l.purge env body p k = purgeAll body p (l.owns env body k) := by
  cases l with
  | ann c => rfl
  | status sc =>
    simp only [Leaf.purge, statusPurge, Leaf.owns, purgeAll]
    cases purgePath body p (sc.field ++ [String.ofList k]) <;> rfl

theorem purge_eq_purgeAll (env : Env) (body : J) (k : Str) (ls : Storage) : ∀ p,
    purge env body k p ls = purgeAll body p (ls.flatMap (Leaf.owns env body k)) := by
  induction ls with
  | nil => intro p; rfl
  | cons l ls ih =>
    intro p
    simp only [purge, List.flatMap_cons, purgeAll_append, leaf_purge_eq]
    cases purgeAll body p (l.owns env body k) with
    | ok p1 => simp only [ih]
    | error e => rfl

/-- paths that pairwise coincide or part ways (never one a proper prefix of another): after
    purging all of them, none is left on the merged object -/
theorem purgeAll_none_compat {body : J} (paths : List Path) : ∀ {p p' : J}, wf p = true →
    (∀ q ∈ paths, q ≠ []) → (∀ a ∈ paths, ∀ b ∈ paths, a = b ∨ diverge a b = true) →
    purgeAll body p paths = .ok p' → ∀ q ∈ paths, resolve? (mergePatch body p') q = none := by
  induction paths with
  | nil => intro p p' _ _ _ _ q hq; cases hq
  | cons q0 qs ih =>
    intro p p' hw hne hc h q hq
    simp only [purgeAll] at h
    cases h1 : purgePath body p q0 with
    | error e => rw [h1] at h; cases h
    | ok p1 =>
      rw [h1] at h
      have hw1 := (purgePath_touches h1).keepsWf hw
      have ih' := ih hw1 (fun x hx => hne x (by simp [hx]))
        (fun a ha b hb => hc a (by simp [ha]) b (by simp [hb])) h
      by_cases hin : q ∈ qs
      · exact ih' q hin
      · have e : q = q0 := by simpa [hin] using hq
        subst e
        rw [(purgeAll_touches qs h).merged hw1 body q (by
          intro path hp
          rcases hc q (by simp) path (by simp [hp]) with e | d
          · exact absurd (e ▸ hp) hin
          · exact d)]
        exact purgePath_none hw (hne q (by simp)) h1

theorem annPath_compat (a b : Str) : annPath a = annPath b ∨ diverge (annPath a) (annPath b) = true := by
  by_cases e : a = b
  · exact Or.inl (by rw [e])
  · exact Or.inr (diverge_annPath e)

/-! ## diff-base stores -/

theorem dleaf_store_touches {env : Env} {body p p' essence : J} :
    ∀ {l : DLeaf}, l.store env body p essence = .ok p' → Touches p p' (l.writes env body)
  | .ann c, h => by
    simp only [DLeaf.store] at h
    cases h1 : ensureAll p (annNames env c.pfx c.v1 body c.key) (str (env.enc essence ++ newline)) with
    | error e => rw [h1] at h; cases h
    | ok p1 =>
      rw [h1] at h
      exact ((ensureAll_touches _ (wf_str _) h1).mono (fun x hx => List.mem_append_left _ hx)).trans
        ((storeMarker_touches h).mono (fun x hx => List.mem_append_right _ hx))
  | .status field, h => by
    simp only [DLeaf.store] at h
    exact touches_ensure (wf_str _) (liftD_ok h)

theorem dstore_touches {env : Env} {body essence : J} (ls : DStorage) :
    ∀ {p p' : J}, dstore env body essence p ls = .ok p' → Touches p p' (ls.flatMap (DLeaf.writes env body)) := by
  induction ls with
  | nil => intro p p' h; simp [dstore] at h; subst h; exact Touches.refl _ _
  | cons l ls ih =>
    intro p p' h
    simp only [dstore] at h
    cases h1 : l.store env body p essence with
    | error e => rw [h1] at h; cases h
    | ok p1 =>
      rw [h1] at h
      exact ((dleaf_store_touches h1).mono (fun x hx => by rw [List.flatMap_cons]; exact List.mem_append_left _ hx)).trans
        ((ih h).mono (fun x hx => by rw [List.flatMap_cons]; exact List.mem_append_right _ hx))

/-- what an annotations diff-base store leaves in the patch -/
theorem dannStore_facts {env : Env} {c : AnnDiffCfg} {body p p' essence : J}
    (hw : wf p = true) (hs : MarkStable p) (h : DLeaf.store env body p essence (.ann c) = .ok p') :
    wf p' = true ∧ MarkStable p' ∧
    probe p' (annPath (v2Key c.pfx env.sfx (markKey (isDRS body) c.key)))
      = .set (str (env.enc essence ++ newline)) := by
  have t := dleaf_store_touches h
  refine ⟨t.keepsWf hw, ?_, ?_⟩
  · apply hs.of_touches t
    · intro path hp; simp only [DLeaf.writes, List.mem_append, List.mem_map, List.mem_singleton] at hp
      rcases hp with ⟨n, _, rfl⟩ | rfl <;> exact diverge_kind_ann _
    · intro path hp; simp only [DLeaf.writes, List.mem_append, List.mem_map, List.mem_singleton] at hp
      rcases hp with ⟨n, _, rfl⟩ | rfl <;> exact diverge_owners_ann _
  · simp only [DLeaf.store] at h
    cases h1 : ensureAll p (annNames env c.pfx c.v1 body c.key) (str (env.enc essence ++ newline)) with
    | error e => rw [h1] at h; cases h
    | ok p1 =>
      rw [h1] at h
      obtain ⟨rest, hn⟩ := makeKeys_head c.pfx c.v1 env.sfx (markKey (isDRS body) c.key)
      have hset := ensureAll_set _ (wf_str _) (by simp) h1 (v2Key c.pfx env.sfx (markKey (isDRS body) c.key))
        (by simp [annNames, hn])
      exact storeMarker_keep h _ _ hset

/-! ## nothing to fetch when every own path of every leaf is empty -/

theorem leaf_fetch_not_some {env : Env} {body b' : J} {k : Str} (hd : isDRS b' = isDRS body) :
    ∀ (l : Leaf), (∀ q ∈ l.owns env body k, resolve? b' q = none) → ∀ x, l.fetch env b' k ≠ .ok (some x)
  | .ann c, h, x => by
    simp only [Leaf.fetch, annFetch]
    have e : annNames env c.pfx c.v1 b' k = annNames env c.pfx c.v1 body k := by simp only [annNames, hd]
    rw [e, fetchNames_none env b' _ (fun n hn => h _ (List.mem_map.2 ⟨n, hn, rfl⟩))]
    simp
  | .status sc, h, x => by
    intro hx
    have := resolve_of_statusFetch sc b' k x hx
    rw [h _ (by simp [Leaf.owns])] at this
    cases this

theorem fetch_not_some {env : Env} {b' : J} {k : Str} (ls : Storage)
    (h : ∀ l ∈ ls, ∀ x, l.fetch env b' k ≠ .ok (some x)) : ∀ x, fetch env b' k ls ≠ .ok (some x) := by
  induction ls with
  | nil => intro x; simp [fetch]
  | cons l ls ih =>
    intro x
    simp only [fetch]
    cases hl : l.fetch env b' k with
    | error e => simp
    | ok o =>
      cases o with
      | none => exact ih (fun l' hl' => h l' (by simp [hl'])) x
      | some y => exact absurd hl (h l (by simp) y)

theorem own_names_of_makeKeys (p : Str) (hp : p ≠ []) (v1 : Bool) (sfx : Str → Str) (k : Str) :
    ∀ n ∈ makeKeys p v1 sfx k, ∃ name, n = p ++ '/' :: name := by
  intro n hn
  rcases makeKeys_cases p v1 sfx k with h | ⟨h, _⟩
  · rw [h] at hn; simp at hn; subst hn
    exact ⟨v2Name sfx k, by rw [v2Key_eq, pre_of_ne hp]; simp⟩
  · rw [h] at hn; simp at hn
    rcases hn with rfl | rfl
    · exact ⟨v2Name sfx k, by rw [v2Key_eq, pre_of_ne hp]; simp⟩
    · exact ⟨v1Name p sfx k, by rw [v1Key_eq, pre_of_ne hp]; simp⟩

theorem roundtrip_status_leaf_fetch (env : Env) (field : Path) (body p essence : J)
    (hc : env.dec (env.enc essence) = some essence) (hw : wf p = true) (he : essence ≠ null)
    (hp : probe p field = .set (str (env.enc essence))) :
    DLeaf.fetch env (mergePatch body p) (.status field) = .ok (some essence) := by
  have hm := merged_set_str hw body field _ hp
  simp only [DLeaf.fetch, resolveD, hm, Option.getD_some, hc]

/-! ## other handlers / marking after a sequence of writes -/

/-- what a handler reads depends only on its own annotation names (and the marking bit) -/
theorem annFetch_congr (env : Env) (c : AnnCfg) (b1 b2 : J) (k' : Str) (hd : isDRS b1 = isDRS b2)
    (h : ∀ n ∈ annNames env c.pfx c.v1 b1 k', resolve? b1 (annPath n) = resolve? b2 (annPath n)) :
    annFetch env c b1 k' = annFetch env c b2 k' := by
  unfold annFetch
  have e : annNames env c.pfx c.v1 b2 k' = annNames env c.pfx c.v1 b1 k' := by simp only [annNames, hd]
  rw [e]
  exact fetchNames_congr env b1 b2 _ h



theorem fetch_unchanged_of_touches {env : Env} {c : AnnCfg} {body p p' : J} {k' : Str} {ps : List Path}
    (hw : wf p = true) (hs : MarkStable p) (t : Touches p p' ps) (hs' : MarkStable p')
    (hd : ∀ n' ∈ annNames env c.pfx c.v1 body k', ∀ path ∈ ps, diverge (annPath n') path = true) :
    annFetch env c (mergePatch body p') k' = annFetch env c (mergePatch body p) k' := by
  have hw' := t.keepsWf hw
  have e1 : annNames env c.pfx c.v1 (mergePatch body p') k' = annNames env c.pfx c.v1 body k' := by
    simp only [annNames, isDRS_merge hw' hs' body]
  have e2 : annNames env c.pfx c.v1 (mergePatch body p) k' = annNames env c.pfx c.v1 body k' := by
    simp only [annNames, isDRS_merge hw hs body]
  unfold annFetch
  rw [e1, e2]
  exact fetchNames_congr env _ _ _ (fun n' hn' => t.merged hw body (annPath n') (hd n' hn'))

theorem leaf_writes_apart_mark {env : Env} {body : J} {k : Str} :
    ∀ (l : Leaf), (∀ sc, l = .status sc → FieldApart sc.field) → ∀ path ∈ l.writes env body k,
      diverge ["kind"] path = true ∧ diverge ["metadata", "ownerReferences"] path = true
  | .ann c, _, path, hp => by
    simp only [Leaf.writes, List.mem_append, List.mem_map, List.mem_singleton] at hp
    rcases hp with ⟨n, _, rfl⟩ | rfl <;> exact ⟨diverge_kind_ann _, diverge_owners_ann _⟩
  | .status sc, hf, path, hp => by
    simp only [Leaf.writes] at hp
    split at hp
    · cases hp
    · simp at hp; subst hp
      exact ⟨(hf sc rfl).diverge_kind _, (hf sc rfl).diverge_owners _⟩

theorem leaf_owns_apart_mark {env : Env} {body : J} {k : Str} :
    ∀ (l : Leaf), (∀ sc, l = .status sc → FieldApart sc.field) → ∀ path ∈ l.owns env body k,
      diverge ["kind"] path = true ∧ diverge ["metadata", "ownerReferences"] path = true
  | .ann c, _, path, hp => by
    simp only [Leaf.owns, List.mem_map] at hp
    obtain ⟨n, _, rfl⟩ := hp
    exact ⟨diverge_kind_ann _, diverge_owners_ann _⟩
  | .status sc, hf, path, hp => by
    simp only [Leaf.owns, List.mem_singleton] at hp
    subst hp
    exact ⟨(hf sc rfl).diverge_kind _, (hf sc rfl).diverge_owners _⟩

end Kopf.C16
