/-
  Helper lemmas about the C02 cycle model.
-/
import Kopf.Model.C02_Cycle
namespace Kopf.C02

theorem awakened_not_finished {r : Rec} {now : Tick} (h : r.awakened now = true) : r.finished = false := by
  unfold Rec.awakened at h
  cases hf : r.finished <;> simp_all

/-- the state the execution starts from, for a selected & owned handler -/
def startRec (cfg : Cfg) (P : Store) (now : Tick) (ex : Bool) (i : Id) : Rec :=
  match P i with
  | some r => if ex then { r with purpose := some cfg.reason } else r
  | none => fresh now cfg.reason

theorem plan_sub (lc : Lifecycle) (st : St) (todo : List Id) : ∀ i ∈ plan lc st todo, i ∈ todo := by
  intro i hi
  cases lc with
  | allAtOnce => simpa [plan] using hi
  | oneByOne => exact List.mem_of_mem_take (by simpa [plan] using hi)
  | asap =>
    simp only [plan] at hi
    have key : ∀ (l : List Id) (x : Id), firstMin st l = some x → x ∈ l := by
      intro l
      induction l with
      | nil => intro x h; simp [firstMin] at h
      | cons a as ih =>
        intro x h
        simp only [firstMin] at h
        cases hm : firstMin st as with
        | none => simp [hm] at h; simp [h]
        | some y =>
          simp only [hm] at h
          split at h
          · simp at h; simp [h]
          · simp at h; subst h; exact List.mem_cons_of_mem _ (ih _ hm)
    cases hf : firstMin st todo with
    | none => simp [hf] at hi
    | some x => simp [hf] at hi; subst hi; exact key _ _ hf

/-- Everything `execOnce` invokes was selected, awake, not blocked by the pre-checks, and is
    called with `retry` = the retries in the state it started from. -/
theorem execOnce_invoked {cfg : Cfg} {st : St} {now now1 : Tick} {exec : Id → Nat → Outcome}
    {i : Id} {n : Nat} (h : (i, n) ∈ (execOnce cfg st now now1 exec).invoked) :
    i ∈ cfg.selected ∧ ∃ hs, st i = some hs ∧ hs.r.awakened now = true ∧ n = hs.r.retries := by
  simp only [execOnce, List.mem_map, List.mem_filter] at h
  obtain ⟨j, ⟨hjpl, hjok⟩, hjeq⟩ := h
  have hjtodo := plan_sub _ _ _ j hjpl
  simp only [List.mem_filter] at hjtodo
  obtain ⟨hsel, haw⟩ := hjtodo
  simp only [Prod.mk.injEq] at hjeq
  obtain ⟨rfl, rfl⟩ := hjeq
  refine ⟨hsel, ?_⟩
  cases hst : st j with
  | none => simp [hst] at haw
  | some hs =>
    refine ⟨hs, rfl, ?_, ?_⟩
    · simpa [hst] using haw
    · simp [retriesOf, hst]

end Kopf.C02

namespace Kopf.C02

/-- The state right before execution (`st1` in `cycle`). -/
def preState (cfg : Cfg) (P : Store) (now : Tick) : St :=
  let st0 := withHandlers (fromStorage P cfg.owned) cfg.selected cfg.reason now
  if hasExtras st0 (known cfg) cfg.reason then repurpose st0 cfg.selected cfg.reason else st0

def extras (cfg : Cfg) (P : Store) (now : Tick) : Bool :=
  hasExtras (withHandlers (fromStorage P cfg.owned) cfg.selected cfg.reason now) (known cfg) cfg.reason

theorem preState_selected {cfg : Cfg} {P : Store} {now : Tick} {i : Id}
    (hs : i ∈ cfg.selected) (ho : i ∈ cfg.owned) :
    ∃ h, preState cfg P now i = some h ∧ h.active = true ∧
      h.r = startRec cfg P now (extras cfg P now) i := by
  unfold preState extras startRec
  cases hP : P i with
  | none =>
    by_cases hex : hasExtras (withHandlers (fromStorage P cfg.owned) cfg.selected cfg.reason now) (known cfg) cfg.reason = true
    · simp [hex, repurpose, withHandlers, fromStorage, hs, ho, hP, fresh]
    · simp [hex, withHandlers, fromStorage, hs, ho, hP]
  | some r =>
    by_cases hex : hasExtras (withHandlers (fromStorage P cfg.owned) cfg.selected cfg.reason now) (known cfg) cfg.reason = true
    · simp [hex, repurpose, withHandlers, fromStorage, hs, ho, hP]
    · simp [hex, withHandlers, fromStorage, hs, ho, hP]

theorem startRec_finished (cfg : Cfg) (P : Store) (now : Tick) (ex : Bool) (i : Id) (r : Rec)
    (hP : P i = some r) : (startRec cfg P now ex i).finished = r.finished := by
  unfold startRec
  cases ex <;> simp [hP, Rec.finished]

theorem startRec_retries (cfg : Cfg) (P : Store) (now : Tick) (ex : Bool) (i : Id) :
    (startRec cfg P now ex i).retries = (match P i with | some r => r.retries | none => 0) := by
  unfold startRec
  cases hP : P i <;> cases ex <;> simp [fresh]

/-- `cycle.invoked` is `execOnce.invoked` on the pre-state (or empty). -/
theorem cycle_invoked {cfg : Cfg} {P : Store} {now now1 : Tick} {exec : Id → Nat → Outcome}
    {i : Id} {n : Nat} (h : (i, n) ∈ (cycle cfg P now now1 exec).invoked) :
    (i, n) ∈ (execOnce cfg (preState cfg P now) now now1 exec).invoked := by
  unfold cycle at h
  split at h
  · simp at h
  · simp only at h
    split at h
    · simp at h
    · simpa [preState] using h

end Kopf.C02

namespace Kopf.C02

def postState (cfg : Cfg) (P : Store) (now now1 : Tick) (exec : Id → Nat → Outcome) : St :=
  (execOnce cfg (preState cfg P now) now now1 exec).st

/-- `state.extras` recalculated after the re-purposing: something not selected still carries another purpose -/
def extrasLeft (cfg : Cfg) (P : Store) (now : Tick) : Bool :=
  hasExtras (preState cfg P now) (known cfg) cfg.reason

def midStore (cfg : Cfg) (P : Store) (now : Tick) : Store :=
  if extrasLeft cfg P now then purgeFallen P (preState cfg P now) (known cfg) cfg.reason else P

/-- `cycle` in its main branch (handler reason, some handlers selected). -/
theorem cycle_main (cfg : Cfg) (P : Store) (now now1 : Tick) (exec : Id → Nat → Outcome)
    (hr : handlerReasons.contains cfg.reason = true) (hne : cfg.selected.isEmpty = false) :
    cycle cfg P now now1 exec =
      { invoked := (execOnce cfg (preState cfg P now) now now1 exec).invoked,
        P' := if done (postState cfg P now now1 exec) (known cfg)
              then purge (store (midStore cfg P now) (postState cfg P now now1 exec))
                     (postState cfg P now now1 exec) cfg.owned (known cfg)
              else store (midStore cfg P now) (postState cfg P now now1 exec),
        closed := done (postState cfg P now now1 exec) (known cfg),
        delays := delays (postState cfg P now now1 exec) (known cfg).eraseDups now1 } := by
  unfold cycle
  simp only [hr, hne, Bool.not_true, Bool.false_eq_true, if_false]
  unfold postState midStore extrasLeft preState
  by_cases hex : hasExtras (withHandlers (fromStorage P cfg.owned) cfg.selected cfg.reason now) (known cfg) cfg.reason = true
  · simp [hex]
  · simp [hex]

theorem cycle_not_handler_reason (cfg : Cfg) (P : Store) (now now1 : Tick) (exec : Id → Nat → Outcome)
    (hr : handlerReasons.contains cfg.reason = false) :
    cycle cfg P now now1 exec =
      { invoked := [],
        P' := if cfg.reason == "noop" then purge P (fromStorage P cfg.owned) cfg.owned cfg.owned else P,
        closed := false, delays := [] } := by
  unfold cycle
  simp only [hr, Bool.not_false, if_true]

/-- For an informational cause nothing is invoked, whatever the stored records are. -/
theorem cycle_not_handler_reason_invoked (cfg : Cfg) (P : Store) (now now1 : Tick) (exec : Id → Nat → Outcome)
    (hr : handlerReasons.contains cfg.reason = false) :
    (cycle cfg P now now1 exec).invoked = [] ∧ (cycle cfg P now now1 exec).closed = false := by
  rw [cycle_not_handler_reason cfg P now now1 exec hr]
  exact ⟨rfl, rfl⟩

/-- Informational causes other than the no-op leave the records alone. -/
theorem cycle_not_handler_reason_keeps (cfg : Cfg) (P : Store) (now now1 : Tick) (exec : Id → Nat → Outcome)
    (hr : handlerReasons.contains cfg.reason = false) (hn : (cfg.reason == "noop") = false) :
    (cycle cfg P now now1 exec).P' = P := by
  rw [cycle_not_handler_reason cfg P now now1 exec hr]
  simp [hn]

theorem cycle_no_handlers (cfg : Cfg) (P : Store) (now now1 : Tick) (exec : Id → Nat → Outcome)
    (hr : handlerReasons.contains cfg.reason = true) (he : cfg.selected.isEmpty = true) :
    cycle cfg P now now1 exec =
      { invoked := [], P' := purge (midStore cfg P now) (preState cfg P now) cfg.owned (known cfg),
        closed := true, delays := [] } := by
  unfold cycle
  simp only [hr, he, Bool.not_true, Bool.false_eq_true, if_false, if_true]
  unfold midStore extrasLeft preState
  by_cases hex : hasExtras (withHandlers (fromStorage P cfg.owned) cfg.selected cfg.reason now) (known cfg) cfg.reason = true
  · simp [hex]
  · simp [hex]

/-- execution touches only planned handlers -/
theorem postState_unplanned {cfg : Cfg} {st : St} {now now1 : Tick} {exec : Id → Nat → Outcome} {i : Id}
    (h : ∀ hs, st i = some hs → hs.r.awakened now = false) :
    (execOnce cfg st now now1 exec).st i = st i := by
  simp only [execOnce]
  split
  · rename_i hpl
    have := plan_sub _ _ _ i hpl
    simp only [List.mem_filter] at this
    cases hst : st i with
    | none => rfl
    | some hs => have := h hs hst; simp_all
  · rfl

end Kopf.C02

namespace Kopf.C02

theorem preState_active {cfg : Cfg} {P : Store} {now : Tick} {i : Id} {h : HS}
    (hs : preState cfg P now i = some h) : h.active = true ↔ i ∈ cfg.selected := by
  unfold preState at hs
  by_cases hsel : i ∈ cfg.selected
  · simp only [hsel, iff_true]
    by_cases hex : hasExtras (withHandlers (fromStorage P cfg.owned) cfg.selected cfg.reason now) (known cfg) cfg.reason = true
    · rw [if_pos hex] at hs
      simp only [repurpose, hsel, if_true, withHandlers] at hs
      cases hf : fromStorage P cfg.owned i <;> simp [hf] at hs <;> rw [← hs]
    · rw [if_neg hex] at hs
      simp only [withHandlers, hsel, if_true] at hs
      cases hf : fromStorage P cfg.owned i <;> simp [hf] at hs <;> rw [← hs]
  · simp only [hsel, iff_false]
    have : fromStorage P cfg.owned i = some h := by
      by_cases hex : hasExtras (withHandlers (fromStorage P cfg.owned) cfg.selected cfg.reason now) (known cfg) cfg.reason = true
      · rw [if_pos hex] at hs
        simpa [repurpose, hsel, withHandlers] using hs
      · rw [if_neg hex] at hs
        simpa [withHandlers, hsel] using hs
    unfold fromStorage at this
    by_cases ho : i ∈ cfg.owned
    · cases hP : P i <;> simp [ho, hP] at this
      rw [← this]; simp
    · simp [ho] at this

theorem postState_some {cfg : Cfg} {P : Store} {now now1 : Tick} {exec : Id → Nat → Outcome} {i : Id} {h : HS}
    (hs : postState cfg P now now1 exec i = some h) :
    ∃ h0, preState cfg P now i = some h0 ∧ h.active = h0.active := by
  unfold postState execOnce at hs
  simp only at hs
  split at hs
  · cases hp : preState cfg P now i with
    | none => simp [hp] at hs
    | some h0 => simp only [hp, Option.some.injEq] at hs; exact ⟨h0, rfl, by rw [← hs]⟩
  · exact ⟨h, hs, rfl⟩

theorem postState_of_pre {cfg : Cfg} {P : Store} {now now1 : Tick} {exec : Id → Nat → Outcome} {i : Id} {h0 : HS}
    (hs : preState cfg P now i = some h0) :
    ∃ h, postState cfg P now now1 exec i = some h ∧ h.active = h0.active := by
  unfold postState execOnce
  simp only
  split
  · simp only [hs]; exact ⟨_, rfl, rfl⟩
  · exact ⟨h0, hs, rfl⟩

/-- `state.done` ⇔ every selected handler has finished (inactive states do not count). -/
theorem done_iff {cfg : Cfg} {P : Store} {now now1 : Tick} {exec : Id → Nat → Outcome}
    (hsub : ∀ i ∈ cfg.selected, i ∈ cfg.owned) :
    done (postState cfg P now now1 exec) (known cfg) = true ↔
      ∀ i ∈ cfg.selected, ∃ h, postState cfg P now now1 exec i = some h ∧ h.r.finished = true := by
  unfold done
  rw [List.all_eq_true]
  constructor
  · intro hall i hsel
    have hk : i ∈ known cfg := by simp [known, hsel]
    obtain ⟨h0, hp0, ha0, _⟩ := preState_selected (P := P) (now := now) hsel (hsub i hsel)
    obtain ⟨h, hp, hact⟩ := postState_of_pre (now1 := now1) (exec := exec) hp0
    refine ⟨h, hp, ?_⟩
    have := hall i hk
    simp only [hp] at this
    rw [hact, ha0] at this
    simpa using this
  · intro hall i _
    cases hp : postState cfg P now now1 exec i with
    | none => rfl
    | some h =>
      simp only
      by_cases hact : h.active = true
      · obtain ⟨h0, hp0, hact0⟩ := postState_some hp
        have hsel : i ∈ cfg.selected := (preState_active hp0).1 (by rw [← hact0]; exact hact)
        obtain ⟨h', hp', hfin⟩ := hall i hsel
        rw [hp] at hp'
        cases hp'
        simp [hfin]
      · simp [hact]

end Kopf.C02

namespace Kopf.C02

theorem st0_purpose {cfg : Cfg} {P : Store} {now : Tick} (hsub : ∀ i ∈ cfg.selected, i ∈ cfg.owned)
    (hne : NoExtras cfg P) (i : Id) (h : HS)
    (hs : withHandlers (fromStorage P cfg.owned) cfg.selected cfg.reason now i = some h) :
    h.r.purpose = none ∨ h.r.purpose = some cfg.reason := by
  unfold withHandlers fromStorage at hs
  by_cases hsel : i ∈ cfg.selected
  · have ho := hsub i hsel
    cases hP : P i with
    | none => simp [hsel, ho, hP] at hs; rw [← hs]; simp [fresh]
    | some r => simp [hsel, ho, hP] at hs; rw [← hs]; exact hne i ho r hP
  · by_cases ho : i ∈ cfg.owned
    · cases hP : P i with
      | none => simp [hsel, ho, hP] at hs
      | some r => simp [hsel, ho, hP] at hs; rw [← hs]; exact hne i ho r hP
    · simp [hsel, ho] at hs

theorem noExtras_extras {cfg : Cfg} {P : Store} {now : Tick} (hsub : ∀ i ∈ cfg.selected, i ∈ cfg.owned)
    (hne : NoExtras cfg P) : extras cfg P now = false := by
  unfold extras hasExtras
  rw [List.any_eq_false]
  intro i _
  cases hs : withHandlers (fromStorage P cfg.owned) cfg.selected cfg.reason now i with
  | none => simp
  | some h =>
    rcases st0_purpose hsub hne i h hs with hp | hp <;> simp [hp]

theorem preState_noExtras {cfg : Cfg} {P : Store} {now : Tick} (hex : extras cfg P now = false) :
    preState cfg P now = withHandlers (fromStorage P cfg.owned) cfg.selected cfg.reason now := by
  unfold preState
  unfold extras at hex
  simp [hex]

theorem extrasLeft_noExtras {cfg : Cfg} {P : Store} {now : Tick} (hex : extras cfg P now = false) :
    extrasLeft cfg P now = false := by
  unfold extrasLeft
  rw [preState_noExtras hex]
  exact hex

theorem midStore_noExtras {cfg : Cfg} {P : Store} {now : Tick} (hex : extras cfg P now = false) :
    midStore cfg P now = P := by
  unfold midStore
  simp [extrasLeft_noExtras hex]

/-- with no extras, a stored record enters the pass unchanged and clean -/
theorem preState_stored {cfg : Cfg} {P : Store} {now : Tick} {i : Id} {r : Rec}
    (hex : extras cfg P now = false) (ho : i ∈ cfg.owned) (hP : P i = some r) :
    preState cfg P now i = some { r := r, active := decide (i ∈ cfg.selected), dirty := false } := by
  rw [preState_noExtras hex]
  unfold withHandlers fromStorage
  by_cases hsel : i ∈ cfg.selected <;> simp [hsel, ho, hP]

theorem store_clean {P : Store} {st : St} {i : Id} {h : HS} (hs : st i = some h) (hd : h.dirty = false) :
    store P st i = P i := by
  unfold store; simp [hs, hd]

end Kopf.C02

namespace Kopf.C02

/-- what execution leaves for an invoked handler -/
theorem postState_invoked {cfg : Cfg} {st : St} {now now1 : Tick} {exec : Id → Nat → Outcome}
    {i : Id} {n : Nat} (h : (i, n) ∈ (execOnce cfg st now now1 exec).invoked) :
    ∃ hs, st i = some hs ∧ n = hs.r.retries ∧
      (execOnce cfg st now now1 exec).st i = some { hs with r := withOutcome hs.r (exec i n) now1, dirty := true } := by
  simp only [execOnce, List.mem_map, List.mem_filter] at h
  obtain ⟨j, ⟨hjpl, hjok⟩, hjeq⟩ := h
  simp only [Prod.mk.injEq] at hjeq
  obtain ⟨rfl, rfl⟩ := hjeq
  cases hst : st j with
  | none => simp [hst] at hjok
  | some hs =>
    simp only [hst, Bool.not_eq_true'] at hjok
    refine ⟨hs, rfl, by simp [retriesOf, hst], ?_⟩
    simp only [execOnce, hjpl, if_true, hst, hjok, Bool.false_eq_true, if_false, retriesOf]

theorem withOutcome_finished (r : Rec) (o : Outcome) (t : Tick) :
    (withOutcome r o t).finished = o.final := by
  unfold withOutcome Rec.finished
  cases o.final <;> cases o.error <;> simp

theorem withOutcome_purpose (r : Rec) (o : Outcome) (t : Tick) :
    (withOutcome r o t).purpose = r.purpose := rfl

/-- every state's purpose after execution is what it was before -/
theorem execOnce_purpose {cfg : Cfg} {st : St} {now now1 : Tick} {exec : Id → Nat → Outcome} {i : Id} {h : HS}
    (hs : (execOnce cfg st now now1 exec).st i = some h) :
    ∃ h0, st i = some h0 ∧ h.r.purpose = h0.r.purpose := by
  simp only [execOnce] at hs
  split at hs
  · cases hst : st i with
    | none => simp [hst] at hs
    | some h0 =>
      simp only [hst, Option.some.injEq] at hs
      exact ⟨h0, rfl, by rw [← hs]; rfl⟩
  · exact ⟨h, hs, rfl⟩

end Kopf.C02

namespace Kopf.C02

/-- the pre-state of an owned handler that is not selected is its stored record, untouched -/
theorem preState_unselected {cfg : Cfg} {P : Store} {now : Tick} {i : Id} {r : Rec}
    (ho : i ∈ cfg.owned) (hs : i ∉ cfg.selected) (hP : P i = some r) :
    preState cfg P now i = some { r := r, active := false, dirty := false } := by
  unfold preState
  by_cases hx : hasExtras (withHandlers (fromStorage P cfg.owned) cfg.selected cfg.reason now) (known cfg) cfg.reason = true
  · simp [hx, repurpose, withHandlers, fromStorage, hs, ho, hP]
  · simp [hx, withHandlers, fromStorage, hs, ho, hP]

/-- whatever the superseded-cause purge leaves was there before … -/
theorem midStore_some {cfg : Cfg} {P : Store} {now : Tick} {i : Id} {r : Rec}
    (h : midStore cfg P now i = some r) : P i = some r := by
  unfold midStore at h
  by_cases hx : extrasLeft cfg P now = true
  · simp only [hx, if_true] at h
    unfold purgeFallen at h
    split at h
    · cases h
    · exact h
  · simpa [hx] using h

/-- … and, for a handler that is not selected, carries no other cause's purpose -/
theorem midStore_unselected_purpose {cfg : Cfg} {P : Store} {now : Tick} {i : Id} {r : Rec}
    (ho : i ∈ cfg.owned) (hs : i ∉ cfg.selected) (h : midStore cfg P now i = some r) :
    r.purpose = none ∨ r.purpose = some cfg.reason := by
  have hP := midStore_some h
  have hpre := preState_unselected (now := now) ho hs hP
  have hk : i ∈ known cfg := by simp [known, ho]
  unfold midStore at h
  by_cases hx : extrasLeft cfg P now = true
  · simp only [hx, if_true] at h
    unfold purgeFallen at h
    split at h
    · cases h
    · rename_i hnf
      have hnf1 : i ∉ fallen (preState cfg P now) (known cfg) cfg.reason := by
        intro hf; exact hnf (by simp [hf])
      unfold fallen at hnf1
      simp only [List.mem_filter, hk, true_and, hpre] at hnf1
      cases hp : r.purpose with
      | none => exact Or.inl rfl
      | some q => right; simp [hp] at hnf1; rw [hnf1]
  · have hx' : extrasLeft cfg P now = false := by simpa using hx
    unfold extrasLeft hasExtras at hx'
    rw [List.any_eq_false] at hx'
    have := hx' i hk
    rw [hpre] at this
    cases hp : r.purpose with
    | none => exact Or.inl rfl
    | some q => right; simp [hp] at this; rw [this]

end Kopf.C02
