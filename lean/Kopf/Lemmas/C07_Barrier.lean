/-
  C07 — helper lemmas for the barrier model: runs split at any point, the sleep's contract,
  and the ghost invariant `Cover` that carries the last own patch through arbitrarily many
  iterations and worker retirements.
-/
import Kopf.Model.C07_Barrier
namespace Kopf.C07

theorem exec_nil (T : Int) (c : Cfg) : exec T c [] = c := rfl

theorem exec_cons (T : Int) (c : Cfg) (st : Step) (l : List Step) :
    exec T c (st :: l) = exec T (next T c st) l := rfl

theorem exec_append (T : Int) (c : Cfg) (a b : List Step) :
    exec T c (a ++ b) = exec T (exec T c a) b := by
  simp [exec, List.foldl_append]

theorem wf_cons (T idle : Int) (c : Cfg) (st : Step) (l : List Step) :
    wf T idle c (st :: l) = (okStep idle c st && wf T idle (next T c st) l) := rfl

theorem wf_append (T idle : Int) : ∀ (a : List Step) (c : Cfg) (b : List Step),
    wf T idle c (a ++ b) = (wf T idle c a && wf T idle (exec T c a) b)
  | [], c, b => by simp [wf, exec_nil]
  | st :: a, c, b => by
    simp only [List.cons_append, wf_cons, exec_cons, wf_append T idle a (next T c st) b, Bool.and_assoc]

/-- `wf` of a run gives `okStep` of a step in the middle and `wf` of what follows. -/
theorem wf_split {T idle : Int} {c : Cfg} {a : List Step} {st : Step} {b : List Step}
    (h : wf T idle c (a ++ st :: b) = true) :
    wf T idle c a = true ∧ okStep idle (exec T c a) st = true ∧
      wf T idle (next T (exec T c a) st) b = true := by
  rw [wf_append, wf_cons] at h
  simp only [Bool.and_eq_true] at h
  exact ⟨h.1, h.2.1, h.2.2⟩

/-! ### the sleep -/

theorem sleepUntil_ge_now (d now : Int) (p : Bool) (w : Option Nat) (lag : Nat) :
    now ≤ (sleepUntil d now p w lag).tEnd := by
  unfold sleepUntil
  split
  · exact Int.le_refl _
  · split
    · exact Int.le_refl _
    · split
      · split <;> simp only <;> omega
      · simp only; omega

/-- `unslept is None` ⇒ the deadline has been reached. -/
theorem sleepUntil_timedOut {d now : Int} {p : Bool} {w : Option Nat} {lag : Nat}
    (h : (sleepUntil d now p w lag).timedOut = true) : d ≤ (sleepUntil d now p w lag).tEnd := by
  unfold sleepUntil at h ⊢
  by_cases h1 : d - now ≤ 0
  · simp only [h1, if_true]; omega
  · simp only [h1, if_false] at h ⊢
    cases p
    · simp only [Bool.false_eq_true, if_false] at h ⊢
      cases w with
      | none => simp only; omega
      | some w =>
        simp only at h ⊢
        by_cases h2 : now + (w : Int) < d
        · simp [h2] at h
        · simp only [h2, if_false]; omega
    · simp at h

/-- A wake-up before the deadline ends the sleep right then, not at the deadline. -/
theorem sleepUntil_woken {d now : Int} {p : Bool} {w lag : Nat} (h : now + w < d) :
    (sleepUntil d now p (some w) lag).timedOut = false ∧ (sleepUntil d now p (some w) lag).tEnd ≤ now + w := by
  unfold sleepUntil
  have h1 : ¬ (d - now ≤ 0) := by omega
  simp only [h1, if_false]
  cases p
  · simp [h]
  · simp only [if_true]; constructor
    · trivial
    · omega

/-! ### the processor -/

/-- Closed form of `process` (kopf's stage order unfolded) — a proof device only. -/
def processClosed (deadline : Option Int) (it : Iter) : Outcome :=
  let t0 : Int := it.now + it.dur
  let low := [(Stage.indexing, it.now), (Stage.watching, it.now), (Stage.spawning, t0)]
  let pre : Bool := deadline.isNone || it.gone
  let waiting : Bool := it.required && !pre && (match deadline with | some d => decide (d ≠ 0) | none => false)
  let past : Bool := waiting && (match deadline with | some d => decide (d ≤ t0) | none => false)
  let slept : Option Slept :=
    match deadline with
    | some d =>
      if waiting && !past && it.patchMid
      then some (sleepUntil d t0 it.pressure it.wake it.lag) else none
    | none => none
  let ach1 : Bool := past || (match slept with | some s => s.timedOut | none => pre)
  let achieved := ach1 && it.patchInit && !(it.required && deadline.isSome && it.paused)
  let tB : Int := match slept with | some s => s.tEnd | none => t0
  let ran := it.required && achieved
  let wait : Option Int :=
    if it.required && !achieved && !it.paused
    then (match deadline with
          | some d => some (max 0 (d - tB))
          | none => if !it.patchInit then some 0 else none)
    else none
  { given := deadline, low := low, slept := slept, achieved := achieved,
    held := it.required && !achieved, left := tB, wait := wait,
    entered := if ran then some tB else none,
    handlers := if ran && !it.gone then some tB else none }

theorem process_closed (dl : Option Int) (it : Iter) : process dl it = processClosed dl it := by
  cases dl with
  | none =>
    cases hr : it.required <;> cases hg : it.gone <;> cases hi : it.patchInit <;>
      simp [process, processIn, kopfOrder, runStages, stepStage, outcomeOf, PS.start, processClosed, hr, hg, hi]
  | some d =>
    cases hr : it.required <;> cases hg : it.gone <;> cases hm : it.patchMid <;> cases hi : it.patchInit <;>
      cases hz : it.paused <;>
      by_cases hd : d = 0 <;> by_cases hp : d ≤ it.now + (it.dur : Int) <;>
      simp [process, processIn, kopfOrder, runStages, stepStage, outcomeOf, PS.start, processClosed, hr, hg, hm, hi, hz, hd, hp]
    all_goals
      cases hto : (sleepUntil d (it.now + (it.dur : Int)) it.pressure it.wake it.lag).timedOut <;> simp [hto]

theorem process_given (dl : Option Int) (it : Iter) : (process dl it).given = dl := by
  rw [process_closed]; rfl

theorem process_low (dl : Option Int) (it : Iter) :
    (process dl it).low = [(Stage.indexing, it.now), (Stage.watching, it.now), (Stage.spawning, it.now + it.dur)] := by
  rw [process_closed]; rfl

theorem process_none (it : Iter) :
    (process none it).slept = none ∧ (process none it).achieved = it.patchInit ∧
      (process none it).held = (it.required && !it.patchInit) := by
  simp [process_closed, processClosed]

/-- The waiting delay of the early return, in terms of the other outputs: reported exactly by the held-back
    iterations of an operator that is not paused; what is left till the deadline when the consistency block is
    left (0 when it is over) while a version is awaited, else 0 (only a pending patch holds back then). -/
theorem process_wait (dl : Option Int) (it : Iter) :
    (process dl it).wait =
      if (process dl it).held && !it.paused
      then some (match dl with | some d => max 0 (d - (process dl it).left) | none => 0) else none := by
  rw [process_closed]
  cases dl with
  | some d => rfl
  | none =>
    unfold processClosed
    cases hr : it.required <;> cases hi : it.patchInit <;> cases hz : it.paused <;> simp [hr, hi, hz]

theorem process_held_eq (dl : Option Int) (it : Iter) :
    (process dl it).held = (it.required && !(process dl it).achieved) := by
  rw [process_closed]; rfl

theorem process_entered_eq (dl : Option Int) (it : Iter) :
    (process dl it).entered = if it.required && (process dl it).achieved then some (process dl it).left else none := by
  rw [process_closed]; rfl

/-- The early return was taken ⇒ `process_changing_cause` was not entered. -/
theorem process_held_entered {dl : Option Int} {it : Iter} (h : (process dl it).held = true) :
    (process dl it).entered = none := by
  rw [process_held_eq] at h
  rw [process_entered_eq]
  cases hr : it.required <;> cases ha : (process dl it).achieved <;> simp [hr, ha] at h ⊢

/-- `patch_initially_empty` is false exactly when something was carried over. -/
theorem patchInit_false_iff (it : Iter) : it.patchInit = false ↔ it.carried = true := by
  unfold Iter.patchInit
  cases it.carried <;> simp

/-- Handlers ran although a deadline was set ⇒ the deadline had been reached. -/
theorem process_handlers_deadline {d : Int} {it : Iter} {t : Int}
    (h : (process (some d) it).handlers = some t) : d ≤ t := by
  rw [process_closed] at h
  unfold processClosed at h
  cases hr : it.required <;> cases hg : it.gone <;> cases hm : it.patchMid <;> cases hi : it.patchInit <;>
    cases hz : it.paused <;>
    by_cases hd : d = 0 <;> by_cases hp : d ≤ it.now + (it.dur : Int) <;> simp [hr, hg, hm, hi, hz, hd, hp] at h
  all_goals first
    | (rw [← h]; exact hp)
    | (obtain ⟨h1, h2⟩ := h; rw [← h2]; exact sleepUntil_timedOut h1)

theorem process_handlers_ge_now {dl : Option Int} {it : Iter} {t : Int}
    (h : (process dl it).handlers = some t) : it.now ≤ t := by
  rw [process_closed] at h
  unfold processClosed at h
  cases dl with
  | none =>
    cases hr : it.required <;> cases hg : it.gone <;> cases hi : it.patchInit <;> simp [hr, hg, hi] at h
    omega
  | some d =>
    cases hr : it.required <;> cases hg : it.gone <;> cases hm : it.patchMid <;> cases hi : it.patchInit <;>
      cases hz : it.paused <;>
      by_cases hd : d = 0 <;> by_cases hp : d ≤ it.now + (it.dur : Int) <;> simp [hr, hg, hm, hi, hz, hd, hp] at h
    all_goals first
      | omega
      | (obtain ⟨_, h2⟩ := h; rw [← h2]; exact Int.le_trans (by omega) (sleepUntil_ge_now _ _ _ _ _))

/-- Handlers can only run inside `process_changing_cause`, and never for a GONE cause. -/
theorem process_entered_of_handlers {dl : Option Int} {it : Iter} {t : Int}
    (h : (process dl it).handlers = some t) : (process dl it).entered = some t ∧ it.gone = false := by
  rw [process_closed] at h ⊢
  unfold processClosed at h ⊢
  cases dl with
  | none =>
    cases hr : it.required <;> cases hg : it.gone <;> cases hi : it.patchInit <;> simp [hr, hg, hi] at h ⊢
    exact h
  | some d =>
    cases hr : it.required <;> cases hg : it.gone <;> cases hm : it.patchMid <;> cases hi : it.patchInit <;>
      cases hz : it.paused <;>
      by_cases hd : d = 0 <;> by_cases hp : d ≤ it.now + (it.dur : Int) <;> simp [hr, hg, hm, hi, hz, hd, hp] at h ⊢
    all_goals exact h

/-! ### the stage interpreter -/

theorem runStages_nil (dl : Option Int) (it : Iter) (ps : PS) : runStages [] dl it ps = ps := rfl

theorem runStages_cons (st : Stage) (order : List Stage) (dl : Option Int) (it : Iter) (ps : PS) :
    runStages (st :: order) dl it ps = runStages order dl it (stepStage dl it ps st) := rfl

theorem runStages_append (a b : List Stage) (dl : Option Int) (it : Iter) (ps : PS) :
    runStages (a ++ b) dl it ps = runStages b dl it (runStages a dl it ps) := by
  simp [runStages, List.foldl_append]

/-- Only the barrier stage reads `consistency_time`. -/
theorem stepStage_indep (dl dl' : Option Int) (it : Iter) (ps : PS) (st : Stage) (h : st ≠ Stage.barrier) :
    stepStage dl it ps st = stepStage dl' it ps st := by
  cases st <;> first | rfl | exact absurd rfl h

theorem runStages_indep (dl dl' : Option Int) (it : Iter) : ∀ (order : List Stage) (ps : PS),
    Stage.barrier ∉ order → runStages order dl it ps = runStages order dl' it ps
  | [], _, _ => rfl
  | st :: order, ps, h => by
    have h1 : st ≠ Stage.barrier := fun e => h (by rw [e]; exact List.mem_cons_self ..)
    have h2 : Stage.barrier ∉ order := fun e => h (List.mem_cons_of_mem _ e)
    rw [runStages_cons, runStages_cons, stepStage_indep dl dl' it ps st h1]
    exact runStages_indep dl dl' it order _ h2

/-- The log of low-level stages only grows: what was logged stays a prefix. -/
theorem stepStage_low_prefix (dl : Option Int) (it : Iter) (ps : PS) (st : Stage) :
    ∃ tail, (stepStage dl it ps st).low = ps.low ++ tail := by
  cases st
  · exact ⟨[(Stage.indexing, ps.clock)], rfl⟩
  · exact ⟨[(Stage.watching, ps.clock)], rfl⟩
  · exact ⟨[(Stage.spawning, ps.clock)], rfl⟩
  · exact ⟨[], by simp [stepStage]⟩
  · refine ⟨[], ?_⟩
    simp only [stepStage, List.append_nil]
    split <;> rfl

theorem runStages_low_prefix (dl : Option Int) (it : Iter) : ∀ (order : List Stage) (ps : PS),
    ∃ tail, (runStages order dl it ps).low = ps.low ++ tail
  | [], ps => ⟨[], by simp [runStages_nil]⟩
  | st :: order, ps => by
    obtain ⟨t1, h1⟩ := stepStage_low_prefix dl it ps st
    obtain ⟨t2, h2⟩ := runStages_low_prefix dl it order (stepStage dl it ps st)
    exact ⟨t1 ++ t2, by rw [runStages_cons, h2, h1, List.append_assoc]⟩

/-- The clock never runs backwards through the stages. -/
theorem stepStage_clock_mono (dl : Option Int) (it : Iter) (ps : PS) (st : Stage) :
    ps.clock ≤ (stepStage dl it ps st).clock := by
  cases st
  · exact Int.le_refl _
  · simp only [stepStage]; omega
  · exact Int.le_refl _
  · simp only [stepStage]
    cases dl with
    | none => exact Int.le_refl _
    | some d =>
      simp only [Option.isNone_some]
      split
      · rename_i s hs
        split at hs
        · cases hs; exact sleepUntil_ge_now _ _ _ _ _
        · cases hs
      · exact Int.le_refl _
  · simp only [stepStage]; split <;> exact Int.le_refl _

/-- Structural fact of the model: for ANY stage order in which the barrier comes after a block `lows`,
    everything `lows` does (stages entered, when, the clock it leaves) is the same for every
    `consistency_time`, and stays the beginning of the final log. -/
theorem stages_before_barrier_independent (lows rest : List Stage) (hl : Stage.barrier ∉ lows)
    (dl dl' : Option Int) (it : Iter) :
    runStages lows dl it (PS.start it) = runStages lows dl' it (PS.start it) ∧
    ∃ tail, (processIn (lows ++ Stage.barrier :: rest) dl it).low
              = (runStages lows none it (PS.start it)).low ++ tail := by
  refine ⟨runStages_indep dl dl' it lows _ hl, ?_⟩
  obtain ⟨tail, ht⟩ := runStages_low_prefix dl it (Stage.barrier :: rest) (runStages lows dl it (PS.start it))
  refine ⟨tail, ?_⟩
  show (runStages (lows ++ Stage.barrier :: rest) dl it (PS.start it)).low = _
  rw [runStages_append, ht, runStages_indep dl none it lows _ hl]

/-- … and it is false for a processor that sleeps first. -/
theorem barrier_first_delays_witness :
    ∃ (it : Iter) (dl : Option Int),
      (processIn [Stage.barrier, .indexing, .watching, .spawning, .changing] dl it).low
        ≠ (processIn [Stage.barrier, .indexing, .watching, .spawning, .changing] none it).low :=
  ⟨{ ver := some ⟨104, false⟩, now := 110, dur := 0, pressure := false, wake := none, lag := 0, gone := false,
     required := true, patchMid := true, patched := none, tp := 423, tret := 423 },
   some 423, by decide⟩

/-! ### worker steps -/

theorem arrive_cases (s : WState) (v : Option Ver) :
    (arrive s v = WState.init ∧ s.expected ≠ none ∧ v = s.expected) ∨ (arrive s v = s ∧ (s.expected = none ∨ v ≠ s.expected)) := by
  unfold arrive
  cases he : s.expected with
  | none => right; simp
  | some e =>
    by_cases hv : v = some e
    · left; simp [hv]
    · right; simp [hv]

theorem arrive_init (v : Option Ver) : arrive WState.init v = WState.init := rfl

theorem stepEvent_state_nopatch {T : Int} {s : WState} {it : Iter} (h : it.patched = none) :
    (stepEvent T s it).1 = arrive s it.ver := by
  simp [stepEvent, feedback, h]

theorem stepEvent_state_patch {T : Int} {s : WState} {it : Iter} {p : Ver} (h : it.patched = some p)
    (hT : T ≠ 0) (hne : some p ≠ it.ver) :
    (stepEvent T s it).1 = { expected := some p, deadline := some (it.tret + T) } := by
  simp [stepEvent, feedback, h, hT, hne]

/-- A PATCH that changed nothing (the returned version is the one just processed) arms nothing. -/
theorem stepEvent_state_noop {T : Int} {s : WState} {it : Iter} {p : Ver} (h : it.patched = some p)
    (heq : it.ver = some p) : (stepEvent T s it).1 = arrive s it.ver := by
  simp [stepEvent, feedback, h, heq]

/-- After an iteration the worker's locals are either what the arrival left, or freshly armed. -/
theorem stepEvent_state_cases (T : Int) (s : WState) (it : Iter) :
    (stepEvent T s it).1 = arrive s it.ver ∨
    ∃ p, it.patched = some p ∧ T ≠ 0 ∧ some p ≠ it.ver ∧
      (stepEvent T s it).1 = { expected := some p, deadline := some (it.tret + T) } := by
  cases hp : it.patched with
  | none => exact Or.inl (by simp [stepEvent, feedback, hp])
  | some p =>
    by_cases hT : T = 0
    · exact Or.inl (by simp [stepEvent, feedback, hp, hT])
    · by_cases hne : some p = it.ver
      · exact Or.inl (stepEvent_state_noop hp hne.symm)
      · exact Or.inr ⟨p, rfl, hT, hne, by simp [stepEvent, feedback, hp, hT, hne]⟩

theorem stepEvent_state_T0 {s : WState} {it : Iter} :
    (stepEvent 0 s it).1 = arrive s it.ver := by
  unfold stepEvent feedback
  cases it.patched <;> simp

theorem okStep_event {idle : Int} {c : Cfg} {it : Iter} (h : okStep idle c (.event it) = true) :
    c.clock ≤ it.now ∧ it.now ≤ it.tret ∧ it.tp ≤ it.tret ∧ it.now ≤ it.tp := by
  simpa [okStep, Bool.and_eq_true, and_assoc] using h

theorem okStep_retire {idle : Int} {c : Cfg} {t : Int} (h : okStep idle c (.retire t) = true) :
    c.clock ≤ t ∧ c.clock + idleTimeout idle c.s.deadline c.clock ≤ t := by
  simpa [okStep, Bool.and_eq_true] using h

theorem idleTimeout_deadline (idle d now : Int) : d - now ≤ idleTimeout idle (some d) now := by
  unfold idleTimeout
  exact Int.le_max_right _ _

theorem clock_mono_next {T idle : Int} {c : Cfg} {st : Step} (h : okStep idle c st = true) :
    c.clock ≤ (next T c st).clock := by
  cases st with
  | event it => have := okStep_event h; simp only [next]; omega
  | retire t => have := okStep_retire h; simp only [next]; omega
  | background q t => exact Int.le_refl _

theorem clock_mono_exec {T idle : Int} : ∀ (l : List Step) (c : Cfg), wf T idle c l = true →
    c.clock ≤ (exec T c l).clock
  | [], c, _ => Int.le_refl _
  | st :: l, c, h => by
    rw [wf_cons, Bool.and_eq_true] at h
    rw [exec_cons]
    exact Int.le_trans (clock_mono_next h.1) (clock_mono_exec l _ h.2)

/-! ### the ghost invariant -/

/-- The last own patch `(p, tp)` is *covered* in configuration `c`: its version has been dequeued
    (`seen`), or the timeout has elapsed on the worker's clock, or the worker still expects `p`
    with a deadline at or after `tp + T`. -/
def Cover (T : Int) (c : Cfg) (p : Ver) (tp : Int) (seen : Prop) : Prop :=
  seen ∨ tp + T ≤ c.clock ∨ (c.s.expected = some p ∧ ∃ d, c.s.deadline = some d ∧ tp + T ≤ d)

theorem cover_after_patch {T idle : Int} {c : Cfg} {k : Iter} {p : Ver}
    (hok : okStep idle c (.event k) = true) (hk : k.patched = some p) :
    Cover T (next T c (.event k)) p k.tp (k.ver = some p) := by
  have ht := okStep_event hok
  by_cases hT : T = 0
  · right; left; subst hT; simp only [next]; omega
  · by_cases hne : some p = k.ver
    · exact Or.inl hne.symm
    · right; right
      have hs : (next T c (.event k)).s = { expected := some p, deadline := some (k.tret + T) } :=
        stepEvent_state_patch hk hT hne
      rw [hs]
      exact ⟨rfl, k.tret + T, rfl, by omega⟩

theorem cover_next {T idle : Int} {c : Cfg} {st : Step} {p : Ver} {tp : Int} {seen : Prop}
    (hc : Cover T c p tp seen) (hok : okStep idle c st = true) (hnp : st.patched = none) :
    Cover T (next T c st) p tp (seen ∨ st.ver = some p) := by
  have hmono := clock_mono_next (T := T) hok
  rcases hc with hs | hclk | ⟨he, d, hd, hle⟩
  · exact Or.inl (Or.inl hs)
  · exact Or.inr (Or.inl (Int.le_trans hclk hmono))
  · cases st with
    | event it =>
      have hnp' : it.patched = none := hnp
      simp only [next, stepEvent_state_nopatch hnp']
      rcases arrive_cases c.s it.ver with ⟨_, _, hv⟩ | ⟨hst, _⟩
      · left; right; simp only [Step.ver]; rw [hv, he]
      · right; right; rw [hst]; exact ⟨he, d, hd, hle⟩
    | retire t =>
      have := okStep_retire hok
      have h2 := idleTimeout_deadline idle d c.clock
      rw [hd] at this
      right; left; simp only [next]; omega
    | background q t => exact Or.inr (Or.inr ⟨he, d, hd, hle⟩)

theorem cover_exec {T idle : Int} {p : Ver} {tp : Int} : ∀ (l : List Step) (c : Cfg) (seen : Prop),
    Cover T c p tp seen → wf T idle c l = true → (∀ st ∈ l, st.patched = none) →
    Cover T (exec T c l) p tp (seen ∨ some p ∈ l.map Step.ver)
  | [], c, seen, hc, _, _ => by
    rcases hc with h | h | h
    · exact Or.inl (Or.inl h)
    · exact Or.inr (Or.inl h)
    · exact Or.inr (Or.inr h)
  | st :: l, c, seen, hc, hwf, hnp => by
    rw [wf_cons, Bool.and_eq_true] at hwf
    have h1 := cover_next hc hwf.1 (hnp st (List.mem_cons_self ..))
    have h2 := cover_exec l _ _ h1 hwf.2 (fun s hs => hnp s (List.mem_cons_of_mem _ hs))
    rw [exec_cons]
    rcases h2 with h | h | h
    · left
      rcases h with (h | h) | h
      · exact Or.inl h
      · right; simp only [List.map_cons, List.mem_cons]; exact Or.inl h.symm
      · right; simp only [List.map_cons, List.mem_cons]; exact Or.inr h
    · exact Or.inr (Or.inl h)
    · exact Or.inr (Or.inr h)

theorem cover_handlers {T : Int} {c : Cfg} {it : Iter} {p : Ver} {tp t : Int} {seen : Prop}
    (hc : Cover T c p tp seen) (hclk : c.clock ≤ it.now)
    (hh : (outcomeAt T c it).handlers = some t) :
    seen ∨ it.ver = some p ∨ tp + T ≤ t := by
  have hnow : it.now ≤ t := process_handlers_ge_now (dl := (arrive c.s it.ver).deadline) hh
  rcases hc with hs | hck | ⟨he, d, hd, hle⟩
  · exact Or.inl hs
  · right; right; omega
  · rcases arrive_cases c.s it.ver with ⟨_, _, hv⟩ | ⟨hst, _⟩
    · right; left; rw [hv, he]
    · right; right
      have hh' : (process (arrive c.s it.ver).deadline it).handlers = some t := hh
      rw [hst, hd] at hh'
      have := process_handlers_deadline hh'
      omega

/-- A list of steps either contains no patch, or has a last patching iteration. -/
theorem last_patch_split : ∀ (l : List Step), (∀ st ∈ l, st.patched = none) ∨
    ∃ (a : List Step) (x : Iter) (q : Ver) (b : List Step),
      l = a ++ .event x :: b ∧ x.patched = some q ∧ ∀ st ∈ b, st.patched = none
  | [] => Or.inl (by intro st h; cases h)
  | st :: l => by
    rcases last_patch_split l with hnone | ⟨a, x, q, b, hl, hx, hb⟩
    · cases hp : st.patched with
      | none =>
        left
        intro s hs
        rcases List.mem_cons.mp hs with h | h
        · rw [h]; exact hp
        · exact hnone s h
      | some q =>
        right
        cases st with
        | event x => exact ⟨[], x, q, l, rfl, hp, hnone⟩
        | retire t => cases hp
        | background q' t => cases hp
    · right
      exact ⟨st :: a, x, q, b, by rw [hl]; rfl, hx, hb⟩

/-! ### deadlines -/

theorem deadline_bound_next {T idle : Int} {c : Cfg} {st : Step} (hok : okStep idle c st = true)
    (hI : ∀ d, c.s.deadline = some d → d ≤ c.clock + T) :
    ∀ d, (next T c st).s.deadline = some d → d ≤ (next T c st).clock + T := by
  intro d hd
  cases st with
  | event it =>
    have ht := okStep_event hok
    simp only [next] at hd ⊢
    rcases stepEvent_state_cases T c.s it with h0 | ⟨p, _, _, _, h0⟩
    · rw [h0] at hd
      rcases arrive_cases c.s it.ver with ⟨h, _, _⟩ | ⟨h, _⟩
      · rw [h] at hd; cases hd
      · rw [h] at hd; have := hI d hd; omega
    · rw [h0] at hd
      simp only [Option.some.injEq] at hd
      omega
  | retire t => simp [next, WState.init] at hd
  | background q t => exact hI d hd

theorem deadline_bound_exec {T idle : Int} : ∀ (l : List Step) (c : Cfg), wf T idle c l = true →
    (∀ d, c.s.deadline = some d → d ≤ c.clock + T) →
    ∀ d, (exec T c l).s.deadline = some d → d ≤ (exec T c l).clock + T
  | [], _, _, hI => hI
  | st :: l, c, h, hI => by
    rw [wf_cons, Bool.and_eq_true] at h
    rw [exec_cons]
    exact deadline_bound_exec l _ h.2 (deadline_bound_next h.1 hI)

/-- A later deadline is either the same one or lies at least `T` after the present clock. -/
theorem deadline_later {T idle : Int} : ∀ (l : List Step) (c : Cfg), wf T idle c l = true →
    ∀ d', (exec T c l).s.deadline = some d' → c.s.deadline = some d' ∨ c.clock + T ≤ d'
  | [], _, _, _, h => Or.inl h
  | st :: l, c, h, d', hd' => by
    rw [wf_cons, Bool.and_eq_true] at h
    rw [exec_cons] at hd'
    have hm := clock_mono_next (T := T) h.1
    rcases deadline_later l _ h.2 d' hd' with h1 | h1
    · cases st with
      | event it =>
        have ht := okStep_event h.1
        simp only [next] at h1
        rcases stepEvent_state_cases T c.s it with h0 | ⟨p, _, _, _, h0⟩
        · rw [h0] at h1
          rcases arrive_cases c.s it.ver with ⟨h2, _, _⟩ | ⟨h2, _⟩
          · rw [h2] at h1; cases h1
          · rw [h2] at h1; exact Or.inl h1
        · rw [h0] at h1
          simp only [Option.some.injEq] at h1
          right; omega
      | retire t => simp [next, WState.init] at h1
      | background q t => exact Or.inl h1
    · right; omega

/-! ### T = 0 -/

theorem disabled_next (c : Cfg) (st : Step) (h : c.s = WState.init) : (next 0 c st).s = WState.init := by
  cases st with
  | event it => simp only [next, stepEvent_state_T0, h, arrive_init]
  | retire t => rfl
  | background q t => exact h

theorem disabled_exec : ∀ (l : List Step) (c : Cfg), c.s = WState.init → (exec 0 c l).s = WState.init
  | [], _, h => h
  | st :: l, c, h => by rw [exec_cons]; exact disabled_exec l _ (disabled_next c st h)

end Kopf.C07
