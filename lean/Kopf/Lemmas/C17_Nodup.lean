/-
  C17 helper lemmas, part 7: the association lists really are Python dicts — keys stay unique in
  the forward map, in every store and in the reverse map, through every operation.
-/
import Kopf.Lemmas.C17_Step
namespace Kopf.C17

section AL
variable {α β : Type} [DecidableEq α]

theorem mem_keys_aset (k x : α) (v : β) (l : List (α × β)) :
    x ∈ (aset k v l).map Prod.fst ↔ x = k ∨ x ∈ l.map Prod.fst := by
  induction l with
  | nil => simp [aset]
  | cons p r ih =>
    obtain ⟨k', v'⟩ := p
    by_cases h : k' = k
    · subst h; simp [aset]
    · simp only [aset, h, if_false, List.map_cons, List.mem_cons, ih]
      constructor
      · rintro (h1 | h1 | h1)
        · exact Or.inr (Or.inl h1)
        · exact Or.inl h1
        · exact Or.inr (Or.inr h1)
      · rintro (h1 | h1 | h1)
        · exact Or.inr (Or.inl h1)
        · exact Or.inl h1
        · exact Or.inr (Or.inr h1)

theorem keys_aset_nodup (k : α) (v : β) (l : List (α × β)) (h : (l.map Prod.fst).Nodup) :
    ((aset k v l).map Prod.fst).Nodup := by
  induction l with
  | nil => simp [aset]
  | cons p r ih =>
    obtain ⟨k', v'⟩ := p
    simp only [List.map_cons, List.nodup_cons] at h
    by_cases hk : k' = k
    · subst hk
      simp only [aset, if_true, List.map_cons, List.nodup_cons]
      exact h
    · simp only [aset, hk, if_false, List.map_cons, List.nodup_cons]
      refine ⟨?_, ih h.2⟩
      rw [mem_keys_aset]
      rintro (h1 | h1)
      · exact hk h1
      · exact h.1 h1

theorem mem_aset {k : α} {v : β} {l : List (α × β)} {p : α × β} (h : p ∈ aset k v l) :
    p = (k, v) ∨ p ∈ l := by
  induction l with
  | nil => simp [aset] at h; exact Or.inl h
  | cons q r ih =>
    obtain ⟨k', v'⟩ := q
    by_cases hk : k' = k
    · simp only [aset, hk, if_true, List.mem_cons] at h
      rcases h with h | h
      · exact Or.inl h
      · exact Or.inr (by simp [h])
    · simp only [aset, hk, if_false, List.mem_cons] at h
      rcases h with h | h
      · exact Or.inr (by simp [h])
      · rcases ih h with h1 | h1
        · exact Or.inl h1
        · exact Or.inr (by simp [h1])

theorem adel_sublist (k : α) (l : List (α × β)) : (adel k l).Sublist l := by
  induction l with
  | nil => exact List.Sublist.slnil
  | cons q r ih =>
    obtain ⟨k', v'⟩ := q
    by_cases hk : k' = k
    · simp only [adel, hk, if_true]; exact List.Sublist.cons _ ih
    · simp only [adel, hk, if_false]; exact List.Sublist.cons₂ _ ih

theorem keys_adel_nodup (k : α) (l : List (α × β)) (h : (l.map Prod.fst).Nodup) :
    ((adel k l).map Prod.fst).Nodup :=
  List.Nodup.sublist (List.Sublist.map _ (adel_sublist k l)) h

theorem mem_adel {k : α} {l : List (α × β)} {p : α × β} (h : p ∈ adel k l) : p ∈ l :=
  (adel_sublist k l).subset h

theorem mem_of_aget {k : α} {v : β} {l : List (α × β)} (h : aget k l = some v) : (k, v) ∈ l := by
  induction l with
  | nil => simp at h
  | cons q r ih =>
    obtain ⟨k', v'⟩ := q
    by_cases hk : k' = k
    · subst hk; simp [aget] at h; simp [h]
    · simp [aget, hk] at h; simp [ih h]

end AL

section Idx
variable {K V O : Type} [DecidableEq K] [DecidableEq O]

theorem Index.nd_empty : (Index.empty : Index K V O).ND := ⟨by simp [Index.empty], by simp [Index.empty], by simp [Index.empty]⟩

theorem discardKeys_nd (o : O) (ks : List K) : ∀ (ix ix' : Index K V O), ix.ND →
    discardKeys o ks ix = some ix' → ix'.ND := by
  induction ks with
  | nil => intro ix ix' h he; simp [discardKeys] at he; subst he; exact h
  | cons k ks ih =>
    intro ix ix' h he
    simp only [discardKeys] at he
    cases hst : aget k ix.items with
    | none => simp [hst] at he
    | some st =>
      cases hr : aget o ix.reverse with
      | none => simp [hst, hr] at he
      | some rk =>
        simp only [hst, hr] at he
        refine ih _ ix' ?_ he
        have hstnd : (st.map Prod.fst).Nodup := h.stores k st (mem_of_aget hst)
        refine ⟨?_, ?_, keys_aset_nodup _ _ _ h.reverse⟩
        · show ((if (adel o st).isEmpty then adel k ix.items else aset k (adel o st) ix.items).map Prod.fst).Nodup
          split
          · exact keys_adel_nodup _ _ h.items
          · exact keys_aset_nodup _ _ _ h.items
        · intro k' st' hm
          have hm' : (k', st') ∈ (if (adel o st).isEmpty then adel k ix.items else aset k (adel o st) ix.items) := hm
          split at hm'
          · exact h.stores k' st' (mem_adel hm')
          · rcases mem_aset hm' with h1 | h1
            · cases h1
              exact keys_adel_nodup _ _ hstnd
            · exact h.stores k' st' h1

theorem Index.discard_nd (o : O) (keys : Option (List K)) (ix ix' : Index K V O) (h : ix.ND)
    (he : ix.discard o keys = some ix') : ix'.ND := by
  unfold Index.discard at he
  cases hr : aget o ix.reverse with
  | none => simp [hr] at he; subst he; exact h
  | some rk =>
    simp only [hr] at he
    obtain ⟨ks, hks⟩ : ∃ ks, ks = (match keys with | some ks => ks | none => rk) := ⟨_, rfl⟩
    have he' : (match discardKeys o ks ix with
      | none => none
      | some ix' =>
        match aget o ix'.reverse with
        | none => none
        | some r => if r.isEmpty = true then some { ix' with reverse := adel o ix'.reverse } else some ix') = some ix' := by
      rw [hks]; cases keys <;> exact he
    clear he
    have he := he'
    cases hd : discardKeys o ks ix with
    | none => simp [hd] at he
    | some ix1 =>
      have h1 := discardKeys_nd o _ ix ix1 h hd
      simp only [hd] at he
      cases hr1 : aget o ix1.reverse with
      | none => simp [hr1] at he
      | some r =>
        simp only [hr1] at he
        by_cases hre : r.isEmpty = true
        · simp only [hre, if_true, Option.some.injEq] at he
          subst he
          exact ⟨h1.items, h1.stores, keys_adel_nodup _ _ h1.reverse⟩
        · simp only [hre, Bool.false_eq_true, if_false, Option.some.injEq] at he
          subst he; exact h1

theorem replaceLoop_nd (o : O) (m : List (K × V)) :
    ∀ (items : List (K × Store O V)) (rev : List K),
      (items.map Prod.fst).Nodup → (∀ k st, (k, st) ∈ items → (st.map Prod.fst).Nodup) →
      ((replaceLoop o m (items, rev)).1.map Prod.fst).Nodup ∧
      (∀ k st, (k, st) ∈ (replaceLoop o m (items, rev)).1 → (st.map Prod.fst).Nodup) := by
  induction m with
  | nil => intro items rev h1 h2; exact ⟨h1, h2⟩
  | cons p rest ih =>
    obtain ⟨k0, v0⟩ := p
    intro items rev h1 h2
    simp only [replaceLoop]
    apply ih
    · exact keys_aset_nodup _ _ _ h1
    · intro k st hm
      rcases mem_aset hm with h3 | h3
      · cases h3
        have hst : ((match aget k0 items with | some st => st | none => ([] : Store O V)).map Prod.fst).Nodup := by
          cases hg : aget k0 items with
          | none => simp
          | some st0 => exact h2 k0 st0 (mem_of_aget hg)
        unfold Store.replace
        exact keys_aset_nodup _ _ _ hst
      · exact h2 k st h3

theorem Index.replace_nd (o : O) (m : List (K × V)) (ix ix' : Index K V O)
    (h : ix.ND) (he : ix.replace o m = some ix') : ix'.ND := by
  unfold Index.replace at he
  refine Index.discard_nd o _ _ ix' ?_ he
  obtain ⟨a, b⟩ := replaceLoop_nd o m ix.items
    (match aget o ix.reverse with | some r => r | none => []) h.items h.stores
  exact ⟨a, b, keys_aset_nodup _ _ _ h.reverse⟩

end Idx

section Step
variable {Id Res L K V O : Type} [DecidableEq Id] [DecidableEq Res] [DecidableEq L]
  [DecidableEq K] [DecidableEq O]

theorem foldUpd_pres (P : Index (Option K) V O → Prop)
    (f : Id → Index (Option K) V O → Option (Index (Option K) V O))
    (hf : ∀ i ix ix', P ix → f i ix = some ix' → P ix') (ids : List Id) :
    ∀ ixs ixs', (∀ i, P (ixs i)) → foldUpd f ids ixs = some ixs' → ∀ i, P (ixs' i) := by
  induction ids with
  | nil => intro ixs ixs' h he; simp [foldUpd] at he; subst he; exact h
  | cons i rest ih =>
    intro ixs ixs' h he
    simp only [foldUpd] at he
    cases hfi : f i (ixs i) with
    | none => simp [hfi] at he
    | some ix1 =>
      simp only [hfi] at he
      refine ih _ ixs' ?_ he
      intro j
      by_cases hj : j = i
      · subst hj; rw [upd_same]; exact hf j _ _ (h j) hfi
      · rw [upd_other _ _ _ hj]; exact h j

theorem applyOutcome_nd (o : O) (out : Outcome K V) (ix ix' : Index (Option K) V O)
    (hp : ix.ND) (hq : applyOutcome o out ix = some ix') : ix'.ND := by
  unfold applyOutcome at hq
  by_cases hx : out.exception = true
  · simp only [hx, if_true] at hq
    exact Index.discard_nd _ _ ix ix' hp hq
  · simp only [hx] at hq
    cases hr : out.result with
    | none => simp [hr] at hq; subst hq; exact hp
    | some m => simp only [hr] at hq; exact Index.replace_nd _ _ ix ix' hp hq

theorem replaceAll_nd (ids : List Id) (o : O) (outs : List (Id × Outcome K V))
    (ixs ixs' : Id → Index (Option K) V O) (h : ∀ i, (ixs i).ND)
    (he : replaceAll ids o outs ixs = some ixs') : ∀ i, (ixs' i).ND := by
  unfold replaceAll at he
  cases h1 : foldUpd (loop1 o outs) (outs.map Prod.fst) ixs with
  | none => simp [h1] at he
  | some ixs1 =>
    simp only [h1] at he
    have hnd1 : ∀ i, (ixs1 i).ND := by
      refine foldUpd_pres Index.ND _ ?_ _ _ _ h h1
      intro i ix ix' hp hq
      unfold loop1 at hq
      cases hg : aget i outs with
      | none => simp [hg] at hq; subst hq; exact hp
      | some out => simp only [hg] at hq; exact applyOutcome_nd o out ix ix' hp hq
    refine foldUpd_pres Index.ND _ ?_ _ _ _ hnd1 he
    intro i ix ix' hp hq
    unfold loop2 at hq
    by_cases hs : (aget i outs).isSome = true
    · simp only [hs, if_true, Option.some.injEq] at hq; subst hq; exact hp
    · rw [if_neg hs] at hq
      exact Index.discard_nd _ _ ix ix' hp hq

theorem step_nd (cfg : List (Indexer Id Res L)) (bk : Nat) (s s' : State Id K V O)
    (e : Event Id Res L K V O) (h : s.NDAll) (he : step cfg bk s e = some s') : s'.NDAll := by
  unfold step at he
  by_cases hh : cfg.any (fun c => decide (c.res = e.res)) = true
  · simp only [hh, Bool.not_true, Bool.false_eq_true, if_false] at he
    by_cases hd : e.deleted = true
    · simp only [hd, if_true] at he
      cases hda : discardAll (cfg.map (·.id)) e.obj s.ixs with
      | none => simp [hda] at he
      | some ixs' =>
        simp only [hda, Option.some.injEq] at he
        subst he
        exact foldUpd_pres Index.ND _ (fun _ ix ix' hp hq => Index.discard_nd _ _ ix ix' hp hq) _ _ _ h hda
    · have hd' : e.deleted = false := by simpa using hd
      simp only [hd', Bool.false_eq_true, if_false] at he
      obtain ⟨outs, houts⟩ : ∃ outs : List (Id × Outcome K V), outs =
          ((cfg.filter (fun c => c.selects e)).filter
            (fun c => (hstateOf e.t (s.mem e.obj) c.id).awake e.t)).map
            (fun c => (c.id, execOne c bk e.t (hstateOf e.t (s.mem e.obj) c.id) (e.script c.id))) := ⟨_, rfl⟩
      rw [← houts] at he
      cases hrep : replaceAll (cfg.map (·.id)) e.obj outs s.ixs with
      | none => simp [hrep] at he
      | some ixs' =>
        simp only [hrep, Option.some.injEq] at he
        subst he
        exact replaceAll_nd _ _ _ _ _ h hrep
  · have hh' : cfg.any (fun c => decide (c.res = e.res)) = false := by simpa using hh
    simp only [hh', Bool.not_false, if_true, Option.some.injEq] at he
    subst he
    exact h

theorem run_nd (cfg : List (Indexer Id Res L)) (bk : Nat)
    (evs : List (Event Id Res L K V O)) : ∀ (s s' : State Id K V O), s.NDAll →
    run cfg bk s evs = some s' → s'.NDAll := by
  induction evs with
  | nil => intro s s' h he; simp [run] at he; subst he; exact h
  | cons e es ih =>
    intro s s' h he
    simp only [run] at he
    cases hs : step cfg bk s e with
    | none => simp [hs] at he
    | some s1 =>
      simp only [hs] at he
      exact ih s1 s' (step_nd cfg bk s s1 e h hs) he

end Step
end Kopf.C17
