/-
  C20 — helper lemmas about the orchestrator's bookkeeping of its done-callbacks (`Kopf.Model.C20_Monitor`):
  the invariant of the by-task bookkeeping (the current tree).
-/
import Kopf.Model.C20_Monitor
namespace Kopf.C20.Monitor

/-- the bookkeeping IS the set of the current task objects, and every one of them carries the callback -/
def Inv (s : St) : Prop := s.monTasks = s.tasks.map (·.2) ∧ ∀ t, t ∈ s.monTasks → t ∈ s.cbs

theorem inv_init : Inv init := ⟨rfl, fun _ h => by cases h⟩

theorem adjust_inv {s : St} (h : Inv s) (d a : List Key) : Inv (adjust true s d a) := by
  unfold adjust
  cases hsp : spawn (terminate s.tasks d) s.next a with
  | mk ts n =>
    refine ⟨rfl, ?_⟩
    intro t ht
    simp only [if_true, List.mem_append, List.mem_filter]
    by_cases hm : t ∈ s.monTasks
    · exact Or.inl (h.2 t hm)
    · exact Or.inr ⟨ht, by simp [hm]⟩

theorem run_inv : ∀ (ops : List (List Key × List Key)) {s : St}, Inv s → Inv (run true s ops)
  | [], _, h => h
  | (d, a) :: rest, _, h => run_inv rest (adjust_inv h d a)

theorem inv_escalates {s : St} (h : Inv s) (k : Key) : escalates s k = true := by
  unfold escalates
  rw [List.all_eq_true]
  intro p hp
  have : p.2 ∈ s.cbs := h.2 _ (by rw [h.1]; exact List.mem_map.mpr ⟨p, hp, rfl⟩)
  simp [this]

end Kopf.C20.Monitor
