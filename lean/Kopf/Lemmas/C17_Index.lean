/-
  C17 helper lemmas, part 2: the forward/reverse index — invariant and the specifications of
  `Index.discard` and `Index.replace` at the level of the read-only view `Index.val`.
-/
import Kopf.Lemmas.C17_AList
namespace Kopf.C17

section Idx
variable {K V O : Type} [DecidableEq K] [DecidableEq O]

theorem Index.inv_empty : (Index.empty : Index K V O).Inv :=
  ⟨by intro k o; simp [Index.rkeys, Index.val, Index.empty],
   by intro k st h; simp [Index.empty] at h,
   by intro o r h; simp [Index.empty] at h,
   by intro o r h; simp [Index.empty] at h⟩

theorem Index.val_eq (ix : Index K V O) (k : K) (o : O) :
    ix.val k o = (aget k ix.items).bind (aget o) := by
  unfold Index.val; cases aget k ix.items <;> rfl

/-- one iteration of the `_discard` loop -/
def discard1 (o : O) (k : K) (st : Store O V) (rk : List K) (ix : Index K V O) : Index K V O :=
  { items := if (adel o st).isEmpty then adel k ix.items else aset k (adel o st) ix.items,
    reverse := aset o (sdel k rk) ix.reverse }

theorem discardKeys_cons (o : O) (k : K) (ks : List K) (ix : Index K V O) (st : Store O V) (rk : List K)
    (h1 : aget k ix.items = some st) (h2 : aget o ix.reverse = some rk) :
    discardKeys o (k :: ks) ix = discardKeys o ks (discard1 o k st rk ix) := by
  simp [discardKeys, h1, h2, discard1]

theorem discard1_val (o : O) (k : K) (st : Store O V) (rk : List K) (ix : Index K V O)
    (h1 : aget k ix.items = some st) (k' : K) (o' : O) :
    (discard1 o k st rk ix).val k' o' = if o' = o ∧ k' = k then none else ix.val k' o' := by
  simp only [Index.val_eq, discard1]
  by_cases he : (adel o st).isEmpty = true
  · simp only [he, if_true]
    by_cases hk : k' = k
    · subst hk
      simp only [aget_adel_same, h1, Option.bind]
      by_cases ho : o' = o
      · simp [ho]
      · simp only [ho, false_and, if_false]
        have : adel o st = [] := by simpa using he
        exact (aget_none_of_nil_adel this o' ho).symm
    · simp [aget_adel_other _ hk, hk]
  · rw [if_neg he]
    by_cases hk : k' = k
    · subst hk
      rw [aget_aset_same, h1]
      by_cases ho : o' = o <;> simp [ho, aget_adel]
    · simp [aget_aset_other _ _ hk, hk]

theorem discard1_rev_same (o : O) (k : K) (st : Store O V) (rk : List K) (ix : Index K V O) :
    aget o (discard1 o k st rk ix).reverse = some (sdel k rk) := by
  simp [discard1, aget_aset_same]

theorem discard1_rev_other (o : O) (k : K) (st : Store O V) (rk : List K) (ix : Index K V O)
    (o' : O) (h : o' ≠ o) :
    aget o' (discard1 o k st rk ix).reverse = aget o' ix.reverse := by
  simp [discard1, aget_aset_other _ _ h]

theorem discard1_storeNe (o : O) (k : K) (st : Store O V) (rk : List K) (ix : Index K V O)
    (hs : ix.StoreNe) : (discard1 o k st rk ix).StoreNe := by
  intro k' st' h
  simp only [discard1] at h
  by_cases he : (adel o st).isEmpty = true
  · simp only [he, if_true] at h
    rw [aget_adel] at h
    by_cases hk : k' = k
    · simp [hk] at h
    · simp only [hk, if_false] at h
      exact hs k' st' h
  · rw [if_neg he, aget_aset] at h
    by_cases hk : k' = k
    · simp only [hk, if_true, Option.some.injEq] at h
      subst h
      intro hnil
      simp [hnil] at he
    · simp only [hk, if_false] at h
      exact hs k' st' h

omit [DecidableEq K] in
theorem rkeys_of_rev {ix : Index K V O} {o : O} {r : List K} (h : aget o ix.reverse = some r) :
    ix.rkeys o = r := by simp [Index.rkeys, h]

theorem discard1_cons (o : O) (k : K) (st : Store O V) (rk : List K) (ix : Index K V O)
    (h1 : aget k ix.items = some st) (h2 : aget o ix.reverse = some rk)
    (hc : ix.Cons) : (discard1 o k st rk ix).Cons := by
  intro k' o'
  rw [discard1_val o k st rk ix h1]
  by_cases ho : o' = o
  · subst ho
    rw [rkeys_of_rev (discard1_rev_same o' k st rk ix), mem_sdel]
    have := hc k' o'
    rw [rkeys_of_rev h2] at this
    by_cases hk : k' = k
    · simp [hk]
    · simp [hk, this]
  · have hr : (discard1 o k st rk ix).rkeys o' = ix.rkeys o' := by
      simp [Index.rkeys, discard1_rev_other o k st rk ix o' ho]
    rw [hr]
    simp [ho, hc k' o']

theorem discard1_revNodup (o : O) (k : K) (st : Store O V) (rk : List K) (ix : Index K V O)
    (h2 : aget o ix.reverse = some rk) (hn : ix.RevNodup) : (discard1 o k st rk ix).RevNodup := by
  intro o' r h
  by_cases ho : o' = o
  · subst ho
    rw [discard1_rev_same] at h
    cases h
    exact nodup_sdel _ _ (hn o' rk h2)
  · rw [discard1_rev_other _ _ _ _ _ _ ho] at h
    exact hn o' r h

/-- The `_discard` loop: total under the invariant, removes exactly the given keys of `o`. -/
theorem discardKeys_spec (o : O) (ks : List K) :
    ∀ (ix : Index K V O) (rk : List K), ix.Cons → ix.StoreNe → ix.RevNodup →
      aget o ix.reverse = some rk → (∀ k ∈ ks, k ∈ rk) → ks.Nodup →
      ∃ ix' rk', discardKeys o ks ix = some ix' ∧ ix'.Cons ∧ ix'.StoreNe ∧ ix'.RevNodup ∧
        (∀ k o', ix'.val k o' = if o' = o ∧ k ∈ ks then none else ix.val k o') ∧
        (∀ o', o' ≠ o → aget o' ix'.reverse = aget o' ix.reverse) ∧
        aget o ix'.reverse = some rk' ∧ (∀ k, k ∈ rk' ↔ k ∈ rk ∧ k ∉ ks) := by
  induction ks with
  | nil =>
    intro ix rk hc hs hn hr _ _
    exact ⟨ix, rk, rfl, hc, hs, hn, by simp, by simp, hr, by simp⟩
  | cons k ks ih =>
    intro ix rk hc hs hn hr hks hnd
    have hk : k ∈ rk := hks k (by simp)
    have hv : (ix.val k o).isSome := (hc k o).1 (by rw [rkeys_of_rev hr]; exact hk)
    obtain ⟨st, hst⟩ : ∃ st, aget k ix.items = some st := by
      rw [Index.val_eq] at hv
      cases h : aget k ix.items with
      | none => simp [h] at hv
      | some st => exact ⟨st, rfl⟩
    rw [discardKeys_cons o k ks ix st rk hst hr]
    have hnd' : ks.Nodup := (List.nodup_cons.1 hnd).2
    have hkn : k ∉ ks := (List.nodup_cons.1 hnd).1
    obtain ⟨ix', rk', h1, h2, h3, h4, h5, h6, h7, h8⟩ :=
      ih (discard1 o k st rk ix) (sdel k rk)
        (discard1_cons o k st rk ix hst hr hc) (discard1_storeNe o k st rk ix hs)
        (discard1_revNodup o k st rk ix hr hn) (discard1_rev_same o k st rk ix)
        (by
          intro k' hk'
          rw [mem_sdel]
          refine ⟨hks k' (by simp [hk']), ?_⟩
          intro he; subst he; exact hkn hk')
        hnd'
    refine ⟨ix', rk', h1, h2, h3, h4, ?_, ?_, h7, ?_⟩
    · intro k' o'
      rw [h5 k' o', discard1_val o k st rk ix hst]
      by_cases ho : o' = o
      · by_cases hk1 : k' ∈ ks
        · simp [ho, hk1]
        · by_cases hk2 : k' = k <;> simp [ho, hk1, hk2]
      · simp [ho]
    · intro o' ho
      rw [h6 o' ho, discard1_rev_other _ _ _ _ _ _ ho]
    · intro k'
      rw [h8 k', mem_sdel]
      simp only [List.mem_cons, not_or]
      constructor
      · rintro ⟨⟨a, b⟩, c⟩; exact ⟨a, b, c⟩
      · rintro ⟨a, b, c⟩; exact ⟨⟨a, b⟩, c⟩

/-- the key list `_discard` iterates over -/
def dkeys (keys : Option (List K)) (rk : List K) : List K :=
  match keys with | some ks => ks | none => rk

/-- `_discard(acckey, obj_keys)` after the loop: drop an emptied reverse set. -/
theorem Index.discard_eq (o : O) (keys : Option (List K)) (ix : Index K V O) (rk : List K)
    (hr : aget o ix.reverse = some rk) (ix' : Index K V O) (rk' : List K)
    (h1 : discardKeys o (dkeys keys rk) ix = some ix')
    (h2 : aget o ix'.reverse = some rk') :
    ix.discard o keys = some (if rk'.isEmpty then { ix' with reverse := adel o ix'.reverse } else ix') := by
  unfold Index.discard
  cases keys with
  | none =>
    simp only [dkeys] at h1
    simp only [hr, h1, h2]
    by_cases he : rk'.isEmpty = true <;> simp [he]
  | some ks =>
    simp only [dkeys] at h1
    simp only [hr, h1, h2]
    by_cases he : rk'.isEmpty = true <;> simp [he]

theorem val_none_of_not_rkeys {ix : Index K V O} (hc : ix.Cons) {k : K} {o : O} (h : k ∉ ix.rkeys o) :
    ix.val k o = none := by
  have : ¬ (ix.val k o).isSome := by rw [← hc k o]; exact h
  cases hv : ix.val k o with
  | none => rfl
  | some v => simp [hv] at this

/-- Specification of `_discard(acckey, ks)` for a duplicate-free `ks ⊆ rev[o]` (or the default):
    total, removes exactly these keys of `o`, re-establishes "no empty reverse set" for `o`. -/
theorem Index.discard_spec (o : O) (keys : Option (List K)) (ix : Index K V O)
    (hc : ix.Cons) (hs : ix.StoreNe) (hn : ix.RevNodup)
    (hne : ∀ o', o' ≠ o → ∀ r, aget o' ix.reverse = some r → r ≠ [])
    (hks : ∀ k ∈ dkeys keys (ix.rkeys o), k ∈ ix.rkeys o)
    (hnd : (dkeys keys (ix.rkeys o)).Nodup) :
    ∃ ix', ix.discard o keys = some ix' ∧ ix'.Cons ∧ ix'.StoreNe ∧ ix'.RevNodup ∧
      (∀ o', o' ≠ o → ∀ r, aget o' ix'.reverse = some r → r ≠ []) ∧
      (∀ r, aget o ix'.reverse = some r → r ≠ []) ∧
      (∀ k o', ix'.val k o' =
        if o' = o ∧ k ∈ dkeys keys (ix.rkeys o) then none else ix.val k o') := by
  cases hr : aget o ix.reverse with
  | none =>
    refine ⟨ix, by simp [Index.discard, hr], hc, hs, hn, hne, by simp [hr], ?_⟩
    intro k o'
    by_cases ho : o' = o
    · subst ho
      have hv : ix.val k o' = none := val_none_of_not_rkeys hc (by simp [Index.rkeys, hr])
      by_cases hk : k ∈ dkeys keys (ix.rkeys o') <;> simp [hk, hv]
    · simp [ho]
  | some rk =>
    have hrk := rkeys_of_rev hr
    rw [hrk] at hks hnd
    obtain ⟨ix', rk', h1, h2, h3, h4, h5, h6, h7, h8⟩ :=
      discardKeys_spec o (dkeys keys rk) ix rk hc hs hn hr hks hnd
    rw [Index.discard_eq o keys ix rk hr ix' rk' h1 h7, hrk]
    by_cases he : rk'.isEmpty = true
    · simp only [he, if_true]
      have hnil : rk' = [] := by simpa using he
      refine ⟨_, rfl, ?_, h3, ?_, ?_, ?_, h5⟩
      · -- Cons: the reverse entry of `o` is gone and was empty
        intro k o'
        have hval : ({ ix' with reverse := adel o ix'.reverse } : Index K V O).val k o' = ix'.val k o' := rfl
        rw [hval, ← h2 k o']
        by_cases ho : o' = o
        · subst ho
          simp [Index.rkeys, aget_adel_same, h7, hnil]
        · simp [Index.rkeys, aget_adel_other _ ho]
      · intro o' r hr'
        simp only at hr'
        rw [aget_adel] at hr'
        by_cases ho : o' = o
        · simp [ho] at hr'
        · simp only [ho, if_false] at hr'
          exact h4 o' r hr'
      · intro o' ho r hr'
        simp only at hr'
        rw [aget_adel_other _ ho, h6 o' ho] at hr'
        exact hne o' ho r hr'
      · intro r hr'
        simp [aget_adel_same] at hr'
    · simp only [he]
      refine ⟨ix', rfl, h2, h3, h4, ?_, ?_, h5⟩
      · intro o' ho r hr'
        rw [h6 o' ho] at hr'
        exact hne o' ho r hr'
      · intro r hr'
        rw [h7] at hr'
        cases hr'
        intro hnil
        simp [hnil] at he

/-- `Index.discard o none` under the full invariant. -/
theorem Index.discard_all_spec (o : O) (ix : Index K V O) (hi : ix.Inv) :
    ∃ ix', ix.discard o none = some ix' ∧ ix'.Inv ∧
      (∀ k o', ix'.val k o' = if o' = o then none else ix.val k o') := by
  have hnd : (dkeys none (ix.rkeys o)).Nodup := by
    simp only [dkeys, Index.rkeys]
    cases h : aget o ix.reverse with
    | none => simp
    | some r => exact hi.revNodup o r h
  obtain ⟨ix', h1, h2, h3, h4, h5, h6, h7⟩ :=
    Index.discard_spec o none ix hi.cons hi.storeNe hi.revNodup
      (fun o' _ r hr => hi.revNe o' r hr) (by intro k hk; exact hk) hnd
  refine ⟨ix', h1, ⟨h2, h3, ?_, h4⟩, ?_⟩
  · intro o' r hr
    by_cases ho : o' = o
    · subst ho; exact h6 r hr
    · exact h5 o' ho r hr
  · intro k o'
    rw [h7 k o']
    by_cases ho : o' = o
    · subst ho
      by_cases hk : k ∈ dkeys none (ix.rkeys o')
      · simp [hk]
      · simp only [hk, and_false, if_false, if_true]
        exact val_none_of_not_rkeys hi.cons hk
    · simp [ho]

/-! #### `_replace` -/

/-- forward lookup on a bare items dict -/
def ival (items : List (K × Store O V)) (k : K) (o : O) : Option V := (aget k items).bind (aget o)

theorem replaceLoop_spec (o : O) (m : List (K × V)) :
    ∀ (items : List (K × Store O V)) (rev : List K),
      (∀ k st, aget k items = some st → st ≠ []) → rev.Nodup →
      (∀ k st, aget k (replaceLoop o m (items, rev)).1 = some st → st ≠ []) ∧
      (replaceLoop o m (items, rev)).2.Nodup ∧
      (∀ k, k ∈ (replaceLoop o m (items, rev)).2 ↔ k ∈ rev ∨ k ∈ m.map Prod.fst) ∧
      (∀ k o', ival (replaceLoop o m (items, rev)).1 k o' =
        if o' = o then (match lastval k m with | some v => some v | none => ival items k o)
        else ival items k o') := by
  induction m with
  | nil =>
    intro items rev hs hn
    refine ⟨by simpa [replaceLoop] using hs, by simpa [replaceLoop] using hn, by simp [replaceLoop], ?_⟩
    intro k o'
    by_cases ho : o' = o <;> simp [replaceLoop, lastval, ho]
  | cons p rest ih =>
    obtain ⟨k0, v0⟩ := p
    intro items rev hs hn
    obtain ⟨st0, hst0⟩ : ∃ st0 : Store O V, st0 = (match aget k0 items with | some st => st | none => []) :=
      ⟨_, rfl⟩
    have hstep : replaceLoop o ((k0, v0) :: rest) (items, rev) =
        replaceLoop o rest (aset k0 (aset o v0 st0) items, sadd k0 rev) := by
      rw [hst0]; rfl
    rw [hstep]
    have hs' : ∀ k st, aget k (aset k0 (aset o v0 st0) items) = some st → st ≠ [] := by
      intro k st h
      rw [aget_aset] at h
      by_cases hk : k = k0
      · simp only [hk, if_true, Option.some.injEq] at h
        subst h
        exact aset_ne_nil _ _ _
      · simp only [hk, if_false] at h
        exact hs k st h
    obtain ⟨a, b, c, d⟩ := ih _ _ hs' (nodup_sadd k0 rev hn)
    refine ⟨a, b, ?_, ?_⟩
    · intro k
      rw [c k, mem_sadd]
      simp only [List.map_cons, List.mem_cons]
      constructor
      · rintro ((h | h) | h)
        · exact Or.inr (Or.inl h)
        · exact Or.inl h
        · exact Or.inr (Or.inr h)
      · rintro (h | h | h)
        · exact Or.inl (Or.inr h)
        · exact Or.inl (Or.inl h)
        · exact Or.inr h
    · intro k o'
      rw [d k o']
      have hst0get : ∀ o'', aget o'' st0 = ival items k0 o'' := by
        intro o''
        rw [hst0]
        unfold ival
        cases aget k0 items <;> simp [aget]
      have hi1 : ∀ o'', ival (aset k0 (aset o v0 st0) items) k o''
          = if k = k0 then (if o'' = o then some v0 else ival items k o'') else ival items k o'' := by
        intro o''
        unfold ival
        rw [aget_aset]
        by_cases hk : k = k0
        · subst hk
          simp only [if_true, Option.bind_some, aget_aset, hst0get]
          rfl
        · simp [hk]
      by_cases ho : o' = o
      · subst ho
        simp only [if_true, lastval]
        cases hl : lastval k rest with
        | some x => simp
        | none =>
          rw [hi1]
          by_cases hk : k = k0
          · subst hk; simp
          · simp [hk, Ne.symm hk]
      · simp only [ho, if_false]
        rw [hi1]
        simp [ho]

/-- Specification of `_replace(acckey, m)` under the invariant: afterwards the object's values are
    exactly those of `m`, every other object is untouched, the invariant holds again. -/
theorem Index.replace_spec (o : O) (m : List (K × V)) (ix : Index K V O) (hi : ix.Inv) :
    ∃ ix', ix.replace o m = some ix' ∧ ix'.Inv ∧
      (∀ k o', ix'.val k o' = if o' = o then lastval k m else ix.val k o') := by
  obtain ⟨rev0, hrev0d⟩ : ∃ rev0 : List K, rev0 = (match aget o ix.reverse with | some r => r | none => []) :=
    ⟨_, rfl⟩
  have hrev0 : rev0 = ix.rkeys o := hrev0d
  have hn0 : rev0.Nodup := by
    rw [hrev0d]
    cases h : aget o ix.reverse with
    | none => simp
    | some r => exact hi.revNodup o r h
  obtain ⟨a, b, c, d⟩ := replaceLoop_spec o m ix.items rev0 hi.storeNe hn0
  obtain ⟨r, hr⟩ : ∃ r, r = replaceLoop o m (ix.items, rev0) := ⟨_, rfl⟩
  rw [← hr] at a b c d
  obtain ⟨ix1, hix1⟩ : ∃ ix1 : Index K V O, ix1 = { items := r.1, reverse := aset o r.2 ix.reverse } := ⟨_, rfl⟩
  have hix1rev : aget o ix1.reverse = some r.2 := by rw [hix1]; exact aget_aset_same _ _ _
  have hval1 : ∀ k o', ix1.val k o' =
      if o' = o then (match lastval k m with | some v => some v | none => ix.val k o) else ix.val k o' := by
    intro k o'
    rw [Index.val_eq, Index.val_eq, Index.val_eq, hix1]
    exact d k o'
  have hc1 : ix1.Cons := by
    intro k o'
    rw [hval1 k o']
    by_cases ho : o' = o
    · subst ho
      rw [rkeys_of_rev hix1rev, c k, hrev0, hi.cons k o']
      simp only [if_true]
      have hl := lastval_isSome k m
      cases hlv : lastval k m with
      | some v =>
        have : k ∈ m.map Prod.fst := hl.1 (by simp [hlv])
        simp [this]
      | none =>
        have : k ∉ m.map Prod.fst := fun hm => by have := hl.2 hm; simp [hlv] at this
        simp [this]
    · have : ix1.rkeys o' = ix.rkeys o' := by
        simp [Index.rkeys, hix1, aget_aset_other _ _ ho]
      rw [this]
      simp [ho, hi.cons k o']
  have hs1 : ix1.StoreNe := by rw [hix1]; exact a
  have hn1 : ix1.RevNodup := by
    intro o' r' h
    by_cases ho : o' = o
    · subst ho
      rw [hix1rev] at h
      cases h
      exact b
    · simp only [hix1, aget_aset_other _ _ ho] at h
      exact hi.revNodup o' r' h
  have hne1 : ∀ o', o' ≠ o → ∀ r', aget o' ix1.reverse = some r' → r' ≠ [] := by
    intro o' ho r' h
    simp only [hix1, aget_aset_other _ _ ho] at h
    exact hi.revNe o' r' h
  obtain ⟨ks, hksd⟩ : ∃ ks, ks = r.2.filter (fun k => !(m.map Prod.fst).contains k) := ⟨_, rfl⟩
  have hks_mem : ∀ k, k ∈ ks ↔ k ∈ r.2 ∧ k ∉ m.map Prod.fst := by
    intro k
    simp [hksd, List.mem_filter]
  obtain ⟨ix', h1, h2, h3, h4, h5, h6, h7⟩ :=
    Index.discard_spec o (some ks) ix1 hc1 hs1 hn1 hne1
      (by
        intro k hk
        rw [rkeys_of_rev hix1rev]
        exact ((hks_mem k).1 hk).1)
      (by rw [hksd]; exact List.Nodup.sublist List.filter_sublist b)
  have hrep : ix.replace o m = ix1.discard o (some ks) := by
    rw [hksd, hix1, hr, hrev0d]
    rfl
  refine ⟨ix', by rw [hrep]; exact h1, ⟨h2, h3, ?_, h4⟩, ?_⟩
  · intro o' r' hr'
    by_cases ho : o' = o
    · subst ho; exact h6 r' hr'
    · exact h5 o' ho r' hr'
  · intro k o'
    rw [h7 k o', hval1 k o']
    by_cases ho : o' = o
    · subst ho
      simp only [true_and, if_true, dkeys]
      by_cases hk : k ∈ ks
      · have := ((hks_mem k).1 hk).2
        simp [hk, lastval_none_of_not_mem k m this]
      · simp only [hk, if_false]
        cases hlv : lastval k m with
        | some v => rfl
        | none =>
          have hkm : k ∉ m.map Prod.fst := fun hm => by
            have := (lastval_isSome k m).2 hm; simp [hlv] at this
          have hkr : k ∉ r.2 := fun hr' => hk ((hks_mem k).2 ⟨hr', hkm⟩)
          have hk0 : k ∉ ix.rkeys o' := fun h0 => hkr ((c k).2 (Or.inl (hrev0 ▸ h0)))
          exact val_none_of_not_rkeys hi.cons hk0
    · simp [ho]

end Idx
end Kopf.C17
