/-
  C20 helper lemmas: `InvB` is preserved by the labels of group 1 (see `Label.grp`).
-/
import Kopf.Lemmas.C20_Defs
set_option linter.unusedSimpArgs false
set_option linter.unusedVariables false
namespace Kopf.C20

set_option maxHeartbeats 4000000 in
theorem InvB.pres_g1 {cfg : Cfg} {s s' : State} {l : Label} (hI : InvB s)
    (hg : l.grp = 1) (h : step cfg s l = some s') : InvB s' := by
  obtain ⟨h1, h2, h3, h4, h5, h6, h7, h8, h9, h10, h11, h12, h13⟩ := hI
  cases l <;> simp only [step] at h
  all_goals (first | (exfalso; simp [Label.grp] at hg; done) | skip)
  all_goals (repeat' (split at h))
  all_goals (first | (cases h; done) | skip)
  all_goals (cases h)
  all_goals (try simp only [noLiveWorkerOf_iff, noLiveSub_iff, noLiveStream_iff] at *)
  all_goals (refine ⟨?_, ?_, ?_, ?_, ?_, ?_, ?_, ?_, ?_, ?_, ?_, ?_, ?_⟩)
  all_goals (first | exact h1 | exact h2 | exact h3 | exact h4 | exact h5 | exact h6 | exact h7 | exact h8
                   | exact h9 | exact h10 | exact h11 | exact h12 | exact h13 | skip)
  all_goals (try simp only [kind_orchestrator_iff, kind_killer_iff, kind_flagChecker_iff, kind_ultimate_iff,
    kind_startupCleanup_iff, kind_coreWatch_iff] at *)
  all_goals (try subst_vars)
  all_goals (try dsimp only)
  all_goals (grind [upd, Root.kind, TS.active, TS.live, TS.ended, TS.isStopping, watcherLike, failTS, cancelSubs, cancelPingers, cancelRoots, cancelRootsV, Pend.ts])

end Kopf.C20
