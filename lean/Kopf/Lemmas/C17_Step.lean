/-
  C17 helper lemmas, part 3: the loops over indexers (`OperatorIndexers.replace/discard`) and the
  per-index effect of one processed event.
-/
import Kopf.Lemmas.C17_Index
namespace Kopf.C17

section Fold
variable {Id K V O : Type} [DecidableEq Id] [DecidableEq K] [DecidableEq O]

theorem upd_same {α β : Type} [DecidableEq α] (f : α → β) (a : α) (b : β) : upd f a b a = b := by
  simp [upd]

theorem upd_other {α β : Type} [DecidableEq α] (f : α → β) (a : α) (b : β) {x : α} (h : x ≠ a) :
    upd f a b x = f x := by
  simp [upd, h]

/-- A loop over distinct indexer ids acts pointwise. -/
theorem foldUpd_spec (f : Id → Index (Option K) V O → Option (Index (Option K) V O)) (ids : List Id) :
    ids.Nodup → ∀ ixs : Id → Index (Option K) V O,
      (∀ i ∈ ids, ∃ ix', f i (ixs i) = some ix') →
      ∃ ixs', foldUpd f ids ixs = some ixs' ∧ (∀ i ∈ ids, f i (ixs i) = some (ixs' i)) ∧
        (∀ i, i ∉ ids → ixs' i = ixs i) := by
  induction ids with
  | nil => intro _ ixs _; exact ⟨ixs, rfl, by simp, by simp⟩
  | cons i rest ih =>
    intro hnd ixs hf
    obtain ⟨hi, hrest⟩ := List.nodup_cons.1 hnd
    obtain ⟨ix', hix'⟩ := hf i (by simp)
    have hf' : ∀ j ∈ rest, ∃ ix'', f j (upd ixs i ix' j) = some ix'' := by
      intro j hj
      have hji : j ≠ i := fun h => hi (h ▸ hj)
      rw [upd_other _ _ _ hji]
      exact hf j (by simp [hj])
    obtain ⟨ixs', h1, h2, h3⟩ := ih hrest (upd ixs i ix') hf'
    refine ⟨ixs', by simp [foldUpd, hix', h1], ?_, ?_⟩
    · intro j hj
      rcases List.mem_cons.1 hj with hj | hj
      · subst hj
        rw [h3 j hi, upd_same]
        exact hix'
      · have hji : j ≠ i := fun h => hi (h ▸ hj)
        have := h2 j hj
        rwa [upd_other _ _ _ hji] at this
    · intro j hj
      have hji : j ≠ i := fun h => hj (by simp [h])
      have hjr : j ∉ rest := fun h => hj (by simp [h])
      rw [h3 j hjr, upd_other _ _ _ hji]

end Fold

section AGetMap
variable {α ι β : Type} [DecidableEq ι]

theorem aget_map_mem (f : α → ι) (g : α → β) (l : List α) (hnd : (l.map f).Nodup) (c : α) (hc : c ∈ l) :
    aget (f c) (l.map (fun c => (f c, g c))) = some (g c) := by
  induction l with
  | nil => cases hc
  | cons a r ih =>
    simp only [List.map_cons, List.nodup_cons] at hnd
    rcases List.mem_cons.1 hc with h | h
    · subst h; simp [aget]
    · have hne : f a ≠ f c := fun he => hnd.1 (he ▸ List.mem_map_of_mem h)
      simp [aget, hne, ih hnd.2 h]

theorem aget_map_not_mem (f : α → ι) (g : α → β) (l : List α) (i : ι) (hi : i ∉ l.map f) :
    aget i (l.map (fun c => (f c, g c))) = none := by
  induction l with
  | nil => rfl
  | cons a r ih =>
    simp only [List.map_cons, List.mem_cons, not_or] at hi
    simp [aget, Ne.symm hi.1, ih hi.2]

theorem inj_of_nodup_map (f : α → ι) (l : List α) (hnd : (l.map f).Nodup) {a b : α} (ha : a ∈ l) (hb : b ∈ l)
    (h : f a = f b) : a = b := by
  induction l with
  | nil => cases ha
  | cons x r ih =>
    simp only [List.map_cons, List.nodup_cons] at hnd
    rcases List.mem_cons.1 ha with ha1 | ha1
    · rcases List.mem_cons.1 hb with hb1 | hb1
      · rw [ha1, hb1]
      · subst ha1; exact absurd (h ▸ List.mem_map_of_mem hb1) hnd.1
    · rcases List.mem_cons.1 hb with hb1 | hb1
      · subst hb1; exact absurd (h ▸ List.mem_map_of_mem ha1) hnd.1
      · exact ih hnd.2 ha1 hb1

end AGetMap

section Step
variable {Id Res L K V O : Type} [DecidableEq Id] [DecidableEq Res] [DecidableEq L]
  [DecidableEq K] [DecidableEq O]

theorem State.invAll_init : (State.init : State Id K V O).InvAll := fun _ => Index.inv_empty

/-- what one processed event does to one index, for the event's object -/
inductive Act (K V : Type) where
  | keep
  | discard
  | replace (m : List (Option K × V))

def actOf (cfg : List (Indexer Id Res L)) (bk : Nat) (s : State Id K V O) (e : Event Id Res L K V O)
    (c : Indexer Id Res L) : Act K V :=
  if !(cfg.any (fun c' => decide (c'.res = e.res))) then .keep
  else if e.deleted then .discard
  else if invoked s e c then
    let out := execOne c bk e.t (hOf s e c) (e.script c.id)
    if out.exception then .discard
    else match out.result with
      | some m => .replace m
      | none => .keep
  else .discard

/-- the view after an action -/
def Act.view (a : Act K V) (obj : O) (old : Option K → O → Option V)
    (k : Option K) (o : O) : Option V :=
  match a with
  | .keep => old k o
  | .discard => if o = obj then none else old k o
  | .replace m => if o = obj then lastval k m else old k o

/-- the memory after the event -/
def memOf (cfg : List (Indexer Id Res L)) (bk : Nat) (s : State Id K V O) (e : Event Id Res L K V O)
    (c : Indexer Id Res L) : Option HState :=
  if e.deleted then none
  else if !(cfg.any (fun c' => decide (c'.res = e.res))) then s.mem e.obj c.id
  else if invoked s e c then (hOf s e c).next e.t (execOne c bk e.t (hOf s e c) (e.script c.id))
  else if c.selects e then some (hOf s e c)
  else s.mem e.obj c.id

theorem applyOutcome_spec (o : O) (out : Outcome K V) (ix : Index (Option K) V O)
    (hi : ix.Inv) :
    ∃ ix', applyOutcome o out ix = some ix' ∧ ix'.Inv ∧
      ∀ k o', ix'.val k o' =
        (if out.exception then Act.discard
         else match out.result with | some m => Act.replace m | none => Act.keep).view o ix.val k o' := by
  unfold applyOutcome
  by_cases hx : out.exception = true
  · simp only [hx, if_true]
    obtain ⟨ix', h1, h2, h3⟩ := Index.discard_all_spec o ix hi
    exact ⟨ix', h1, h2, fun k o' => by simp [Act.view, h3]⟩
  · simp only [hx]
    cases hr : out.result with
    | none => exact ⟨ix, rfl, hi, fun k o' => by simp [Act.view]⟩
    | some m =>
      obtain ⟨ix', h1, h2, h3⟩ := Index.replace_spec o m ix hi
      exact ⟨ix', h1, h2, fun k o' => by simp [Act.view, h3]⟩

/-- One event: the step is total (no `KeyError`), keeps the invariant of every index, leaves
    foreign indexers alone, and acts on each configured index as `actOf` says; the memory of the
    event's object becomes `memOf`, other objects' memories are untouched. -/
theorem step_spec (cfg : List (Indexer Id Res L)) (bk : Nat)
    (hnd : (cfg.map (·.id)).Nodup)
    (s : State Id K V O) (e : Event Id Res L K V O) (hi : s.InvAll) :
    ∃ s', step cfg bk s e = some s' ∧ s'.InvAll ∧
      (∀ c ∈ cfg, ∀ k o, (s'.ixs c.id).val k o = (actOf cfg bk s e c).view e.obj (s.ixs c.id).val k o) ∧
      (∀ c ∈ cfg, s'.mem e.obj c.id = memOf cfg bk s e c) ∧
      (∀ o, o ≠ e.obj → s'.mem o = s.mem o) := by
  unfold step
  by_cases hh : cfg.any (fun c => decide (c.res = e.res)) = true
  · simp only [hh, Bool.not_true, Bool.false_eq_true, if_false]
    by_cases hd : e.deleted = true
    · -- DELETED: discard from all indexers
      simp only [hd, if_true]
      obtain ⟨ixs', h1, h2, h3⟩ := foldUpd_spec (fun _ ix => Index.discard e.obj none ix)
        (cfg.map (·.id)) hnd s.ixs
        (by intro i _; obtain ⟨ix', h, _⟩ := Index.discard_all_spec e.obj (s.ixs i) (hi i); exact ⟨ix', h⟩)
      simp only [discardAll, h1]
      refine ⟨_, rfl, ?_, ?_, ?_, ?_⟩
      · intro i
        by_cases hm : i ∈ cfg.map (·.id)
        · obtain ⟨ix', h, hinv, _⟩ := Index.discard_all_spec e.obj (s.ixs i) (hi i)
          have := h2 i hm
          rw [h] at this
          cases this
          exact hinv
        · show (ixs' i).Inv
          rw [h3 i hm]; exact hi i
      · intro c hc k o
        obtain ⟨ix', h, _, hv⟩ := Index.discard_all_spec e.obj (s.ixs c.id) (hi c.id)
        have := h2 c.id (List.mem_map_of_mem hc)
        rw [h] at this
        cases this
        show (ixs' c.id).val k o = _
        simp [actOf, hh, hd, Act.view, hv]
      · intro c _
        simp [memOf, hd, upd_same]
      · intro o ho
        simp [upd_other _ _ _ ho]
    · -- ordinary event
      have hd' : e.deleted = false := by simpa using hd
      simp only [hd', Bool.false_eq_true, if_false]
      -- the handlers called in this cycle
      obtain ⟨todo, htodo⟩ : ∃ todo, todo = (cfg.filter (fun c => c.selects e)).filter
        (fun c => (hstateOf e.t (s.mem e.obj) c.id).awake e.t) := ⟨_, rfl⟩
      obtain ⟨g, hg⟩ : ∃ g : Indexer Id Res L → Outcome K V,
        g = fun c => execOne c bk e.t (hstateOf e.t (s.mem e.obj) c.id) (e.script c.id) := ⟨_, rfl⟩
      rw [← htodo]
      have hsub : List.Sublist (todo.map (·.id)) (cfg.map (·.id)) := by
        rw [htodo]
        exact List.Sublist.map _ (List.Sublist.trans List.filter_sublist List.filter_sublist)
      have hndt : (todo.map (·.id)).Nodup := List.Nodup.sublist hsub hnd
      have htodo_mem : ∀ c, c ∈ todo ↔ c ∈ cfg ∧ invoked s e c = true := by
        intro c
        simp only [htodo, List.mem_filter, invoked, hOf, Bool.and_eq_true]
        constructor
        · rintro ⟨⟨a, b⟩, c⟩; exact ⟨a, b, c⟩
        · rintro ⟨a, b, c⟩; exact ⟨⟨a, b⟩, c⟩
      have houts : todo.map (fun c => (c.id, g c)) =
          todo.map (fun c => (c.id, execOne c bk e.t (hstateOf e.t (s.mem e.obj) c.id) (e.script c.id))) := by
        rw [hg]
      have hfst : (todo.map (fun c => (c.id, g c))).map Prod.fst = todo.map (·.id) := by
        simp [List.map_map, Function.comp_def]
      have hget_in : ∀ c ∈ todo, aget c.id (todo.map (fun c => (c.id, g c))) = some (g c) :=
        fun c hc => aget_map_mem (·.id) g todo hndt c hc
      have hget_out : ∀ c ∈ cfg, c ∉ todo → aget c.id (todo.map (fun c => (c.id, g c))) = none := by
        intro c hc hct
        apply aget_map_not_mem
        intro hm
        obtain ⟨c', hc', he⟩ := List.mem_map.1 hm
        have hc'cfg : c' ∈ cfg := ((htodo_mem c').1 hc').1
        have : c' = c := inj_of_nodup_map (·.id) cfg hnd hc'cfg hc he
        exact hct (this ▸ hc')
      -- first loop
      obtain ⟨ixs1, a1, a2, a3⟩ := foldUpd_spec
        (loop1 e.obj (todo.map (fun c => (c.id, g c))))
        (todo.map (·.id)) hndt s.ixs
        (by
          intro i hm
          obtain ⟨c, hc, rfl⟩ := List.mem_map.1 hm
          simp only [loop1, hget_in c hc]
          obtain ⟨ix', h, _⟩ := applyOutcome_spec e.obj (g c) (s.ixs c.id) (hi c.id)
          exact ⟨ix', h⟩)
      have hinv1 : ∀ i, (ixs1 i).Inv := by
        intro i
        by_cases hm : i ∈ todo.map (·.id)
        · obtain ⟨c, hc, rfl⟩ := List.mem_map.1 hm
          have := a2 c.id hm
          simp only [loop1, hget_in c hc] at this
          obtain ⟨ix', h, hinv, _⟩ := applyOutcome_spec e.obj (g c) (s.ixs c.id) (hi c.id)
          rw [h] at this
          cases this
          exact hinv
        · rw [a3 i hm]; exact hi i
      -- second loop
      obtain ⟨ixs2, b1, b2, b3⟩ := foldUpd_spec
        (loop2 e.obj (todo.map (fun c => (c.id, g c))))
        (cfg.map (·.id)) hnd ixs1
        (by
          intro i _
          by_cases hs : (aget i (todo.map (fun c => (c.id, g c)))).isSome = true
          · exact ⟨ixs1 i, by simp [loop2, hs]⟩
          · obtain ⟨ix', h, _⟩ := Index.discard_all_spec e.obj (ixs1 i) (hinv1 i)
            exact ⟨ix', by simp [loop2, hs, h]⟩)
      have hrep : replaceAll (cfg.map (·.id)) e.obj (todo.map (fun c => (c.id, g c))) s.ixs = some ixs2 := by
        unfold replaceAll
        rw [hfst, a1]
        exact b1
      rw [← houts, hrep]
      simp only []
      refine ⟨_, rfl, ?_, ?_, ?_, ?_⟩
      · -- invariant
        intro i
        show (ixs2 i).Inv
        by_cases hm : i ∈ cfg.map (·.id)
        · have := b2 i hm
          by_cases hs : (aget i (todo.map (fun c => (c.id, g c)))).isSome = true
          · simp only [loop2, hs, if_true] at this
            rw [← Option.some.inj this]
            exact hinv1 i
          · simp only [loop2, hs] at this
            obtain ⟨ix', h, hinv, _⟩ := Index.discard_all_spec e.obj (ixs1 i) (hinv1 i)
            rw [h] at this
            cases this
            exact hinv
        · rw [b3 i hm]; exact hinv1 i
      · -- per-index effect
        intro c hc k o
        show (ixs2 c.id).val k o = _
        have hb := b2 c.id (List.mem_map_of_mem hc)
        by_cases hct : c ∈ todo
        · have hinvk : invoked s e c = true := ((htodo_mem c).1 hct).2
          simp only [loop2, hget_in c hct, Option.isSome_some, if_true] at hb
          rw [← Option.some.inj hb]
          have ha := a2 c.id (List.mem_map_of_mem hct)
          simp only [loop1, hget_in c hct] at ha
          obtain ⟨ix', h, _, hv⟩ := applyOutcome_spec e.obj (g c) (s.ixs c.id) (hi c.id)
          rw [h] at ha
          cases ha
          rw [hv k o]
          simp only [actOf, hh, hd', hinvk, Bool.not_true, Bool.false_eq_true, if_false, if_true, hOf, hg]
          by_cases hx : (execOne c bk e.t (hstateOf e.t (s.mem e.obj) c.id) (e.script c.id)).exception = true
          · simp [hx]
          · simp [hx]
        · have hninv : invoked s e c = false := by
            cases hiv : invoked s e c with
            | false => rfl
            | true => exact absurd ((htodo_mem c).2 ⟨hc, hiv⟩) hct
          simp only [loop2, hget_out c hc hct, Option.isSome_none, Bool.false_eq_true, if_false] at hb
          have h1 : ixs1 c.id = s.ixs c.id := by
            apply a3
            intro hm
            obtain ⟨c', hc', he⟩ := List.mem_map.1 hm
            have hc'cfg : c' ∈ cfg := ((htodo_mem c').1 hc').1
            have : c' = c := inj_of_nodup_map (·.id) cfg hnd hc'cfg hc he
            exact hct (this ▸ hc')
          rw [h1] at hb
          obtain ⟨ix', h, _, hv⟩ := Index.discard_all_spec e.obj (s.ixs c.id) (hi c.id)
          rw [h] at hb
          cases hb
          simp [actOf, hh, hd', hninv, Act.view, hv]
      · -- memory of the event's object
        intro c hc
        simp only [upd_same]
        by_cases hct : c ∈ todo
        · have hinvk : invoked s e c = true := ((htodo_mem c).1 hct).2
          rw [hget_in c hct]
          simp [memOf, hd', hh, hinvk, hOf, hg]
        · have hninv : invoked s e c = false := by
            cases hiv : invoked s e c with
            | false => rfl
            | true => exact absurd ((htodo_mem c).2 ⟨hc, hiv⟩) hct
          rw [hget_out c hc hct]
          simp only [memOf, hd', hh, hninv, Bool.not_true, Bool.false_eq_true, if_false]
          by_cases hsel : c.selects e = true
          · have : (cfg.filter (fun c => c.selects e)).any (fun c' => decide (c'.id = c.id)) = true := by
              rw [List.any_eq_true]
              exact ⟨c, List.mem_filter.2 ⟨hc, hsel⟩, by simp⟩
            simp [this, hsel, hOf]
          · have : (cfg.filter (fun c => c.selects e)).any (fun c' => decide (c'.id = c.id)) = false := by
              rw [List.any_eq_false]
              intro c' hc'
              obtain ⟨hc'cfg, hsel'⟩ := List.mem_filter.1 hc'
              intro he
              have he' : c'.id = c.id := by simpa using he
              have : c' = c := inj_of_nodup_map (·.id) cfg hnd hc'cfg hc he'
              subst this
              exact hsel hsel'
            simp [this, hsel]
      · intro o ho
        simp [upd_other _ _ _ ho]
  · -- no index handler for this resource kind: `pass`
    have hh' : cfg.any (fun c => decide (c.res = e.res)) = false := by simpa using hh
    simp only [hh', Bool.not_false, if_true]
    refine ⟨_, rfl, hi, ?_, ?_, ?_⟩
    · intro c _ k o
      simp [actOf, hh', Act.view]
    · intro c _
      by_cases hd : e.deleted = true
      · simp [memOf, hd, upd_same]
      · simp [memOf, hd, hh']
    · intro o ho
      by_cases hd : e.deleted = true
      · simp [hd, upd_other _ _ _ ho]
      · simp [hd]

end Step
end Kopf.C17
