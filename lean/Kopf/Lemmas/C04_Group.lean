/-
  C04 — a whole group of annotations under one prefix may appear, change or vanish: if in both states
  every key under that prefix is dropped by the marked-prefix rule, the essence does not change.
-/
import Kopf.Lemmas.C04_WF
set_option linter.unusedSimpArgs false
namespace Kopf.C04
open Kopf Kopf.J

theorem mem_keys_of_filter_gen {A A' : Kvs} (q : String → Bool) {key : String}
    (hd : A'.filter (fun kv => q kv.1) = A.filter (fun kv => q kv.1)) (hq : q key = true)
    (h : key ∈ keys A) : key ∈ keys A' := by
  simp only [keys, List.mem_map] at h ⊢
  obtain ⟨kv, hkv, rfl⟩ := h
  have : kv ∈ A.filter (fun kv => q kv.1) := List.mem_filter.2 ⟨hkv, hq⟩
  rw [← hd] at this
  exact ⟨kv, (List.mem_filter.1 this).1, rfl⟩

theorem group_dropped_congr {A A' : Kvs} {p0 : List Char} {key : String}
    (hd : AgreeOffPrefix p0 A' A) (hne : pfx key ≠ some p0) :
    (∃ p, pfx key = some p ∧ p ∈ markedPrefixes (keys A')) → (∃ p, pfx key = some p ∧ p ∈ markedPrefixes (keys A)) := by
  rintro ⟨p, hp, hm⟩
  refine ⟨p, hp, ?_⟩
  obtain ⟨k, hkK, hmk⟩ := mem_markedPrefixes.1 hm
  have hpk : pfx k = some p := markedPrefix?_pfx hmk
  have hne' : pfx k ≠ some p0 := by rw [hpk, ← hp]; exact hne
  have hq : (fun k => pfx k != some p0) k = true := by
    show (pfx k != some p0) = true
    exact bne_iff_ne.2 hne'
  have hd' : A.filter (fun kv => (fun k => pfx k != some p0) kv.1) = A'.filter (fun kv => (fun k => pfx k != some p0) kv.1) := by
    unfold AgreeOffPrefix at hd
    exact hd.symm
  exact mem_markedPrefixes.2 ⟨k, mem_keys_of_filter_gen (fun k => pfx k != some p0) hd' hq hkK, hmk⟩

/-- the annotation filter of `build` gives the same result before and after the change of a group. -/
theorem filter_group_eq {A A' : Kvs} {p0 : List Char}
    (hd : AgreeOffPrefix p0 A' A) (hg : GroupDropped p0 A) (hg' : GroupDropped p0 A') :
    A'.filter (fun kv => keepAnnotation (markedPrefixes (keys A')) kv.1) =
      A.filter (fun kv => keepAnnotation (markedPrefixes (keys A)) kv.1) := by
  have himp : ∀ (B : Kvs), GroupDropped p0 B → ∀ x, x ∈ B →
      keepAnnotation (markedPrefixes (keys B)) x.1 = true → (pfx x.1 != some p0) = true := by
    intro B hB x hx hkeep
    by_cases he : pfx x.1 = some p0
    · have hk : x.1 ∈ keys B := by simp only [keys, List.mem_map]; exact ⟨x, hx, rfl⟩
      have := marked_dropped_aux (hB x.1 hk he) he
      rw [this] at hkeep; cases hkeep
    · exact bne_iff_ne.2 he
  have hd0 : A'.filter (fun kv => pfx kv.1 != some p0) = A.filter (fun kv => pfx kv.1 != some p0) := hd
  have hds : AgreeOffPrefix p0 A A' := hd0.symm
  have e1 := filter_eq_of_imp (fun kv : String × J => keepAnnotation (markedPrefixes (keys A')) kv.1)
    (fun kv => pfx kv.1 != some p0) A' (himp A' hg')
  have e2 := filter_eq_of_imp (fun kv : String × J => keepAnnotation (markedPrefixes (keys A)) kv.1)
    (fun kv => pfx kv.1 != some p0) A (himp A hg)
  have e3 : (A.filter (fun kv => pfx kv.1 != some p0)).filter (fun kv => keepAnnotation (markedPrefixes (keys A')) kv.1) =
      (A.filter (fun kv => pfx kv.1 != some p0)).filter (fun kv => keepAnnotation (markedPrefixes (keys A)) kv.1) := by
    apply List.filter_congr
    intro x hx
    obtain ⟨_, hxne⟩ := List.mem_filter.1 hx
    have hne : pfx x.1 ≠ some p0 := bne_iff_ne.1 hxne
    have hany : (markedPrefixes (keys A')).any (fun p => underPrefix p x.1) =
        (markedPrefixes (keys A)).any (fun p => underPrefix p x.1) := by
      rw [Bool.eq_iff_iff, dropped_iff, dropped_iff]
      exact ⟨group_dropped_congr hd hne, group_dropped_congr hds hne⟩
    show keepAnnotation (markedPrefixes (keys A')) x.1 = keepAnnotation (markedPrefixes (keys A)) x.1
    unfold keepAnnotation
    rw [hany]
  rw [e1, hd0, e3, ← e2]

/-- a batch of new annotations, all under the prefix `p0` and marking it (the `kopf-managed` marker is
    among them), appended to annotations that have nothing under `p0`. -/
theorem group_of_append {A new : Kvs} {p0 : List Char}
    (hA : ∀ k, k ∈ keys A → pfx k ≠ some p0) (hnew : ∀ k, k ∈ keys new → pfx k = some p0)
    (hmark : p0 ∈ markedPrefixes (keys new)) :
    AgreeOffPrefix p0 (A ++ new) A ∧ GroupDropped p0 A ∧ GroupDropped p0 (A ++ new) := by
  refine ⟨?_, ?_, ?_⟩
  · unfold AgreeOffPrefix
    rw [List.filter_append]
    have : new.filter (fun kv => pfx kv.1 != some p0) = [] := by
      apply List.filter_eq_nil_iff.2
      intro kv hkv
      have : pfx kv.1 = some p0 := hnew kv.1 (by simp only [keys, List.mem_map]; exact ⟨kv, hkv, rfl⟩)
      simp [this]
    rw [this, List.append_nil]
  · intro k hk hp; exact absurd hp (hA k hk)
  · intro k _ _
    obtain ⟨x, hx, hmx⟩ := mem_markedPrefixes.1 hmark
    refine mem_markedPrefixes.2 ⟨x, ?_, hmx⟩
    simp only [keys, List.map_append, List.mem_append]
    exact Or.inr hx

end Kopf.C04
