/-
  C13 helper lemmas — step-level read-backs of the transition system (not property theorems: they restate `step`).
-/
import Kopf.Lemmas.C13_Timely
namespace Kopf.C13

/-- In the transition system: after operator `i` processed the status, it is paused iff the status
    holds a live record of another identity with priority ≥ its own. -/
theorem deliver_paused_iff {u : Int} {s s' : State} {i : Identity} (h : step u s (.deliver i) = some s') :
    ∃ o o', s.ops i = some o ∧ s'.ops i = some o' ∧ o'.prio = o.prio ∧
      (o'.paused = true ↔
        ∃ j r, (j, r) ∈ s.status ∧ j ≠ i ∧ s.now < r.lastseen + r.lifetime * u ∧ r.priority ≥ o.prio) := by
  obtain ⟨o, ho, _, _, _, _, _, hops⟩ := deliver_spec h
  refine ⟨o, { o with paused := blockedB u s.status i o.prio s.now, seen := some (s.ver, s.now),
                      sleeping := willTouch u s i o }, ho, by rw [hops]; simp, rfl, ?_⟩
  simp only [blockedB_iff, dead_false_iff]

/-- In the transition system: after operator `i` processed the status, no dead record of anybody else is left, and
    every live record — and `i`'s own, dead or not — is still there. -/
theorem deliver_cleans {u : Int} {s s' : State} {i : Identity} (h : step u s (.deliver i) = some s') :
    ∀ j r, (j, r) ∈ s'.status ↔ ((j, r) ∈ s.status ∧ (r.dead u s.now = false ∨ j = i)) := by
  obtain ⟨_, _, _, _, hst, _, _, _⟩ := deliver_spec h
  intro j r
  rw [hst, List.mem_filter]
  cases hd : r.dead u s.now <;> simp


/-- A graceful exit interrupts a `process_peering_event` call that sleeps towards a blocker's deadline
    (`_wait_for_depletion` sets the stream pressure): the call returns without touching, so `wake` is not enabled any
    more for the exited operator. -/
theorem exit_interrupts_sleep {u : Int} {s s' : State} {i : Identity} (h : step u s (.exit i) = some s') :
    (∃ o, s'.ops i = some o ∧ o.alive = false ∧ o.sleeping = false) ∧ ∀ lag, step u s' (.wake i lag) = none := by
  obtain ⟨o, _, _, _, _, hops, _⟩ := exit_spec h
  have h1 : s'.ops i = some { o with alive := false, sleeping := false, nextKA := none, inflight := none } := by rw [hops]; simp
  refine ⟨⟨_, h1, rfl, rfl⟩, ?_⟩
  intro lag
  simp only [step, h1]
  simp

theorem expire_then_dead {u : Int} {s s' : State} {a : Identity} (h : step u s (.expire a) = some s') :
    (∃ d : Nat, step u s (.tick d) = some s') ∧ ∀ r, (a, r) ∈ s.status → r.dead u s'.now = true :=
  expire_spec h

/-- What a call on an older view does, for every view (taken at a version that is not the current one): the verdict is
    about the VIEW (a peer of another identity, live at the operator's own clock, priority ≥ own); the peering object
    is not touched - the clean names the old version and is refused. -/
theorem stale_verdict {u : Int} {s s' : State} {i : Identity} {view : Status} {vv : Nat}
    (h : step u s (.deliverStale i view vv) = some s') (hv : vv ≠ s.ver) :
    ∃ o o', s.ops i = some o ∧ s'.ops i = some o' ∧ o'.prio = o.prio ∧
      (o'.paused = true ↔
        ∃ j r, (j, r) ∈ view ∧ j ≠ i ∧ s.now < r.lastseen + r.lifetime * u ∧ r.priority ≥ o.prio) ∧
      s'.status = s.status ∧ s'.ver = s.ver := by
  obtain ⟨o, ho, _, _, _, hst, hver, hops⟩ := stale_refused_spec h hv
  refine ⟨o, { o with paused := blockedB u view i o.prio s.now, sleeping := willTouchView u view i o s.now, seen := staleSeen u s i o.prio view },
    ho, by rw [hops]; simp, rfl, ?_, hst, hver⟩
  simp only [blockedB_iff, dead_false_iff]


/-- A keep-alive of a running operator with `lifetime ≥ 1`, landing `lag` ticks after it was stamped, puts a record
    stamped `now − lag` with its priority, and leaves no other record under its identity. -/
theorem keepalive_writes {u : Int} {s s' : State} {i : Identity} {o : Op} {lag : Nat} (hu : 0 < u) (ho : s.ops i = some o)
    (hL : 1 ≤ o.lifetime) (h : step u s (.keepalive i lag) = some s') :
    (i, { priority := o.prio, lifetime := o.lifetime, lastseen := s.now - lag }) ∈ s'.status ∧
      ∀ r, (i, r) ∈ s'.status → r = { priority := o.prio, lifetime := o.lifetime, lastseen := s.now - lag } := by
  obtain ⟨o', ho', _, _, _, hst, _⟩ := keepalive_spec h
  rw [ho] at ho'; injection ho' with ho'; subst ho'
  rw [hst, touchVal_pos hu hL]
  refine ⟨mem_set.mpr (Or.inl ⟨rfl, rfl⟩), ?_⟩
  intro r hm
  rcases mem_set.mp hm with ⟨_, rfl⟩ | ⟨hne, _⟩
  · rfl
  · exact absurd rfl hne


end Kopf.C13
