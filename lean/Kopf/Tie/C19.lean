/-
  Tie obligation for C19's orchestrator protocol: the shape regenerated from /repo's AST
  (Kopf/Extracted/C19.lean: is `adjust_tasks` awaited inside the `async with insights.revised` block of
  `orchestration.orchestrator`, after `await insights.revised.wait()` in the same loop?) is the variant
  of the model (`Orch.init true`) that `revise_wakes`, `no_lost_wakeup` and
  `exactly_one_watch_async_partial` are about.
-/
import Kopf.Extracted.C19
import Kopf.Model.C19_Orchestrator
import Kopf.Model.C19_Wiring
import Kopf.Model.C19_Resources
namespace Kopf.C19.Tie

theorem pass_under_lock : (Orch.init Extracted.lockedPass).lockedPass = true := by decide

/-- The wiring read off /repo's AST (orchestration.orchestrator / spawn_missing_watchers, queueing.watcher): the
    operator's `operator_paused` ToggleSet is handed over at all three places, so `opStep` is `step`
    (`wired_stream_is_the_stream`) and every theorem about one watch-stream — `paused_silent`, `fresh_list_on_resume`
    — is a theorem about every resource watch-stream of the operator. -/
def extractedWiring : Wiring :=
  ⟨Extracted.ensembleGetsToggles, Extracted.watcherGetsToggles, Extracted.streamGetsToggles⟩

theorem pause_wired : extractedWiring.wired = true := by decide

/-- The split per handler kind read off /repo's AST (observation.revise_resources): `patched_selectors` is the union of
    the spawning and the changing registries' selectors — on.event and index handlers never make a resource need
    `patch` — and it is what `_disable_unsuitable_resources` is called with, on `insights.watched_resources`: the
    model's `servedOf patchKinds` (`readonly_event_only_served`, `unsuitable_not_served`, …) is about that call. -/
theorem patch_kinds_eq :
    (⟨Extracted.patchedIndexing, Extracted.patchedWatching, Extracted.patchedSpawning, Extracted.patchedChanging⟩ : Rsc.PatchKinds)
      = Rsc.patchKinds ∧ Extracted.unsuitableGetsPatched = true := by decide

end Kopf.C19.Tie
