/-
  Tie obligation for C19's orchestrator protocol: the shape regenerated from /repo's AST
  (Kopf/Extracted/C19.lean: is `adjust_tasks` awaited inside the `async with insights.revised` block of
  `orchestration.orchestrator`, after `await insights.revised.wait()` in the same loop?) is the variant
  of the model (`Orch.init true`) that `revise_wakes`, `no_lost_wakeup` and
  `exactly_one_watch_async_partial` are about.
-/
import Kopf.Extracted.C19
import Kopf.Model.C19_Orchestrator
namespace Kopf.C19.Tie

theorem pass_under_lock : (Orch.init Extracted.lockedPass).lockedPass = true := by decide

end Kopf.C19.Tie
