/-
  Tie obligations for C02: boolean definitions regenerated from progression.py / lifecycles.py equal
  the model's.
-/
import Kopf.Extracted.C02
namespace Kopf.C02.Tie
open Kopf.C02

theorem finished_eq (r : Rec) : Extracted.finished r = r.finished := by
  simp [Extracted.finished, Rec.finished]

theorem sleeping_eq (r : Rec) (now : Tick) : Extracted.sleeping r now = r.sleeping now := by
  unfold Extracted.sleeping Rec.sleeping
  cases hd : r.delayed <;> simp

theorem awakened_eq (r : Rec) (now : Tick) : Extracted.awakened r now = r.awakened now := by
  simp [Extracted.awakened, Rec.awakened]

theorem success_eq (r : Rec) (o : Outcome) (t : Tick) : (withOutcome r o t).success = Extracted.success o := by
  simp [withOutcome, Extracted.success]

theorem failure_eq (r : Rec) (o : Outcome) (t : Tick) : (withOutcome r o t).failure = Extracted.failure o := by
  simp [withOutcome, Extracted.failure]

theorem one_by_one_eq (st : St) (todo : List Id) : plan .oneByOne st todo = Extracted.oneByOne todo := rfl

theorem all_at_once_eq (st : St) (todo : List Id) : plan .allAtOnce st todo = Extracted.allAtOnce todo := rfl

end Kopf.C02.Tie
