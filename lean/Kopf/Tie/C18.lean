/-
  Tie obligations for C18: the definitions regenerated from /repo's AST (Kopf/Extracted/C18.lean)
  equal the hand-written model that the property theorems are about.
-/
import Kopf.Extracted.C18
namespace Kopf.C18.Tie
open Kopf.C18

/-- the `isinstance` facts of each error class (AdmissionError ⊂ PermanentError, see
    `admission_is_permanent`; TemporaryError and PermanentError are siblings) -/
def clsOf : ErrKind → Extracted.Cls
  | .admission => ⟨true, true, false⟩
  | .permanent => ⟨false, true, false⟩
  | .temporary => ⟨false, false, true⟩
  | .other => ⟨false, false, false⟩

/-- the sort key of `build_response` is the model's priority -/
theorem key_eq (k : ErrKind) : Extracted.key (clsOf k) = prio k := by
  cases k <;> rfl

theorem admission_is_permanent : Extracted.admissionBases = ["PermanentError"] := by decide

/-- `_matches_subresource` -/
theorem subresource_eq (h : Handler) (c : Cause) :
    Extracted.matchesSubresource h c = matchesSubresource h c := by
  simp [Extracted.matchesSubresource, matchesSubresource]

/-- `iter_handlers` with `match()` = subresource test ∧ the remaining filters -/
theorem gate_eq (h : Handler) (c : Cause) (m : Bool) :
    Extracted.gate h c (Extracted.matchesSubresource h c && m) = gate h c m := by
  simp only [Extracted.gate, gate, subresource_eq, matchingOperation]
  try (
    cases (c.reason == none || c.reason == some h.reason) <;>
    cases (c.webhook == none || c.webhook == some h.id) <;>
    cases (!opsTruthy h || c.operation == none || opsContains h "*" || opInOps h c) <;>
    cases (h.reason != WebhookType.mutating || c.operation != some "DELETE" || explicitlyForDeletion h) <;>
    cases (matchesSubresource h c) <;> cases m <;> simp)

/-- `match()` still contains the subresource test -/
theorem match_has_subresource :
    Extracted.matchConjuncts.contains "_matches_subresource(handler, cause)" = true := by decide

/-- `build_webhooks`: `rules[].operations = list(handler.operations or ['*'])` -/
theorem managed_rule_ops_eq (h : Handler) : Extracted.managedRuleOps h = managedRuleOps h := by
  unfold Extracted.managedRuleOps managedRuleOps
  cases h.operations with
  | none => rfl
  | some ops => cases ops <;> rfl

end Kopf.C18.Tie
