/-
  Tie obligations for C09: what the translator reads from `daemons.stop_daemons` / `stop_daemon` / `spawn_daemons` / `match_daemons`
  (Kopf/Extracted/C09.lean, regenerated on every run) equals the hand-written model that the
  property theorems are about.
-/
import Kopf.Extracted.C09
import Kopf.Model.C09_Inventory
namespace Kopf.C09.Tie
open Kopf.C09

/-- the if/elif stage chain of `stop_daemons`, branch by branch (condition, reason set, cancel, wait, delay) -/
theorem stage_eq (a : Atoms) : Extracted.stage a = stage a := by
  rcases a with ⟨d, b, ab, t, at'⟩
  cases d <;> cases b <;> cases ab <;> cases t <;> cases at' <;> rfl

/-- the linear phases of `stop_daemon`: guards, reason, cancel, what is awaited -/
theorem killer_phases_eq : Extracted.killerPhases = killerPhases := by decide

/-- timers are stopped with `backoff = timeout = None` by both functions -/
theorem timers_force_none : Extracted.timersForceNone = true := by decide

/-- `_timer`'s after-run idle loop tests the stopper: the variant `progress` is about -/
theorem timer_loop_guarded : Extracted.timerIdleLoopGuarded = treeGuarded := by decide

/-- `daemon_killer` iterates snapshots (`list(...)`) of the memories and of each `running_daemons`,
    never a live dict view across an await: the iteration `killer_sweep_visits_all` is about -/
theorem killer_iterates_snapshots : Extracted.killerIteratesSnapshots = true := by decide

/-- every round of the pausing loop spawns `stop_daemon` for every listed daemon, whatever its stopper holds -/
theorem sweep_unconditional (i : Inst) : Extracted.sweepUnconditional = sweepSpawns i := rfl

/-- the rounds are one second apart -/
theorem killer_period_eq : Extracted.killerPeriod = killerPeriod := by decide

/-- both retry loops start every iteration with `await asyncio.sleep(0)`: the variant `progress` / `daemon_progress` are about -/
theorem loops_yield_each_iteration : Extracted.loopsYieldEachIteration = treeYielding := by decide

/-- `_timer` remembers a final failure in `forever_stopped` at once (the model's label `failForGood`) -/
theorem timer_failure_is_forever : Extracted.timerFailureIsForever = true := by decide

/-- a DELETED event stops what runs for the object and nothing is spawned for a gone object (since 25da2b9):
    the variant `stopped_when_object_disappears` is about -/
theorem stops_gone : Extracted.stopsGone = treeStopsGone := by decide

/-- the killer's `finally:` marks the memories before its sweep, `spawn_daemons` obeys the mark (since 1d3a667):
    the variant `stopped_when_operator_exits` / `nothing_spawned_while_exiting` are about -/
theorem marks_exiting : Extracted.marksExiting = treeMarksExiting := by decide

/-- the view the exit mark goes over (`ResourceMemories.iter_all_daemon_memories`) has every remembered object in it, with
    or without running daemons: the variant `exit_mark_covers_every_memory` / `nothing_spawned_after_exit_mark` are about,
    and what the one-pair model's unconditional `exitBegin` presumes -/
theorem views_every_memory : Extracted.viewsEveryMemory = Inv.treeViewAll := by decide

/-- every sleep of `_timer` / `_daemon` is interrupted by the instance's stopper: what `sleepSuspends` (a set stopper
    never suspends) and with it `stopped_timer_returns` / `stopped_daemon_returns` presume -/
theorem sleeps_wake_on_stop : Extracted.sleepsWakeOnStop = true := by decide

/-- `_timer` re-checks the stopper after the wait for idleness (`tstep` at `idleDone`): `stopped_timer_returns` -/
theorem timer_rechecks_stop_after_idle : Extracted.timerRechecksStopAfterIdle = true := by decide

/-- `spawn_daemons` for one selected handler — spawn when the id is free, a re-check delay (`cancellation_polling`) when the
    previous instance is still there with its stopper set, nothing otherwise: the variant (`escorts`, since ef26531)
    `deferred_start_is_rescheduled` / `spawn_only_when_none` are about -/
theorem spawn_act_eq (idTaken stopperSet : Bool) : Extracted.spawnAct idTaken stopperSet = spawnAct treeEscorts idTaken stopperSet := by
  cases idTaken <;> cases stopperSet <;> rfl

/-- `match_daemons` visits the daemons whose handler is not selected AND those that carry FILTERS_MISMATCH: the variant
    `escorted_whatever_matching` / `mismatch_stages_visited` are about -/
theorem match_visits_eq (notSelected flaggedMismatch : Bool) :
    Extracted.matchVisits notSelected flaggedMismatch = matchVisits treeEscorts notSelected flaggedMismatch := by
  cases notSelected <;> cases flaggedMismatch <;> rfl

/-- `match_daemons` asks for an immediate re-visit (delay 0) when a visited daemon has ended while its handler is selected:
    `ended_in_visit_asks_revisit` / `replaced_within_one_further_cycle` -/
theorem revisit_now_eq (selected gone : Bool) : Extracted.revisitNow selected gone = revisitNow treeEscorts selected gone := by
  cases selected <;> cases gone <;> rfl

end Kopf.C09.Tie
