/-
  Tie obligations for C15: every boolean skeleton regenerated from /repo's AST
  (Kopf/Extracted/C15.lean) equals the skeleton the hand-written model is built from, for all
  values of the atoms. `_deduplicated`'s loop is tied differentially only (its key is re-read here).
-/
import Kopf.Extracted.C15
namespace Kopf.C15.Tie
open Kopf.C15

theorem match_eq (a : MatchAtoms) : Extracted.matchCore a = matchCore a := by
  rcases a with ⟨r, s, l, n, fv, fc, w⟩
  cases r <;> cases s <;> cases l <;> cases n <;> cases fv <;> cases fc <;> cases w <;> rfl

theorem prematch_eq (a : MatchAtoms) : Extracted.prematchCore a = prematchCore a := by
  rcases a with ⟨r, s, l, n, fv, fc, w⟩
  cases r <;> cases s <;> cases l <;> cases n <;> cases fv <;> cases fc <;> cases w <;> rfl

theorem resource_eq (a : ResAtoms) : Extracted.resCore a = resCore a := by
  rcases a with ⟨x, y⟩; cases x <;> cases y <;> rfl

theorem subresource_eq (a : SubAtoms) : Extracted.subCore a = subCore a := by
  rcases a with ⟨x, y, z, w⟩; cases x <;> cases y <;> cases z <;> cases w <;> rfl

/-- every non-webhook handler passes `_matches_subresource` (the model's `subresourceOk = true`) -/
theorem subresource_nonwebhook (c s e : Bool) :
    Extracted.subCore { hWebhook := false, cWebhook := c, star := s, same := e } = true := by
  cases c <;> cases s <;> cases e <;> rfl

theorem when_eq (a : WhenAtoms) : Extracted.whenCore a = whenCore a := by
  rcases a with ⟨x, y⟩; cases x <;> cases y <;> rfl

theorem labels_eq (a : GuardAtoms) : Extracted.labelsCore a = guardCore a := by
  rcases a with ⟨x, y⟩; cases x <;> cases y <;> rfl

theorem annotations_eq (a : GuardAtoms) : Extracted.annotationsCore a = guardCore a := by
  rcases a with ⟨x, y⟩; cases x <;> cases y <;> rfl

theorem metadata_step_eq (a : MetaAtoms) : Extracted.metaStep a = metaStep a := by
  rcases a with ⟨x, y, z, u, v, w⟩
  cases x <;> cases y <;> cases z <;> cases u <;> cases v <;> cases w <;> rfl

theorem field_values_eq (a : FVAtoms) : Extracted.fvCore a = fvCore a := by
  rcases a with ⟨f, a1, a2, a3, a4, b1, b2, b3, b4⟩
  cases f <;> cases a1 <;> cases a2 <;> cases a3 <;> cases a4 <;>
    cases b1 <;> cases b2 <;> cases b3 <;> cases b4 <;> rfl

/-- `current_only = cause.old is None and not getattr(handler, 'field_needs_change', False)` (/repo bd6cd41) -/
theorem current_only_eq (a : CurAtoms) : Extracted.currentOnlyCore a = currentOnlyCore a := by
  rcases a with ⟨x, y⟩; cases x <;> cases y <;> rfl

/-- `values = [new] if current_only else [new, old]` for changing causes, `[val]` otherwise -/
theorem values_eq :
    (∀ b, Extracted.valuesChanging b = valuesChanging b) ∧ Extracted.valuesOther = valuesOther := by
  refine ⟨fun b => ?_, by decide⟩
  cases b <;> decide

theorem change_eq (a : ChangeAtoms) : Extracted.changeCore a = changeCore a := by
  rcases a with ⟨x, y⟩; cases x <;> cases y <;> rfl

/-- "the field actually changed" (/repo 8d1358b): by identity with the absent marker on a side, else
    `bool(diffs.diff(old, new)) or old != new` -/
theorem changed_eq (a : ChangedAtoms) : Extracted.changedCore a = changedCore a := by
  rcases a with ⟨a1, a2, a3, a4, a5⟩
  cases a1 <;> cases a2 <;> cases a3 <;> cases a4 <;> cases a5 <;> rfl

theorem old_side_eq (a : SideAtoms) : Extracted.oldCore a = sideCore a := by
  rcases a with ⟨a1, a2, a3, a4, a5, a6, a7⟩
  cases a1 <;> cases a2 <;> cases a3 <;> cases a4 <;> cases a5 <;> cases a6 <;> cases a7 <;> rfl

theorem new_side_eq (a : SideAtoms) : Extracted.newCore a = sideCore a := by
  rcases a with ⟨a1, a2, a3, a4, a5, a6, a7⟩
  cases a1 <;> cases a2 <;> cases a3 <;> cases a4 <;> cases a5 <;> cases a6 <;> cases a7 <;> rfl

/-- `old` is resolved from `cause.old`, `new` from `cause.new` (as `matchesFieldChanges` assumes) -/
theorem sides_src_eq : Extracted.oldSrc = Src.old ∧ Extracted.newSrc = Src.new := by decide

theorem field_changes_eq (a : FCAtoms) : Extracted.fcCore a = fcCore a := by
  rcases a with ⟨a1, a2, a3, a4, a5, a6⟩
  cases a1 <;> cases a2 <;> cases a3 <;> cases a4 <;> cases a5 <;> cases a6 <;> rfl

theorem iter_plain_eq (a : SelAtoms) :
    Extracted.selIndexing a = selPlainCore a ∧ Extracted.selWatching a = selPlainCore a ∧
    Extracted.selSpawning a = selPlainCore a := by
  rcases a with ⟨x, y, z, w⟩; cases x <;> cases y <;> cases z <;> cases w <;> decide

theorem requires_finalizer_eq (a : SelAtoms) :
    Extracted.reqFinSpawningCore a = reqFinSpawningCore a ∧
    Extracted.reqFinChangingCore a = reqFinChangingCore a ∧
    Extracted.prematchAnyCore a = prematchAnyCore a := by
  rcases a with ⟨x, y, z, w⟩; cases x <;> cases y <;> cases z <;> cases w <;> decide

theorem dedup_key_eq : Extracted.dedupKeyFields = dedupKeyFields := by decide

theorem blind_eq (a : BlindAtoms) : Extracted.blindCore a = blindCore a := by
  rcases a with ⟨x, y⟩; cases x <;> cases y <;> rfl

/-- the variant of `processing.py` the translator recognised (`Extracted.repairs`) is the one the property
    theorems are named after: /repo ad4ec08 (30557a0's deadline arm and 02af7ce's rework of 608a57d, WITHOUT
    423b86f's blind purge: the operator is blind again to the objects it does not match). The flags are not
    trusted: `blind_purge_eq` / `waiting_eq` / `forget_eq` re-derive them from the translated skeletons. -/
theorem repairs_known : Extracted.repairs = Repairs.head := by decide

/-- /repo ad4ec08 (the revert of 423b86f, finding C15-F9): the blind branch does nothing but drop the
    changing cause -- no purge of progress records "by name" (`Extracted.blindPurges` is `true` exactly for
    the body `storage = …; owned_handlers = get_resource_handlers(…); state = State.from_storage(…);
    state.purge(…); changing_cause = None` of 423b86f; any other body is an extraction error) -/
theorem blind_purge_eq : Extracted.blindPurges = Extracted.repairs.blindPurge ∧ Extracted.blindPurges = false := by
  decide

/-- the early exit returns a delay besides the spawning delays: the translated if-chain is the model's
    `waitingCore` at the recognised variant (/repo 30557a0; the rework adds the carried branch) -/
theorem waiting_eq (a : WaitAtoms) : Extracted.waitingExitCore a = waitingCore Extracted.repairs a := by
  rcases a with ⟨x, y, z, w⟩; cases x <;> cases y <;> cases z <;> cases w <;> rfl

/-- /repo 608a57d (removed again by the rework): a carried patch that yields no operation on the body at
    hand is forgotten before the cycle -/
theorem forget_eq (a : ForgetAtoms) :
    Extracted.forgetCarriedCore a = (Extracted.repairs.forgetFulfilled && forgetCore a) := by
  rcases a with ⟨x, y⟩; cases x <;> cases y <;> rfl

theorem finalizer_decision_eq (a : FinAtoms) :
    Extracted.mustBlockCore a = mustBlockCore a ∧ Extracted.addingCore a = addingCore a ∧
    Extracted.removingCore a = removingCore a := by
  rcases a with ⟨a1, a2, a3, a4, a5, a6⟩
  cases a1 <;> cases a2 <;> cases a3 <;> cases a4 <;> cases a5 <;> cases a6 <;> decide

theorem release_eq (a : ReleaseAtoms) : Extracted.releaseCore a = releaseCore a := by
  rcases a with ⟨x, y, z, w⟩; cases x <;> cases y <;> cases z <;> cases w <;> rfl

theorem early_exit_eq (a : ExitAtoms) : Extracted.earlyExitCore a = earlyExitCore a := by
  rcases a with ⟨x, y, z⟩; cases x <;> cases y <;> cases z <;> rfl

/-- the loop body of `ChangingRegistry.iter_handlers`, incl. the `handler.field_needs_change` atom of
    the field-handlers-on-deletion skip (/repo 17e5c42) -/
theorem iter_changing_eq (a : ChgAtoms) : Extracted.selChangingCore a = selChangingCore a := by
  rcases a with ⟨a1, a2, a3, a4, a5, a6, a7, a8, a9⟩
  cases a1 <;> cases a2 <;> cases a3 <;> cases a4 <;> cases a5 <;> cases a6 <;> cases a7 <;> cases a8 <;>
    cases a9 <;> rfl

theorem resumed_filter_eq (a : ResumedAtoms) : Extracted.resumedKeepCore a = resumedKeepCore a := by
  rcases a with ⟨x, y⟩; cases x <;> cases y <;> rfl

theorem apply_touch_eq (a : ApplyAtoms) : Extracted.applyTouchCore a = applyTouchCore a := by
  rcases a with ⟨x, y, z, w⟩; cases x <;> cases y <;> cases z <;> cases w <;> rfl

theorem selector_parts_eq (a : OptAtoms) :
    Extracted.selGroupCore a = optCore a ∧ Extracted.selKindCore a = optCore a ∧
    Extracted.selPluralCore a = optCore a ∧ Extracted.selSingularCore a = optCore a ∧
    Extracted.selCategoryCore a = optCore a ∧ Extracted.selShortcutCore a = optCore a := by
  rcases a with ⟨x, y⟩; cases x <;> cases y <;> decide

theorem selector_version_eq (a : VersionAtoms) : Extracted.selVersionCore a = versionCore a := by
  rcases a with ⟨x, y, z, w⟩; cases x <;> cases y <;> cases z <;> cases w <;> rfl

theorem selector_any_eq (a : AnyAtoms) : Extracted.selAnyCore a = anyCore a := by
  rcases a with ⟨a1, a2, a3, a4, a5, a6, a7, a8⟩
  cases a1 <;> cases a2 <;> cases a3 <;> cases a4 <;> cases a5 <;> cases a6 <;> cases a7 <;> cases a8 <;> rfl

theorem selector_fn_eq (a : FnAtoms) : Extracted.selFnCore a = fnCore a := by
  rcases a with ⟨x, y, z, w⟩; cases x <;> cases y <;> cases z <;> cases w <;> rfl

theorem selector_check_eq (a : CheckAtoms) : Extracted.selCheckCore a = checkCore a := by
  rcases a with ⟨a1, a2, a3, a4, a5, a6, a7, a8, a9⟩
  cases a1 <;> cases a2 <;> cases a3 <;> cases a4 <;> cases a5 <;> cases a6 <;> cases a7 <;> cases a8 <;>
    cases a9 <;> rfl

end Kopf.C15.Tie
