/-
  Tie obligations for C05: the definitions regenerated from /repo's AST (Kopf/Extracted/C05.lean)
  equal the hand-written model that the property theorems are about.
-/
import Kopf.Extracted.C05
namespace Kopf.C05.Tie
open Kopf.C05

theorem detect_eq (i : In) : (Extracted.detect i).1 = detectReason i := by
  rcases i with ⟨d, m, b, o, df, ini⟩
  cases d <;> cases m <;> cases b <;> cases o <;> cases df <;> cases ini <;> rfl

/-- the only branch that forces `initial=False` is creation -/
theorem create_forces_noninitial (i : In) :
    (Extracted.detect i).2 = decide ((Extracted.detect i).1 = Reason.create) := by
  rcases i with ⟨d, m, b, o, df, ini⟩
  cases d <;> cases m <;> cases b <;> cases o <;> cases df <;> cases ini <;> rfl

theorem gate_eq (h : Handler) (c : Cause) (m : Bool) : Extracted.gate h c m = (gate h c && m) := by
  rcases h with ⟨hr, hi, hd⟩
  rcases c with ⟨cr, ci, cm⟩
  cases hr <;> cases hi <;> cases hd <;> cases ci <;> cases cm <;> cases m <;>
    simp [Extracted.gate, gate]

theorem handler_reasons_eq : Extracted.handlerReasons = handlerReasons := by decide

end Kopf.C05.Tie
