/-
  Tie obligations for C05: the definitions regenerated from /repo's AST (Kopf/Extracted/C05.lean)
  equal the hand-written model that the property theorems are about.
-/
import Kopf.Extracted.C05
namespace Kopf.C05.Tie
open Kopf.C05

theorem detect_eq (i : In) : (Extracted.detect i).1 = detectReason i := by
  rcases i with ⟨d, m, b, o, df, ini⟩
  cases d <;> cases m <;> cases b <;> cases o <;> cases df <;> cases ini <;> rfl

/-- the only branch that forces `initial=False` is creation -/
theorem create_forces_noninitial (i : In) :
    (Extracted.detect i).2 = decide ((Extracted.detect i).1 = Reason.create) := by
  rcases i with ⟨d, m, b, o, df, ini⟩
  cases d <;> cases m <;> cases b <;> cases o <;> cases df <;> cases ini <;> rfl

theorem gate_eq (h : Shape) (c : Cause) (m : Bool) : Extracted.gate h c m = (gateS h c && m) := by
  rcases h with ⟨hr, hi, hd, hn⟩
  rcases c with ⟨cr, ci, cm⟩
  cases hr <;> cases hi <;> cases hd <;> cases hn <;> cases ci <;> cases cm <;> cases m <;>
    simp [Extracted.gate, gateS]

/-- Stated on the extracted code itself (/repo 17e5c42): a sub-handler-shaped handler (no cause kind, not
    resuming, no change of a field needed) is yielded by `iter_handlers` for every cause — on objects marked
    for deletion too — exactly when `match()` accepts it. -/
theorem sub_gate_is_match (h : Shape) (c : Cause) (m : Bool) (hk : h.reason = none)
    (hni : h.initial = false) (hnc : h.needsChange = false) : Extracted.gate h c m = m := by
  rcases h with ⟨hr, hi, hd, hn⟩
  rcases c with ⟨cr, ci, cm⟩
  cases cm <;> cases m <;> simp_all [Extracted.gate]

/-- … while a field handler (needs a change) is never yielded on a marked object, whatever `match()` says. -/
theorem field_gate_on_marked (h : Shape) (c : Cause) (m : Bool) (hk : h.reason = none)
    (hni : h.initial = false) (hnc : h.needsChange = true) (hm : c.marked = true) :
    Extracted.gate h c m = false := by
  rcases h with ⟨hr, hi, hd, hn⟩
  rcases c with ⟨cr, ci, cm⟩
  cases m <;> simp_all [Extracted.gate]

theorem handler_reasons_eq : Extracted.handlerReasons = handlerReasons := by decide

end Kopf.C05.Tie
