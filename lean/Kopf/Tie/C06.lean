/-
  Tie obligations for C06: the conditions of the finalizer block regenerated from the AST of
  `processing.process_resource_causes` (Kopf/Extracted/C06.lean) equal the gates of the model, their
  effects (which fn is appended, whether `changing_cause = None`) are the model's, and the model's
  `decision` is exactly the composition of the extracted conditions in program order.
-/
import Kopf.Extracted.C06
namespace Kopf.C06.Tie
open Kopf.C06

theorem mustBlock_eq (a : Atoms) :
    Extracted.mustBlock a = mustBlockG a.spawning a.spawnReq a.changing a.changeReq := by
  rcases a with ⟨a, b, c, d, e, f, g, h, i, j, dl, ps, ie⟩
  cases a <;> cases b <;> cases c <;> cases d <;> rfl

theorem add_eq (a : Atoms) :
    Extracted.addCond a = addG (mustBlockG a.spawning a.spawnReq a.changing a.changeReq) a.isBlocked a.isOngoing := by
  rcases a with ⟨a, b, c, d, e, f, g, h, i, j, dl, ps, ie⟩
  cases a <;> cases b <;> cases c <;> cases d <;> cases e <;> cases f <;> rfl

theorem remove_eq (a : Atoms) :
    Extracted.removeCond a = removeG (mustBlockG a.spawning a.spawnReq a.changing a.changeReq) a.isBlocked := by
  rcases a with ⟨a, b, c, d, e, f, g, h, i, j, dl, ps, ie⟩
  cases a <;> cases b <;> cases c <;> cases d <;> cases e <;> rfl

theorem early_eq (a : Atoms) : Extracted.earlyCond a = earlyG a.changingAfter a.consistent := by
  rcases a with ⟨a, b, c, d, e, f, g, h, i, j, dl, ps, ie⟩
  cases g <;> cases h <;> rfl

theorem release_eq (a : Atoms) :
    Extracted.releaseCond a = releaseG a.deletedEvent a.isOngoing a.isBlocked a.delaysNonEmpty := by
  rcases a with ⟨a, b, c, d, e, f, g, h, i, j, dl, ps, ie⟩
  cases e <;> cases f <;> cases i <;> cases j <;> rfl

/-- The condition under which the early exit adds the rest of the waiting time to the delays it returns. -/
theorem wait_eq (a : Atoms) : Extracted.waitCond a = waitG a.deadline a.paused (!a.initiallyEmpty) := by
  rcases a with ⟨a, b, c, d, e, f, g, h, i, j, dl, ps, ie⟩
  cases dl <;> cases ps <;> cases ie <;> rfl

/-- (fn appended, `changing_cause = None` in that branch) for the three branches; and there are
exactly three `patch.fns.append` sites in the function, all of them in these branches. -/
theorem effects_eq :
    Extracted.addEffect = (Fn.block, true) ∧ Extracted.removeEffect = (Fn.allow, true) ∧
    Extracted.releaseEffect = (Fn.allow, false) ∧ Extracted.appendSites = 3 ∧
    Extracted.earlyReturnsBeforeRelease = true := by decide

/-- The hand-written `decision` is the extracted conditions chained in program order:
`changing_cause` survives iff neither early branch fired; `delays` = spawning ++ changing. -/
theorem decision_eq (i : In) :
    let a0 : Atoms := ⟨i.spawning, i.spawnReq, i.changing, i.changeReq, i.isBlocked, i.isOngoing,
                       false, i.consistent, i.deletedEvent, false, i.deadline, i.paused, !i.carried⟩
    let add := Extracted.addCond a0
    let rem := Extracted.removeCond a0
    let chg := i.changing && !((if add then Extracted.addEffect.2 else false) || (if rem then Extracted.removeEffect.2 else false))
    let a1 : Atoms := { a0 with changingAfter := chg }
    let early := Extracted.earlyCond a1
    let a2 : Atoms := { a1 with delaysNonEmpty := i.spawnDelays || (chg && i.changeDelays) }
    decision i = { add := add, removeUnneeded := rem, release := !early && Extracted.releaseCond a2,
                   handlersRun := chg && !early,
                   -- `return list(spawning_delays) + list(waiting_delays), False` vs.
                   -- `delays = list(spawning_delays) + list(changing_delays)`
                   delays := if early then i.spawnDelays || Extracted.waitCond a0 else a2.delaysNonEmpty } := by
  rcases i with ⟨a, b, c, d, e, f, g, h, j, k, dl, ps, cr⟩
  -- (the other inputs occur in the same places on both sides; the three of the waiting delay are compared outright)
  cases a <;> cases b <;> cases c <;> cases d <;> cases e <;> cases f <;> cases h <;> cases dl <;> cases ps <;> cases cr <;> rfl

/-- What `process_resource_event` drops from a rejected patch before storing it in the memory is
what the model drops: both finalizer edits, i.e. every fn of the model. -/
theorem carry_eq : Extracted.ownFns = ownFns ∧ ∀ fns : List Fn, carry fns = fns.filter (fun f => !Extracted.ownFns.contains f) := by
  refine ⟨by decide, fun fns => ?_⟩
  rfl

/-- `application.apply`'s `changed`, on the atoms of a cycle whose JSON patch was not written, is the model's
`changedUnwritten`: with dict content the merge response's version decides; without it only a rejected JSON
patch (which leaves a remaining patch, and can only be rejected if there were fns) counts as a change. -/
theorem changed_eq (cycMerge cycChanges rejected fnsNonEmpty : Bool) (h : rejected = true → fnsNonEmpty = true) :
    Extracted.changed ⟨cycMerge || fnsNonEmpty, !cycMerge, rejected, cycChanges⟩ =
      changedUnwritten cycMerge cycChanges rejected := by
  cases cycMerge <;> cases cycChanges <;> cases rejected <;> cases fnsNonEmpty <;> simp_all [Extracted.changed, changedUnwritten]

end Kopf.C06.Tie
