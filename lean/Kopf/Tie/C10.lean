/-
  Tie obligations for C10: what the translator regenerates from the AST of `daemons._timer`
  (Kopf/Extracted/C10.lean) equals the hand-written model the property theorems are about.
-/
import Kopf.Extracted.C10
namespace Kopf.C10.Tie
open Kopf.C10

/-- The post-run branch chain of the code, evaluated on the facts of a configuration and a run
    (every sleep entered at `patched`), is the model's `wake` — for every configuration and run. -/
theorem post_eq (cfg : Cfg) (h' : HState) (it : Iter) :
    wakeOfPost it.patched (Extracted.post (postAtoms cfg h' it)) = wake cfg h' it := by
  rcases cfg with ⟨interval, sharp, idle, initialDelay, backoff, errors, retries⟩
  unfold wake Extracted.post postAtoms wakeOfPost
  cases hf : h'.finished with
  | false => simp
  | true =>
    cases interval with
    | some i => cases sharp <;> simp
    | none => cases idle <;> simp

/-- the reset at the top of the loop: the extracted condition is the model's, and `HState.atTop` applies it
    to the carried state (`state.done` = finished, `state.counts.failure` ≠ 0 = the failure flag) -/
theorem reset_top_eq (a : TopAtoms) : Extracted.resetAtTop a = resetAtTop a := rfl

theorem at_top_eq (h : HState) (top : Int) :
    h.atTop top = if Extracted.resetAtTop { done := h.finished, anyFailure := h.failure } = true then HState.fresh top else h := by
  unfold HState.atTop Extracted.resetAtTop
  cases h.finished <;> cases h.failure <;> simp

/-- the clock restart after the idle gate, and the final-failure mark -/
theorem restart_clock_eq (a : StartAtoms) : Extracted.restartsClock a = restartsClock a := rfl

theorem at_start_eq (h : HState) (start : Int) :
    h.atStart start = if Extracted.restartsClock { anyAttempt := h.retries != 0 } = true then HState.fresh start else h := by
  unfold HState.atStart Extracted.restartsClock
  by_cases hr : h.retries = 0 <;> simp [hr]

theorem forever_stopped_eq (a : TopAtoms) : Extracted.marksForeverStopped a = marksForeverStopped a := rfl

/-- `_runner`'s `finally`: an ended task whose stopper carries no reason is recorded as stopped for ever — a one-shot
    timer that returned, and a task ended by an exception alike -/
theorem runner_marks_eq (a : RunnerAtoms) : Extracted.runnerMarksForever a = runnerMarksForever a := rfl

/-- `_timer`: the post-run `patch_and_check` is inside `try: … except asyncio.CancelledError: raise / except Exception:
    remaining_patch = patch` — an API error keeps the undelivered patch and does not leave the loop (b8b3089) -/
theorem on_patch_error_eq : Extracted.onPatchError = onPatchError := rfl

/-- `_detect_causes`: when an event resets idling (`reset=` of the spawning cause: `essentially_changed`; without the
    former defaulting of `seen`, `bool(diffs.diff(seen, new))` is translated as `seen is None or the essences differ`) -/
theorem reset_cond_eq (a : ResetAtoms) : Extracted.resetCond a = resetCond a := by
  cases a with
  | mk s d1 d2 => cases s <;> simp [Extracted.resetCond, resetCond]

theorem resets_idle_eq (lastHandled seen : Option Nat) (new : Nat) :
    resetsIdle lastHandled seen new = Extracted.resetCond (resetAtoms lastHandled seen new) := by
  rw [reset_cond_eq]; rfl

/-- `idle_reset_time` is written at exactly these two places, each under the reset condition -/
theorem stamp_sites_eq : Extracted.stampSites = stampSites := by decide

/-- the idle gate's loop condition and sleep argument -/
theorem idle_cond_eq (a : GateAtoms) : Extracted.idleCond a = idleCond a := rfl
theorem idle_delay_eq (a : GateAtoms) : Extracted.idleDelay a = idleDelay a := rfl
/-- the idle-only poll loop's condition and sleep argument -/
theorem poll_cond_eq (a : GateAtoms) : Extracted.pollCond a = pollCond a := rfl
theorem poll_delay_eq (a : GateAtoms) : Extracted.pollDelay a = pollDelay a := rfl

/-- the statement skeleton of `_timer` (prologue and loop body, in order) -/
theorem shape_eq : Extracted.prologue = prologue ∧ Extracted.loopBody = loopBody := by decide

/-- every loop of `_timer` has `not stopper.is_set()` in its condition: setting the stopper ends the
    task before any further run (the model's run sequences are prefixes) -/
theorem stopper_guards_eq : Extracted.stopperGuards = stopperGuards := by decide

/-- One iteration of the model's idle gate is one iteration of the extracted loop: test the extracted
    condition on what is read, sleep the extracted delay (always positive there) from `t`. -/
theorem idle_step_eq (idle : Int) (pv : PView) (n : Nat) (t : Int) :
    idleWaitN idle pv (n + 1) t =
      match pv t with
      | none => .noObs t
      | some v =>
        let a : GateAtoms := { now := t, reset := v, idle := idle, started := 0 }
        if Extracted.idleCond a = true then idleWaitN idle pv n (sleepUntil t (Extracted.idleDelay a)) else .start t t := by
  conv => lhs; unfold idleWaitN
  cases pv t with
  | none => rfl
  | some v =>
    simp only [Extracted.idleCond, Extracted.idleDelay, decide_eq_true_eq]
    by_cases h : t - v < idle
    · have hd : ¬ (v + idle - t ≤ 0) := by omega
      have : sleepUntil t (v + idle - t) = v + idle := by unfold sleepUntil; rw [if_neg hd]; omega
      simp [h, this]
    · simp [h]

/-- One iteration of the model's poll loop is one iteration of the extracted loop. -/
theorem poll_step_eq (idle : Int) (pv : PView) (start : Int) (n : Nat) (p : Int) :
    pollN idle pv start (n + 1) p =
      match pv p with
      | none => .noObs p
      | some v =>
        let a : GateAtoms := { now := p, reset := v, idle := idle, started := start }
        if Extracted.pollCond a = true then pollN idle pv start n (sleepUntil p (Extracted.pollDelay a)) else .start p p := by
  conv => lhs; unfold pollN
  cases pv p with
  | none => rfl
  | some v => simp [Extracted.pollCond, Extracted.pollDelay]

end Kopf.C10.Tie
