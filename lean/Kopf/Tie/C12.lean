/-
  Tie obligations for C12: the status→class chain of `errors.check_response`, its `>= 400` guard
  and the retry tuple of `api.request`, regenerated from /repo's AST (Kopf/Extracted/C12.lean),
  equal the tables of the model that the property theorems are about.
-/
import Kopf.Extracted.C12
namespace Kopf.C12.Tie
open Kopf.C12

theorem classify_eq (status : Nat) : Extracted.classify status = classify status := by
  unfold Extracted.classify classify
  repeat' split
  all_goals first | rfl | omega

theorem raises_eq (status : Nat) : Extracted.raises status = raises status := by
  unfold Extracted.raises raises
  by_cases h : 400 ≤ status <;> simp [h] <;> omega

theorem retryable_eq (c : ErrClass) : Extracted.retryable c = retryable c := by
  cases c <;> rfl

end Kopf.C12.Tie
