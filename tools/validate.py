#!/usr/bin/env python3
"""Run a check on several seeds on the unchanged tree and validate its evidence file (dev helper)."""
import json, subprocess, sys, time
from pathlib import Path
ROOT = Path(__file__).resolve().parent.parent
props = sys.argv[1:]
import jsonschema
schema = json.load(open("/root/.vp/EVIDENCE.schema.json"))
bad = 0
for p in props:
    for seed in (0, 1, 2):
        t = time.time()
        r = subprocess.run(["./check", p, "quick"], cwd=ROOT, env={**__import__("os").environ, "VERIF_SEED": str(seed)},
                           capture_output=True, text=True)
        last = (r.stdout.strip().splitlines() or [""])[-1]
        ok = r.returncode == 0 and "VIOLATION" not in r.stdout
        try:
            ev = json.load(open(ROOT / "evidence" / f"{p}.json"))
            jsonschema.validate(ev, schema)
            c = ev["coverage"]
            evok = ev["seed"] == seed and c.get("discharged") == c.get("obligations") and c.get("distinct_nontrivial", 0) >= 2
        except Exception as e:
            evok = False
            last += f" EVIDENCE: {e}"
        print(f"{p} seed={seed} rc={r.returncode} ok={ok} evidence_ok={evok} {time.time()-t:.0f}s :: {last[:160]}")
        if not (ok and evok):
            bad += 1
            print(r.stdout[-1500:], r.stderr[-1500:])
sys.exit(1 if bad else 0)
