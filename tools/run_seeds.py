#!/usr/bin/env python3
"""Re-run every seeded property-breaking change against the current checks, without touching /repo.

For each /verif/seeded/<Cxx...>/ : a scratch worktree of /repo's HEAD under /tmp, the patch applied
(patch_on_fixed_tree.diff when present, else patch.diff), `KOPF_REPO=<worktree> ./check <Cxx> quick`,
worktree removed. Prints one line per seed: caught (VIOLATION with replay) / caught-no-input / MISSED / n/a.

usage: tools/run_seeds.py [name-prefix ...] [--jobs N] [--seed N] [--dir DIR] [--record]
"""
from __future__ import annotations

import concurrent.futures as cf
import os
import re
import shutil
import subprocess
import sys
from pathlib import Path

ROOT = Path(__file__).resolve().parent.parent
REPO = "/repo"


def run_one(d: Path, seed: str) -> tuple[str, str]:
    prop = re.match(r"(C\d\d)", d.name).group(1)
    try:
        import json as _json
        meta = _json.loads((d / "meta.json").read_text())
    except Exception:  # noqa: BLE001
        meta = {}
    obsolete = meta.get("verif_obsolete")
    # obsolete: a later `fix:` commit made kopf robust against this change; it no longer violates the property
    # (the seeder's demo passes on HEAD+patch). It is still run: the check may say `no-failing-input-found` (the
    # correspondence breaks) or nothing, but a CONCRETE failing input would be a false alarm to look into.
    patch = d / "patch_on_fixed_tree.diff"
    if not patch.exists():
        patch = d / "patch.diff"
    wt = Path(f"/tmp/tryseed-{d.name}-{os.getpid()}")
    try:
        subprocess.run(["git", "-C", REPO, "worktree", "add", "-q", "--detach", str(wt), "HEAD"], check=True,
                       capture_output=True)
        r = subprocess.run(["git", "-C", str(wt), "apply", str(patch)], capture_output=True, text=True)
        if r.returncode != 0:
            r = subprocess.run(["git", "-C", str(wt), "apply", "-3", str(patch)], capture_output=True, text=True)
            if r.returncode != 0:
                return d.name, "n/a (patch does not apply to HEAD): " + r.stderr.strip().splitlines()[-1][:120]
        shutil.copy(f"{REPO}/kopf/_cogs/helpers/versions.py", wt / "kopf/_cogs/helpers/versions.py")
        env = dict(os.environ, KOPF_REPO=str(wt), VERIF_SEED=seed)
        r = subprocess.run([str(ROOT / "check"), prop, "quick", "--seed", seed], capture_output=True, text=True, env=env,
                           timeout=3600)
        out = r.stdout + r.stderr
        viol = [l for l in out.splitlines() if l.startswith("VIOLATION")]
        if obsolete:
            if r.returncode == 1 and viol and not viol[0].rstrip().endswith("no-failing-input-found"):
                return d.name, "harness SUSPECT: concrete replay on an obsolete seed (false alarm?) " + viol[0]
            what = viol[0] if viol else f"rc={r.returncode}"
            return d.name, f"obsolete (no longer a violation of {prop}; check: {what}): {obsolete}"
        if r.returncode == 1 and viol:
            return d.name, ("caught-no-input " if viol[0].rstrip().endswith("no-failing-input-found") else "caught ") + viol[0]
        if r.returncode == 0:
            return d.name, "MISSED (rc=0)"
        return d.name, f"harness rc={r.returncode}: " + out.strip().splitlines()[-1][:200]
    finally:
        subprocess.run(["git", "-C", REPO, "worktree", "remove", "--force", str(wt)], capture_output=True)
        shutil.rmtree(wt, ignore_errors=True)


def main() -> int:
    args = sys.argv[1:]
    jobs, seed, base = 3, "0", ROOT / "seeded"
    names = []
    record = False
    while args:
        a = args.pop(0)
        if a == "--jobs":
            jobs = int(args.pop(0))
        elif a == "--seed":
            seed = args.pop(0)
        elif a == "--dir":
            base = Path(args.pop(0))
        elif a == "--record":
            record = True
        else:
            names.append(a)
    dirs = sorted(p for p in base.iterdir() if p.is_dir() and re.match(r"C\d\d", p.name)
                  and (not names or any(p.name.startswith(n) for n in names)))
    bad = 0
    results = {}
    # seeds of one property run one after another (they share evidence/replay file names); properties in parallel
    groups: dict[str, list[Path]] = {}
    for d in dirs:
        groups.setdefault(d.name[:3], []).append(d)

    def run_group(ds: list[Path]) -> list[tuple[str, str]]:
        return [run_one(d, seed) for d in ds]

    with cf.ThreadPoolExecutor(jobs) as ex:
        for group in ex.map(run_group, groups.values()):
            for name, res in group:
                print(f"{name:55s} {res}", flush=True)
                bad += res.startswith(("MISSED", "harness"))
                results[name] = {"result": res.replace("replay=replays/", "replay=")}
    if record:
        import json
        rp = base / "RESULTS.json"
        old = json.loads(rp.read_text()) if rp.exists() else {}
        old.update(results)
        old["_head"] = subprocess.run(["git", "-C", REPO, "rev-parse", "--short", "HEAD"], capture_output=True, text=True).stdout.strip()
        rp.write_text(json.dumps(old, indent=1, sort_keys=True) + "\n")
    subprocess.run(["git", "-C", REPO, "worktree", "prune"], capture_output=True)
    return 1 if bad else 0


if __name__ == "__main__":
    sys.exit(main())
