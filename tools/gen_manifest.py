#!/usr/bin/env python3
"""Regenerate MANIFEST.json from the property modules present in harness/props (run by hand, committed)."""
import importlib
import json
import sys
from pathlib import Path

ROOT = Path(__file__).resolve().parent.parent
sys.path.insert(0, str(ROOT))
BASELINE = json.loads(Path("/root/.vp/BASELINE.json").read_text())["cmd"] if Path("/root/.vp/BASELINE.json").exists() else \
    "cd /repo && /venv/bin/python -m pytest -ra -q -p no:cacheprovider --timeout=900 --continue-on-collection-errors"

props = [json.loads(l) for l in (ROOT / "properties.jsonl").read_text().splitlines() if l.strip()]
checks, na = [], []
engines: dict[str, list[str]] = {"lean-model": [], "pyextract": [], "purediff": [], "kopfsim": []}
for p in props:
    pid = p["id"]
    f = ROOT / "harness" / "props" / f"{pid.lower()}.py"
    claimed_list = (ROOT / "tools" / "claimed.txt").read_text().split()
    if f.exists() and pid not in claimed_list:
        na.append({"property_id": pid, "reason": "check under construction in this tree (not yet validated on several seeds); not claimed yet"})
        continue
    if not f.exists():
        na.append({"property_id": pid, "reason": "no check built yet in this tree (planned in DESIGN.md §8); not claimed"})
        continue
    import os
    os.environ.setdefault("KOPF_REPO", "/repo")
    sys.path.insert(0, "/repo")
    mod = importlib.import_module(f"harness.props.{pid.lower()}")
    if getattr(mod, "CLAIMED", True) is False:
        na.append({"property_id": pid, "reason": getattr(mod, "NOT_CLAIMED_REASON", "check not yet sound; not claimed")})
        continue
    for e in getattr(mod, "ENGINES", ["lean-model"]):
        engines.setdefault(e, []).append(pid)
    checks.append({
        "property_id": pid,
        "quick_cmd": f"./check {pid} quick",
        "thorough_cmd": f"./check {pid} thorough",
        "evidence_file": f"evidence/{pid}.json",
        "replay_cmd_template": f"./check {pid} --replay {{path}}",
        "engine": "lean-model",
        "level_claimed": {
            "category": "proof",
            "text": getattr(mod, "LEVEL_TEXT", ""),
            "design_ref": f"DESIGN.md §8 {pid}",
        },
        "level_note": getattr(mod, "LEVEL_NOTE", "; ".join(getattr(mod, "TRUSTED", []) + getattr(mod, "ASSUMPTIONS", []))),
        "technique": getattr(mod, "TECHNIQUE", "Lean 4 theorems over an executable model + " + getattr(mod, "TIE", "")),
    })
manifest = {
    "version": 1,
    "setup_cmd": "./setup.sh",
    "hooks": {
        "guard": "KOPF_VERIF",
        "enable": "none needed: all observation is harness-level attribute patching; ./check exports KOPF_VERIF=1 for future guarded hooks",
        "baseline_off_cmd": BASELINE.replace(" --junitxml=<file>", ""),
        "source_commits": [],
        "add_only": True,
    },
    "engines": [
        {"name": "lean-model", "path": "lean/", "serves_properties": engines["lean-model"],
         "kind_free_text": "Lean 4 models (Kopf/Model), property theorems (Kopf/Props), tie theorems (Kopf/Tie), line-protocol driver"},
        {"name": "pyextract", "path": "harness/pyextract.py", "serves_properties": engines["pyextract"],
         "kind_free_text": "translator: Python AST of decision logic → Lean definitions, re-proved equal to the model on every run"},
        {"name": "purediff", "path": "harness/props/", "serves_properties": engines["purediff"],
         "kind_free_text": "differential correspondence: real kopf functions vs. the Lean model's executable definitions on generated inputs"},
        {"name": "kopfsim", "path": "harness/sim/", "serves_properties": engines["kopfsim"],
         "kind_free_text": "real kopf code under a virtual-time asyncio loop against an in-process fake Kubernetes API; traces replayed through the Lean model"},
    ],
    "checks": checks,
    "notes": "One CLI: ./check <Cxx> quick|thorough [--replay FILE]. Exit 0 held / 1 VIOLATION / 2 harness error. See DESIGN.md.",
    "not_applicable": na,
}
(ROOT / "MANIFEST.json").write_text(json.dumps(manifest, indent=1, ensure_ascii=False) + "\n")
print(f"claimed: {[c['property_id'] for c in checks]}; not claimed: {[n['property_id'] for n in na]}")
