#!/usr/bin/env python3
"""confirm_seed.py <Cxx> <tag> <name> — confirm a seeder's output myself and file it under seeded/<Cxx><tag>-<name>/.

Input: /tmp/seed-<Cxx><tag>-out/{patch.diff,demo_test.py,meta.json} written by an independent sub-agent that saw only
the property text. Steps (all in a scratch worktree of /repo's HEAD, never in /repo):
  1. the patch applies to HEAD;  2. the demonstration fails with the change and passes on /repo;
  3. kopf's whole suite gives exactly the baseline's set of passing tests with the change;
  4. `KOPF_REPO=<worktree> ./check <Cxx> quick` — the outcome is recorded (caught / caught-no-input / MISSED).
The seed is kept only if 1-3 hold. Removes the seeder's worktree and output directory afterwards.
"""
import json
import os
import shutil
import subprocess
import sys
import xml.etree.ElementTree as ET
from pathlib import Path

ROOT = Path(__file__).resolve().parent.parent
prop, tag, name = sys.argv[1], sys.argv[2], sys.argv[3]
sid = f"{prop}{tag}"
src = Path(f"/tmp/seed-{sid}-out")
wt = Path(f"/tmp/confirm-{sid}")
out: dict = {}


def sh(cmd, **kw):
    return subprocess.run(cmd, capture_output=True, text=True, **kw)


def demo_cmd(demo: Path):
    s = demo.read_text()
    if "__main__" in s or "def test_" not in s:
        return ["/venv/bin/python", str(demo)]
    return ["/venv/bin/python", "-m", "pytest", "-q", "-p", "no:cacheprovider", "-x", str(demo)]


try:
    sh(["git", "-C", "/repo", "worktree", "add", "-q", "--detach", str(wt), "HEAD"], check=True)
    r = sh(["git", "-C", str(wt), "apply", str(src / "patch.diff")])
    out["applies"] = r.returncode == 0
    if not out["applies"]:
        print("patch does not apply:", r.stderr)
        sys.exit(1)
    shutil.copy("/repo/kopf/_cogs/helpers/versions.py", wt / "kopf/_cogs/helpers/versions.py")
    demo = src / "demo_test.py"
    rm = sh(demo_cmd(demo), cwd=wt, env=dict(os.environ, PYTHONPATH=str(wt)), timeout=900)
    ru = sh(demo_cmd(demo), cwd="/repo", env=dict(os.environ, PYTHONPATH="/repo"), timeout=900)
    out["demo_modified_rc"], out["demo_unmodified_rc"] = rm.returncode, ru.returncode
    out["demo_modified_tail"] = (rm.stdout + rm.stderr).strip().splitlines()[-6:]
    print("demo modified rc=", rm.returncode, " unmodified rc=", ru.returncode, flush=True)
    junit = f"/tmp/confirm-{sid}.xml"
    rs = sh(["/venv/bin/python", "-m", "pytest", "-q", "-p", "no:cacheprovider", "--timeout=900",
             "--continue-on-collection-errors", f"--junitxml={junit}"], cwd=wt, timeout=3600)
    out["suite_summary"] = (rs.stdout.strip().splitlines() or [""])[-1]
    base = set(json.load(open("/root/.vp/BASELINE.json"))["stable_pass"])
    passed = set()
    for tc in ET.parse(junit).iter("testcase"):
        if not any(c.tag in ("failure", "error", "skipped") for c in tc):
            passed.add(tc.get("classname") + "::" + tc.get("name"))
    # timing-sensitive tests (thread-safety, real sleeps) flake when the machine is loaded: re-run the missing ones alone
    for t in sorted(base - passed)[:20]:
        cls, _, nm = t.partition("::")
        node = cls.replace(".", "/") + ".py::" + nm
        rr = sh(["/venv/bin/python", "-m", "pytest", "-q", "-p", "no:cacheprovider", node], cwd=wt, timeout=900)
        if rr.returncode == 0:
            passed.add(t)
            out.setdefault("flaky_rerun_passed", []).append(t)
    out["baseline_missing"] = sorted(base - passed)[:10]
    out["suite_ok"] = not (base - passed)
    os.remove(junit)
    print("suite:", out["suite_summary"], " baseline tests no longer passing:", len(base - passed), flush=True)
    rc = sh([str(ROOT / "check"), prop, "quick"], env=dict(os.environ, KOPF_REPO=str(wt), VERIF_SEED="0"), timeout=3600)
    viol = [l for l in (rc.stdout + rc.stderr).splitlines() if l.startswith("VIOLATION")]
    if rc.returncode == 1 and viol:
        res = ("caught-no-input " if viol[0].rstrip().endswith("no-failing-input-found") else "caught ") + viol[0]
    elif rc.returncode == 0:
        res = "MISSED (rc=0)"
    else:
        res = f"harness rc={rc.returncode}: " + ((rc.stdout + rc.stderr).strip().splitlines() or [""])[-1][:200]
        print((rc.stdout + rc.stderr)[-3000:])
    out["first_check_result"] = res
    print("check:", res, flush=True)
    keep = out["demo_modified_rc"] not in (0,) and out["demo_unmodified_rc"] == 0 and out["suite_ok"]
    out["kept"] = keep
    if keep:
        dst = ROOT / "seeded" / f"{sid}-{name}"
        dst.mkdir(parents=True, exist_ok=True)
        for f in ("patch.diff", "demo_test.py"):
            shutil.copy(src / f, dst / f)
        meta = json.load(open(src / "meta.json")) if (src / "meta.json").exists() else {}
        meta["confirmed_by_coordinator"] = {k: out[k] for k in ("demo_modified_rc", "demo_unmodified_rc", "suite_summary", "suite_ok", "first_check_result")}
        meta["confirmed_at_repo_head"] = sh(["git", "-C", "/repo", "rev-parse", "--short", "HEAD"]).stdout.strip()
        json.dump(meta, open(dst / "meta.json", "w"), indent=1)
        print("saved", dst)
    else:
        print("NOT kept:", json.dumps(out, indent=1))
finally:
    sh(["git", "-C", "/repo", "worktree", "remove", "--force", str(wt)])
    shutil.rmtree(wt, ignore_errors=True)
    if out.get("kept"):
        sh(["git", "-C", "/repo", "worktree", "remove", "--force", f"/tmp/seed-{sid}"])
        shutil.rmtree(f"/tmp/seed-{sid}", ignore_errors=True)
        shutil.rmtree(src, ignore_errors=True)
    sh(["git", "-C", "/repo", "worktree", "prune"])
