#!/usr/bin/env python3
"""Re-run the white-box reviews' mutants and harmless rewrites (review/wb/Cxx/{m,r}*.diff) against the current checks.

Each review/wb/Cxx/ holds the output of one white-box hunt (see DESIGN.md §10.2): `mN*.diff` are property-breaking
mutants of kopf written to pass through a blind spot of the check as it was then, `rN*.diff` are
semantics-preserving rewrites, NOTES.md says what each is. For every diff: a scratch worktree of /repo's HEAD, the
diff applied (`git apply`, then `git apply -3`), `KOPF_REPO=<worktree> ./check Cxx quick`, worktree removed.

  mutants:  caught (concrete replay) | caught-no-input | MISSED | n/a (does not apply any more)
  rewrites: quiet | no-input | FALSE-ALARM (concrete replay on a harmless rewrite) | n/a

usage: tools/run_wb.py [Cxx ...] [--jobs N] [--record]      (properties in parallel, one property's diffs in sequence)
"""
from __future__ import annotations

import concurrent.futures as cf
import json
import os
import re
import shutil
import subprocess
import sys
from pathlib import Path

ROOT = Path(__file__).resolve().parent.parent
REPO = "/repo"


def equivalents(prop: str) -> dict[str, str]:
    p = ROOT / "review" / "wb" / prop / "equivalent.json"
    return json.loads(p.read_text()) if p.exists() else {}


def run_one(prop: str, diff: Path) -> str:
    wt = Path(f"/tmp/wb-run-{prop}-{diff.stem}-{os.getpid()}")
    try:
        subprocess.run(["git", "-C", REPO, "worktree", "add", "-q", "--detach", str(wt), "HEAD"], check=True, capture_output=True)
        r = subprocess.run(["git", "-C", str(wt), "apply", str(diff)], capture_output=True, text=True)
        if r.returncode != 0:
            r = subprocess.run(["git", "-C", str(wt), "apply", "-3", str(diff)], capture_output=True, text=True)
            if r.returncode != 0 or "conflict" in (r.stdout + r.stderr).lower():
                return "n/a (does not apply to HEAD)"
        shutil.copy(f"{REPO}/kopf/_cogs/helpers/versions.py", wt / "kopf/_cogs/helpers/versions.py")
        env = dict(os.environ, KOPF_REPO=str(wt), VERIF_SEED="0")
        try:
            r = subprocess.run([str(ROOT / "check"), prop, "quick"], capture_output=True, text=True, env=env, timeout=3600)
        except subprocess.TimeoutExpired:
            return "harness timeout"
        out = r.stdout + r.stderr
        viol = [l for l in out.splitlines() if l.startswith("VIOLATION")]
        concrete = [v for v in viol if not v.rstrip().endswith("no-failing-input-found")]
        harmless = diff.name.startswith("r") or diff.name in equivalents(prop)   # judged equivalent: see equivalent.json
        if r.returncode == 0:
            return ("quiet" + (" (equivalent mutant)" if diff.name.startswith("m") else "")) if harmless else "MISSED (rc=0)"
        if r.returncode == 1 and concrete:
            return ("FALSE-ALARM " if harmless else "caught ") + concrete[0].replace("replay=replays/", "replay=")
        if r.returncode == 1 and viol:
            return "no-input" if harmless else "caught-no-input"
        return f"harness rc={r.returncode}: " + (out.strip().splitlines() or [""])[-1][:160]
    finally:
        subprocess.run(["git", "-C", REPO, "worktree", "remove", "--force", str(wt)], capture_output=True)
        shutil.rmtree(wt, ignore_errors=True)


def main() -> int:
    args = sys.argv[1:]
    props, jobs, record = [], 5, False
    while args:
        a = args.pop(0)
        if a == "--jobs":
            jobs = int(args.pop(0))
        elif a == "--record":
            record = True
        else:
            props.append(a.upper())
    base = ROOT / "review" / "wb"
    dirs = sorted(d for d in base.iterdir() if d.is_dir() and re.fullmatch(r"C\d\d", d.name) and (not props or d.name in props))

    def run_prop(d: Path) -> tuple[str, dict[str, str]]:
        res = {}
        for diff in sorted(d.glob("*.diff")):
            if not re.match(r"[mr]\d", diff.name):
                continue      # proposals / follow-up variants kept for the record (p_*.diff, follow-*.diff, f*.diff)
            res[diff.name] = run_one(d.name, diff)
            print(f"{d.name}/{diff.name:48s} {res[diff.name]}", flush=True)
        return d.name, res

    results: dict[str, dict[str, str]] = {}
    with cf.ThreadPoolExecutor(jobs) as ex:
        for prop, res in ex.map(run_prop, dirs):
            results[prop] = res
    bad = sum(1 for res in results.values() for v in res.values() if v.startswith(("MISSED", "FALSE-ALARM", "harness")))
    if record:
        rp = base / "RESULTS.json"
        old = json.loads(rp.read_text()) if rp.exists() else {}
        old.update(results)
        old["_head"] = subprocess.run(["git", "-C", REPO, "rev-parse", "--short", "HEAD"], capture_output=True, text=True).stdout.strip()
        rp.write_text(json.dumps(old, indent=1, sort_keys=True) + "\n")
    subprocess.run(["git", "-C", REPO, "worktree", "prune"], capture_output=True)
    return 1 if bad else 0


if __name__ == "__main__":
    sys.exit(main())
