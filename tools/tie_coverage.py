#!/usr/bin/env python3
"""tie_coverage.py [Cxx ...] [--tier quick|thorough] [--jobs N] — which lines of the anchored code does a check's run never execute?

The ties (D/S/A, DESIGN §4) are samples: "a code path no generator reaches is tied to the model by nothing" (§11).
This tool makes those holes visible mechanically instead of waiting for a seeded change to fall through one:
it runs `./check Cxx <tier>` with coverage.py switched on in EVERY Python process of the run (main process, fork
pools, subprocess workers: a `sitecustomize` on PYTHONPATH calls `coverage.process_startup()`), measuring only
`$KOPF_REPO/kopf`, and reports, for each file the property is anchored in (`properties.jsonl` anchors.files),
the statements never executed, grouped by function, with the source text of each missed line.

Output: review/tie_coverage/Cxx.md (+ a summary table on stdout). It is a development aid, not a check: a line that
is executed is not thereby *compared* — but a line that is never executed is certainly compared with nothing.
Workers that are SIGKILLed lose their data (an under-approximation of what ran, i.e. holes may be over-reported).
The evidence file written by the run is that of a measured (slower) run: re-run the check afterwards.
"""
from __future__ import annotations

import ast
import concurrent.futures as cf
import json
import os
import shutil
import subprocess
import sys
import tempfile
from pathlib import Path

ROOT = Path(__file__).resolve().parent.parent
REPO = os.environ.get("KOPF_REPO", "/repo")
PY = "/venv/bin/python"


def run_one(prop: str, tier: str) -> dict:
    tmp = Path(tempfile.mkdtemp(prefix=f"tiecov-{prop}-"))
    try:
        (tmp / "site").mkdir()
        (tmp / "site" / "sitecustomize.py").write_text("import coverage\ncoverage.process_startup()\n")
        rc = tmp / "coveragerc"
        rc.write_text(f"[run]\nparallel = True\nconcurrency = multiprocessing,thread\nsigterm = True\n"
                      f"data_file = {tmp}/data/cov\nsource = {REPO}/kopf\ndisable_warnings = no-data-collected,module-not-measured,couldnt-parse\n")
        (tmp / "data").mkdir()
        env = dict(os.environ, COVERAGE_PROCESS_START=str(rc), PYTHONPATH=str(tmp / "site"), VERIF_SEED=os.environ.get("VERIF_SEED", "0"))
        r = subprocess.run([str(ROOT / "check"), prop, tier], capture_output=True, text=True, env=env, timeout=7200)
        last = (r.stdout.strip().splitlines() or [""])[-1]
        subprocess.run([PY, "-m", "coverage", "combine", f"--rcfile={rc}", "-q", str(tmp / "data")], capture_output=True, text=True, cwd=tmp)
        js = tmp / "cov.json"
        subprocess.run([PY, "-m", "coverage", "json", f"--rcfile={rc}", "-q", "-o", str(js)], capture_output=True, text=True, cwd=tmp)
        data = json.loads(js.read_text()) if js.exists() else {"files": {}}
        return {"prop": prop, "rc": r.returncode, "last": last, "files": data["files"]}
    finally:
        shutil.rmtree(tmp, ignore_errors=True)


def functions_of(path: Path) -> list[tuple[int, int, str]]:
    out = []
    tree = ast.parse(path.read_text())

    def walk(node, prefix):
        for ch in ast.iter_child_nodes(node):
            if isinstance(ch, (ast.FunctionDef, ast.AsyncFunctionDef)):
                out.append((ch.lineno, ch.end_lineno, prefix + ch.name))
                walk(ch, prefix + ch.name + ".")
            elif isinstance(ch, ast.ClassDef):
                walk(ch, prefix + ch.name + ".")
            else:
                walk(ch, prefix)
    walk(tree, "")
    return out


def report(res: dict, anchors: list[str]) -> tuple[str, int, int]:
    lines_out = [f"# {res['prop']}: anchored statements never executed by `./check {res['prop']}` (rc={res['rc']})", "",
                 f"run: `{res['last'][:200]}`", ""]
    tot = miss = 0
    for rel in anchors:
        p = Path(REPO) / rel
        f = res["files"].get(str(p)) or res["files"].get(rel)
        if f is None:
            lines_out.append(f"## {rel}: NOT IMPORTED / no data")
            continue
        src = p.read_text().splitlines()
        missing = set(f["missing_lines"])
        n = len(f["executed_lines"]) + len(missing)
        tot += n
        miss += len(missing)
        lines_out.append(f"## {rel}: {len(missing)} of {n} statements never executed")
        fns = functions_of(p)
        by: dict[str, list[int]] = {}
        for ln in sorted(missing):
            inner = [x for x in fns if x[0] <= ln <= x[1]]
            name = max(inner, key=lambda x: x[0])[2] if inner else "<module>"
            by.setdefault(name, []).append(ln)
        for name, lns in by.items():
            fn = next((x for x in fns if x[2] == name), None)
            whole = fn is not None and all(l in missing for l in range(fn[0] + 1, fn[1] + 1) if (l in missing or l in f["executed_lines"]))
            if whole and len(lns) > 1:
                lines_out.append(f"* `{name}` — never entered ({len(lns)} statements, lines {lns[0]}–{lns[-1]})")
                continue
            lines_out.append(f"* `{name}`:")
            for ln in lns:
                lines_out.append(f"    - {ln}: `{src[ln - 1].strip()[:140]}`")
        lines_out.append("")
    return "\n".join(lines_out) + "\n", tot, miss


def main() -> int:
    args = sys.argv[1:]
    props, tier, jobs = [], "quick", 4
    while args:
        a = args.pop(0)
        if a == "--tier":
            tier = args.pop(0)
        elif a == "--jobs":
            jobs = int(args.pop(0))
        else:
            props.append(a.upper())
    anchors = {}
    for l in (ROOT / "properties.jsonl").read_text().splitlines():
        if l.strip():
            d = json.loads(l)
            anchors[d["id"]] = d["anchors"]["files"]
    props = props or sorted(anchors)
    outdir = ROOT / "review" / "tie_coverage"
    outdir.mkdir(parents=True, exist_ok=True)
    with cf.ThreadPoolExecutor(jobs) as ex:
        for res in ex.map(lambda p: run_one(p, tier), props):
            text, tot, miss = report(res, anchors[res["prop"]])
            (outdir / f"{res['prop']}.md").write_text(text)
            print(f"{res['prop']} rc={res['rc']} anchored statements: {tot}, never executed: {miss} ({100 * miss // max(tot, 1)}%)", flush=True)
    return 0


if __name__ == "__main__":
    sys.exit(main())
