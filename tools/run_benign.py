#!/usr/bin/env python3
"""False-alarm test: run the checks against harmless changes of kopf (benign/*.diff), without touching /repo.

Each patch under /verif/benign/ is a semantics-preserving refactoring or a change outside every property
(defaults of settings, log texts); see benign/NOTES.md. For each patch: a scratch worktree of /repo's HEAD,
the patch applied, `KOPF_REPO=<worktree> ./check <Cxx> quick` for every property (in parallel: properties do
not share files), the worktree removed. Outcomes per (patch, property):

  quiet        rc=0 — nothing noticed (the model and the tie are insensitive to this rewrite)
  no-input     rc=1, `VIOLATION … no-failing-input-found` — a proof obligation / the correspondence broke (the
               translator rejects the new shape, a trace label moved) and the search found no failing input:
               the specified outcome for a harmless rewrite that the tie cannot see through
  FALSE-ALARM  rc=1 with a concrete replay — the oracle claims a failing input on code where the property holds:
               a defect of the machinery, to be corrected
  harness      rc=2 — the instrumentation did not survive the rewrite (not a verdict)

usage: tools/run_benign.py [patch-prefix ...] [--props C01,C02] [--jobs N] [--record]
The evidence files written by these runs describe a modified tree: re-run the checks on /repo afterwards.
"""
from __future__ import annotations

import concurrent.futures as cf
import json
import os
import re
import shutil
import subprocess
import sys
from pathlib import Path

ROOT = Path(__file__).resolve().parent.parent
REPO = "/repo"


def check(prop: str, wt: Path) -> str:
    env = dict(os.environ, KOPF_REPO=str(wt), VERIF_SEED="0")
    try:
        r = subprocess.run([str(ROOT / "check"), prop, "quick"], capture_output=True, text=True, env=env, timeout=1800)
    except subprocess.TimeoutExpired:
        return "harness timeout"
    out = r.stdout + r.stderr
    viol = [l for l in out.splitlines() if l.startswith("VIOLATION")]
    if r.returncode == 0:
        return "quiet"
    if r.returncode == 1 and viol and all(v.rstrip().endswith("no-failing-input-found") for v in viol):
        return "no-input"
    if r.returncode == 1 and viol:
        v = next(v for v in viol if not v.rstrip().endswith("no-failing-input-found"))
        m = re.search(r"replay=(\S+)", v)
        what = ""
        if m:
            try:
                d = json.loads((ROOT / m.group(1)).read_text())
                what = " :: " + str(d.get("what"))[:300]
                dst = ROOT / "replays" / f"benign-{wt.name}-{prop}.json"
                shutil.copy(ROOT / m.group(1), dst)
            except Exception:  # noqa: BLE001
                pass
        return "FALSE-ALARM " + v + what
    return f"harness rc={r.returncode}: " + (out.strip().splitlines() or [""])[-1][:200]


def main() -> int:
    args = sys.argv[1:]
    names, props, jobs, record = [], None, 10, False
    while args:
        a = args.pop(0)
        if a == "--props":
            props = args.pop(0).split(",")
        elif a == "--jobs":
            jobs = int(args.pop(0))
        elif a == "--record":
            record = True
        else:
            names.append(a)
    if props is None:
        props = sorted(p.stem.upper() for p in (ROOT / "harness" / "props").glob("c[0-9]*.py"))
    patches = sorted(p for p in (ROOT / "benign").glob("*.diff") if not names or any(p.name.startswith(n) for n in names))
    results: dict[str, dict[str, str]] = {}
    bad = 0
    for patch in patches:
        wt = Path(f"/tmp/benign-{patch.stem}")
        try:
            subprocess.run(["git", "-C", REPO, "worktree", "add", "-q", "--detach", str(wt), "HEAD"], check=True, capture_output=True)
            r = subprocess.run(["git", "-C", str(wt), "apply", str(patch)], capture_output=True, text=True)
            if r.returncode != 0:
                print(f"{patch.stem:40s} n/a (does not apply): {r.stderr.strip().splitlines()[-1][:120]}", flush=True)
                continue
            shutil.copy(f"{REPO}/kopf/_cogs/helpers/versions.py", wt / "kopf/_cogs/helpers/versions.py")
            with cf.ThreadPoolExecutor(jobs) as ex:
                res = dict(zip(props, ex.map(lambda p: check(p, wt), props)))
            results[patch.stem] = res
            summary = {}
            for p, v in res.items():
                summary.setdefault(v.split()[0], []).append(p)
            print(f"{patch.stem:40s} " + "; ".join(f"{k}: {' '.join(v)}" for k, v in sorted(summary.items())), flush=True)
            for p, v in res.items():
                if v.startswith(("FALSE-ALARM", "harness")):
                    bad += 1
                    print(f"    {p}: {v}", flush=True)
        finally:
            subprocess.run(["git", "-C", REPO, "worktree", "remove", "--force", str(wt)], capture_output=True)
            shutil.rmtree(wt, ignore_errors=True)
    if record:
        rp = ROOT / "benign" / "RESULTS.json"
        old = json.loads(rp.read_text()) if rp.exists() else {}
        for k, v in results.items():
            old.setdefault(k, {}).update(v)
        old["_head"] = subprocess.run(["git", "-C", REPO, "rev-parse", "--short", "HEAD"], capture_output=True, text=True).stdout.strip()
        rp.write_text(json.dumps(old, indent=1, sort_keys=True) + "\n")
    subprocess.run(["git", "-C", REPO, "worktree", "prune"], capture_output=True)
    return 1 if bad else 0


if __name__ == "__main__":
    sys.exit(main())
