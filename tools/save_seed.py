#!/usr/bin/env python3
"""save_seed.py <Cxx> <name> <verified-note> — move a seeder's output into /verif/seeded/<Cxx>-<name>/ and clean its worktree."""
import json, shutil, subprocess, sys
from pathlib import Path
prop, name, note = sys.argv[1], sys.argv[2], sys.argv[3]
src = Path(f"/tmp/seed-{prop}-out")
dst = Path(__file__).resolve().parent.parent / "seeded" / f"{prop}-{name}"
dst.mkdir(parents=True, exist_ok=True)
for f in ("patch.diff", "demo_test.py"):
    shutil.copy(src / f, dst / f)
meta = json.load(open(src / "meta.json")) if (src / "meta.json").exists() else {}
meta["verified_by_me"] = note
json.dump(meta, open(dst / "meta.json", "w"), indent=1)
subprocess.run(["git", "-C", "/repo", "worktree", "remove", "--force", f"/tmp/seed-{prop}"])
shutil.rmtree(src, ignore_errors=True)
subprocess.run(["git", "-C", "/repo", "worktree", "prune"])
print("saved", dst)
