#!/venv/bin/python
"""Regenerate the machine-derived blocks of DESIGN.md (run by hand, committed):

  <!-- GEN:PROPS -->     §8: one subsection per property from harness/props/cXX.py metadata + Lean file docstrings
  <!-- GEN:FIXED -->     §9.1: repaired defects, from known_findings.jsonl (status fixed) + `git -C /repo log`
  <!-- GEN:OPEN -->      §9.2: open known findings, from known_findings.jsonl (status open)
  <!-- GEN:SEEDS -->     §10: seeded changes, from seeded/*/meta.json and seeded/RESULTS.json (tools/run_seeds.py --record)

Each block sits between `<!-- GEN:X begin -->` and `<!-- GEN:X end -->`; everything else in DESIGN.md is prose.
"""
from __future__ import annotations

import importlib
import json
import os
import re
import subprocess
import sys
from pathlib import Path

ROOT = Path(__file__).resolve().parent.parent
sys.path.insert(0, str(ROOT))
os.environ.setdefault("KOPF_REPO", "/repo")
sys.path.insert(0, os.environ["KOPF_REPO"])


def esc(s: str) -> str:
    return str(s).replace("|", "\\|").replace("\n", " ")


def lean_doc(path: Path) -> str:
    """First block comment of a Lean file, flattened."""
    txt = path.read_text()
    m = re.search(r"/-[-!]?\s*(.*?)-/", txt, re.S)
    if not m:
        return ""
    body = " ".join(l.strip() for l in m.group(1).strip().splitlines())
    return body[:700] + ("…" if len(body) > 700 else "")


def gen_props() -> str:
    props = [json.loads(l) for l in (ROOT / "properties.jsonl").read_text().splitlines() if l.strip()]
    out = []
    for p in props:
        pid = p["id"]
        try:
            mod = importlib.import_module(f"harness.props.{pid.lower()}")
        except Exception as e:  # noqa: BLE001
            out.append(f"### {pid} — {p['title']}\n\n(module not importable: {e!r})\n")
            continue
        th = [n.split(".")[-1] for _, n in getattr(mod, "THEOREMS", [])]
        tie = [n.split(".")[-1] for _, n in getattr(mod, "TIE_THEOREMS", [])]
        partial = [t for t in th if t.endswith("_partial")]
        witness = [t for t in th if "witness" in t or t.endswith("_fails")]
        models = sorted((ROOT / "lean" / "Kopf" / "Model").glob(f"{pid}_*.lean"))
        out.append(f"### {pid} — {p['title']}\n")
        out.append(f"*Technique level*: `{getattr(mod, 'LEVEL', '?')}`; *strength*: **{getattr(mod, 'STRENGTH', 'partial')}** — "
                   f"{getattr(mod, 'LEVEL_TEXT', '')}\n")
        if models:
            out.append("*Model*:\n")
            for m in models:
                n = sum(1 for _ in m.open())
                out.append(f"- `lean/Kopf/Model/{m.name}` ({n} lines): {lean_doc(m)}")
            out.append("")
        out.append(f"*Property theorems* ({len(th)}; `lean/Kopf/Props/{pid}.lean`): " + ", ".join(f"`{t}`" for t in th) + "\n")
        if partial:
            out.append("*Proved under a named guard (`_partial`, the full statement is kept beside it)*: " + ", ".join(f"`{t}`" for t in partial) + "\n")
        if witness:
            out.append("*Negative results proved (witnesses: the code does this, replayed on the implementation)*: " + ", ".join(f"`{t}`" for t in witness) + "\n")
        if tie:
            out.append(f"*Translator tie theorems* ({len(tie)}; `lean/Kopf/Tie/{pid}.lean`, Extracted = Model): " + ", ".join(f"`{t}`" for t in tie) + "\n")
        out.append(f"*Tie*: {getattr(mod, 'TIE', '')}\n")
        out.append(f"*Inputs explored by the correspondence run and the oracle*: {getattr(mod, 'RULE', '')}\n")
        tr = getattr(mod, "TRUSTED", [])
        if tr:
            out.append("*Trusted (beyond §11)*: " + "; ".join(tr) + "\n")
        asm = getattr(mod, "ASSUMPTIONS", [])
        if asm:
            out.append("*Assumptions / modelled rather than verified*:\n")
            out.extend(f"- {a}" for a in asm)
            out.append("")
    return "\n".join(out)


def findings() -> list[dict]:
    return [json.loads(l) for l in (ROOT / "known_findings.jsonl").read_text().splitlines() if l.strip()]


def repo_log() -> dict[str, str]:
    p = subprocess.run(["git", "-C", os.environ["KOPF_REPO"], "log", "--format=%h %s", "-n", "200"], capture_output=True, text=True)
    out = {}
    for l in p.stdout.splitlines():
        h, _, s = l.partition(" ")
        if s.startswith("fix:"):
            out[h] = s
    return out


def gen_fixed() -> str:
    log = repo_log()
    rows = ["| property | finding | commit | what failed |", "|---|---|---|---|"]
    seen = set()
    for f in findings():
        if f.get("status") != "fixed":
            continue
        c = str(f.get("commit", ""))[:7]
        seen.add(c)
        rows.append(f"| {f['property']} | {f['id']} | `{c}` {esc(log.get(c, ''))} | {esc(f['what'])[:420]} |")
    extra = [f"| – | – | `{h}` {esc(s)} | (follow-up / companion repair; see the commit message) |" for h, s in log.items() if h not in seen]
    return "\n".join(rows + extra) + f"\n\n{len(log)} `fix:` commits in `/repo`; {len(rows) - 2} findings recorded as fixed.\n"


def gen_open() -> str:
    rows = ["| property | finding | what fails (the check prints this as `KNOWN-FINDING`) | witness |", "|---|---|---|---|"]
    for f in findings():
        if f.get("status") != "open":
            continue
        rows.append(f"| {f['property']} | {f['id']} | {esc(f['what'])[:600]} | {esc(f.get('witness', ''))} |")
    return "\n".join(rows) + f"\n\n{len(rows) - 2} open findings.\n"


def gen_seeds() -> str:
    res_p = ROOT / "seeded" / "RESULTS.json"
    res = json.loads(res_p.read_text()) if res_p.exists() else {}
    rows = ["| seeded change | property | what was changed (the seeder's summary) | result of `./check <id> quick` on the changed tree |", "|---|---|---|---|"]
    for d in sorted((ROOT / "seeded").iterdir()):
        if not d.is_dir():
            continue
        meta = {}
        try:
            meta = json.loads((d / "meta.json").read_text())
        except Exception:  # noqa: BLE001
            pass
        summ = esc(meta.get("summary", ""))[:380]
        note = esc(meta.get("verif_note", ""))
        r = res.get(d.name, {})
        if not r and meta.get("confirmed_by_coordinator"):
            r = {"result": meta["confirmed_by_coordinator"].get("first_check_result", "").replace("replay=replays/", "replay=")}
        rows.append(f"| `{d.name}` | {d.name[:3]} | {summ} | {esc(r.get('result', 'not re-run'))[:120]}{(' — ' + note) if note else ''} |")
    return "\n".join(rows) + f"\n\n{len(rows) - 2} seeded changes; results recorded by `tools/run_seeds.py --record` at /repo {res.get('_head', '?')}.\n"


def gen_benign() -> str:
    rp = ROOT / "benign" / "RESULTS.json"
    res = json.loads(rp.read_text()) if rp.exists() else {}
    rows = ["| harmless change | quiet (rc=0) | `no-failing-input-found` (tie/translator cannot see through the rewrite) | false alarms (concrete replay) | harness errors |", "|---|---|---|---|---|"]
    tot = {"quiet": 0, "no-input": 0, "FALSE-ALARM": 0, "harness": 0}
    for name in sorted(k for k in res if not k.startswith("_")):
        by: dict[str, list[str]] = {}
        for prop, v in sorted(res[name].items()):
            by.setdefault(v.split()[0], []).append(prop)
        for k in tot:
            tot[k] += len(by.get(k, []))
        rows.append(f"| `{name}` | {len(by.get('quiet', []))} | {' '.join(by.get('no-input', [])) or '–'} | {' '.join(by.get('FALSE-ALARM', [])) or '–'} | {' '.join(by.get('harness', [])) or '–'} |")
    return ("\n".join(rows) + f"\n\n{len(rows) - 2} harmless changes × the claimed properties: {tot['quiet']} quiet, {tot['no-input']} "
            f"`no-failing-input-found`, {tot['FALSE-ALARM']} false alarms, {tot['harness']} harness errors "
            f"(`tools/run_benign.py --record` at /repo {res.get('_head', '?')}).\n")


def gen_wb() -> str:
    rp = ROOT / "review" / "wb" / "RESULTS.json"
    res = json.loads(rp.read_text()) if rp.exists() else {}
    rows = ["| property | mutants: caught with a replay | caught, no failing input | missed | no longer apply | harmless rewrites: quiet | `no-failing-input-found` | false alarms |", "|---|---|---|---|---|---|---|---|"]
    tot = [0] * 7
    for prop in sorted(k for k in res if not k.startswith("_")):
        m = {k: v for k, v in res[prop].items() if k.startswith("m")}
        r = {k: v for k, v in res[prop].items() if k.startswith("r")}
        def n(d, pre):
            return sum(1 for v in d.values() if v.startswith(pre))
        row = [n(m, "caught VIOLATION") + n(m, "caught V"), n(m, "caught-no-input"), n(m, "MISSED"), n(m, "n/a"), n(r, "quiet"), n(r, "no-input"), n(r, "FALSE-ALARM")]
        row[0] = sum(1 for v in m.values() if v.startswith("caught ") )
        for i, x in enumerate(row):
            tot[i] += x
        missed = " ".join(k for k, v in m.items() if v.startswith("MISSED")) 
        rows.append(f"| {prop} | {row[0]} | {row[1]} | {row[2]}{(' (' + missed + ')') if missed else ''} | {row[3]} | {row[4]} | {row[5]} | {row[6]} |")
    rows.append(f"| **all** | **{tot[0]}** | **{tot[1]}** | **{tot[2]}** | **{tot[3]}** | **{tot[4]}** | **{tot[5]}** | **{tot[6]}** |")
    return "\n".join(rows) + f"\n\nRecorded by `tools/run_wb.py --record` at /repo {res.get('_head', '?')}; what each mutant is: `review/wb/Cxx/NOTES.md`.\n"


def gen_stats() -> str:
    def loc(globpat: str) -> int:
        return sum(sum(1 for _ in f.open()) for f in (ROOT / "lean" / "Kopf").glob(globpat))
    nth = ntie = 0
    props = [json.loads(l)["id"] for l in (ROOT / "properties.jsonl").read_text().splitlines() if l.strip()]
    for pid in props:
        try:
            mod = importlib.import_module(f"harness.props.{pid.lower()}")
            nth += len(getattr(mod, "THEOREMS", []))
            ntie += len(getattr(mod, "TIE_THEOREMS", []))
        except Exception:  # noqa: BLE001
            pass
    man = json.loads((ROOT / "MANIFEST.json").read_text())
    py = sum(sum(1 for _ in f.open()) for f in (ROOT / "harness").rglob("*.py"))
    fs = findings()
    seeds = [d for d in (ROOT / "seeded").iterdir() if d.is_dir()]
    return (f"Numbers (generated): {len(man['checks'])} of {len(props)} properties claimed (`MANIFEST.json`, "
            f"`not_applicable`: {len(man.get('not_applicable', []))}); Lean: {loc('Model/*.lean')} lines of models, "
            f"{loc('Lemmas/*.lean')} of lemmas, {loc('Props/*.lean')} of property theorems, {loc('Tie/*.lean')} of tie theorems, "
            f"{loc('Drv/*.lean')} of driver; {nth} property theorems + {ntie} tie theorems named by the checks, each audited on "
            f"every run to depend on at most `propext`, `Classical.choice`, `Quot.sound`; {py} lines of Python harness; "
            f"{len(repo_log())} `fix:` commits in `/repo`; {sum(1 for f in fs if f.get('status') == 'fixed')} findings fixed, "
            f"{sum(1 for f in fs if f.get('status') == 'open')} open; {len(seeds)} seeded property-breaking changes under `seeded/`.")


def main() -> int:
    p = ROOT / "DESIGN.md"
    s = p.read_text()
    for key, fn in (("STATS", gen_stats), ("PROPS", gen_props), ("FIXED", gen_fixed), ("OPEN", gen_open), ("SEEDS", gen_seeds), ("BENIGN", gen_benign), ("WB", gen_wb)):
        a, b = f"<!-- GEN:{key} begin -->", f"<!-- GEN:{key} end -->"
        if a not in s or b not in s:
            print(f"marker {key} missing", file=sys.stderr)
            continue
        i, j = s.index(a) + len(a), s.index(b)
        s = s[:i] + "\n" + fn() + "\n" + s[j:]
    p.write_text(s)
    return 0


if __name__ == "__main__":
    sys.exit(main())
