"""Check driver shared by all properties: Lean obligations, ties, oracle, findings, evidence."""
from __future__ import annotations

import dataclasses
import importlib
import json
import os
import random
import sys
import time
import traceback
from pathlib import Path
from typing import Any, Callable

from . import leanio

ROOT = Path(__file__).resolve().parent.parent
REPO = Path(os.environ.get("KOPF_REPO", "/repo"))
EVIDENCE = ROOT / "evidence"
REPLAYS = ROOT / "replays"
CORPUS = ROOT / "corpus"
FINDINGS = ROOT / "known_findings.jsonl"

BASE_TRUSTED = [
    "Lean 4.33.0 kernel; axioms allowed: propext, Classical.choice, Quot.sound (audited per theorem on every run)",
    "statements in lean/Kopf/Props/*.lean (kept apart from lemmas) are the formal reading of the property",
    "the model is tied to /repo by the translator and/or correspondence run named in 'tie'; "
    "ties cover the inputs generated in this run (exhaustive only where marked)",
    "CPython 3.12, asyncio, aiohttp, jsonpatch are modelled by their contracts, not verified",
]


class ExtractError(Exception):
    """The translator met source it does not understand: a broken correspondence, never a default."""


@dataclasses.dataclass
class Failure:
    kind: str            # 'oracle' (property fails on the implementation) | 'tie' | 'proof'
    what: str
    replay: Any
    signature: dict | None = None   # for matching known findings (oracle failures only)


class Ctx:
    def __init__(self, prop: str, tier: str, seed: int):
        self.prop = prop
        self.tier = tier
        self.seed = seed
        self.repo = REPO
        self.rng = random.Random(f"{prop}-{seed}")
        self.driver = leanio.Driver([prop])
        self.failures: list[Failure] = []
        self.evaluations = 0
        self.nontrivial: set[str] = set()
        self.samples: list[Any] = []
        self.hist: dict[str, dict[str, int]] = {}
        self.extra: dict[str, Any] = {}
        self.traces = 0
        self.exhaustive: bool | None = None
        self.t0 = time.time()
        self.notes: list[str] = []
        self.tie_comparisons = 0

    # ---- bookkeeping used by property modules -------------------------------------------------
    def count(self, group: str, tag: Any, n: int = 1) -> None:
        g = self.hist.setdefault(group, {})
        g[str(tag)] = g.get(str(tag), 0) + n

    def case(self, key: Any = None, nontrivial: bool = False, sample: Any = None) -> None:
        """One evaluated case. `key` identifies the abstracted case for the distinct count."""
        self.evaluations += 1
        if nontrivial and key is not None:
            self.nontrivial.add(key if isinstance(key, str) else leanio.canon(key))
        if sample is not None and len(self.samples) < 6:
            self.samples.append(sample)

    def oracle_fail(self, what: str, replay: Any, signature: dict | None = None) -> None:
        self.failures.append(Failure("oracle", what, replay, signature))

    def tie_fail(self, what: str, replay: Any) -> None:
        self.failures.append(Failure("tie", what, replay))

    def proof_fail(self, what: str, replay: Any) -> None:
        self.failures.append(Failure("proof", what, replay))

    def budget(self, quick: int, thorough: int) -> int:
        n = thorough if self.tier == "thorough" else quick
        scale = float(os.environ.get("VERIF_SCALE", "1"))
        return max(1, int(n * scale))

    def compare(self, what: str, impl: Any, model: Any, replay: Any) -> bool:
        """Canonical comparison of implementation output and model output (the tie)."""
        self.tie_comparisons += 1
        if leanio.canon(impl) != leanio.canon(model):
            if sum(1 for f in self.failures if f.kind == "tie") < 50:
                self.tie_fail(f"{what}: implementation and model differ",
                              {"input": replay, "impl": impl, "model": model})
            return False
        return True


def load_findings() -> list[dict]:
    if not FINDINGS.exists():
        return []
    out = []
    for line in FINDINGS.read_text().splitlines():
        line = line.strip()
        if line and not line.startswith("#"):
            out.append(json.loads(line))
    return out


def load_corpus(prop: str) -> list[tuple[str, Any]]:
    d = CORPUS / prop
    if not d.is_dir():
        return []
    return [(p.name, json.loads(p.read_text())) for p in sorted(d.glob("*.json"))]


def write_replay(prop: str, seed: int, n: int, data: Any) -> str:
    REPLAYS.mkdir(exist_ok=True)
    path = REPLAYS / f"{prop}-{seed}-{n}.json"
    path.write_text(json.dumps(data, indent=1, sort_keys=True, ensure_ascii=False, default=repr))
    return str(path.relative_to(ROOT))


def lean_stage(mod: Any, ctx: Ctx) -> dict[str, Any]:
    """Extraction, build of this property's Props/Tie modules, axiom audit. Records proof/tie
    failures on ctx; returns the proof-half of the evidence."""
    # THEOREMS / TIE_THEOREMS: lists of (module, fully-qualified theorem name)
    thm_pairs = [tuple(x) for x in getattr(mod, "THEOREMS", [])]
    tie_pairs = [tuple(x) for x in getattr(mod, "TIE_THEOREMS", [])]
    theorems = [n for _, n in thm_pairs]
    ties = [n for _, n in tie_pairs]
    targets = list(dict.fromkeys([m for m, _ in thm_pairs + tie_pairs] + list(getattr(mod, "LEAN_TARGETS", []))))
    info: dict[str, Any] = {"obligations": len(theorems) + len(ties), "discharged": 0,
                            "theorems": theorems, "tie_theorems": ties}
    mods = getattr(mod, "DRIVER_MODULES", None)
    if mods is not None:
        ctx.driver.modules = list(mods)
    ok, log = leanio.lake_build(ctx.driver.build_targets())
    if not ok:
        print(log[-3000:], file=sys.stderr)
        raise RuntimeError("driver modules do not build (harness problem, not a property verdict)")
    extract_ok = True
    if hasattr(mod, "extract"):
        try:
            mod.extract(ctx)
        except ExtractError as e:
            extract_ok = False
            ctx.tie_fail(f"translator rejects the current source: {e}", {"translator": str(e)})
    built = {}
    for t in targets:
        if not extract_ok and (".Tie." in t or ".Extracted." in t):
            built[t] = False
            continue
        ok, log = leanio.lake_build([t])
        built[t] = ok
        if not ok:
            errs = "\n".join(l for l in log.splitlines() if "error" in l.lower())[:3000]
            kind = "tie" if (".Tie." in t or ".Extracted." in t) else "proof"
            (ctx.tie_fail if kind == "tie" else ctx.proof_fail)(
                f"Lean module {t} no longer checks", {"module": t, "errors": errs, "log_tail": log[-3000:]})
    info["modules_built"] = built
    imports = [t for t in targets if built.get(t)]
    names = [n for m, n in thm_pairs + tie_pairs if built.get(m)]
    if imports and names:
        try:
            ax = leanio.audit_axioms(names, imports, ctx.prop)
            bad = {k: v for k, v in ax.items() if not set(v) <= leanio.ALLOWED_AXIOMS}
            for k, v in bad.items():
                ctx.proof_fail(f"theorem {k} depends on non-standard axioms {v}", {"theorem": k, "axioms": v})
            info["discharged"] = len([k for k in names if k in ax and k not in bad])
            info["axioms"] = {k: v for k, v in ax.items()}
        except leanio.LeanError as e:
            ctx.proof_fail(str(e), {"log": e.log[-3000:]})
    hits = leanio.grep_forbidden(ctx.prop)
    if hits:
        ctx.proof_fail("forbidden constructs in Lean sources", {"hits": hits[:20]})
        info["discharged"] = 0
    info["checker_cmd"] = ("cd lean && lake build " + " ".join(targets) +
                           " && lake env lean Kopf/Audit/%s.lean  # #print axioms per theorem" % ctx.prop)
    if ctx.tier == "thorough" and imports and os.environ.get("VERIF_LEANCHECKER", "1") == "1":
        with leanio.lake_lock():
            p = leanio._run(["lake", "env", "leanchecker", *imports], timeout=3600)
        info["leanchecker"] = {"rc": p.returncode, "modules": imports}
        if p.returncode != 0:
            ctx.proof_fail("leanchecker rejects compiled modules", {"log": (p.stdout + p.stderr)[-3000:]})
    return info


def decide(mod: Any, ctx: Ctx) -> int:
    """Turn recorded failures into KNOWN-FINDING / VIOLATION lines and the exit code."""
    findings = [f for f in load_findings() if f.get("property") == ctx.prop]
    open_f = [f for f in findings if f.get("status") == "open"]
    oracle = [f for f in ctx.failures if f.kind == "oracle"]
    broken = [f for f in ctx.failures if f.kind in ("tie", "proof")]
    rc = 0
    n = 0
    matched: dict[str, Failure] = {}
    unlisted: list[Failure] = []
    for f in oracle:
        hit = next((k for k in open_f if f.signature is not None and k.get("signature") == f.signature), None)
        if hit is not None:
            matched.setdefault(hit["id"], f)
        else:
            unlisted.append(f)
    for k in open_f:
        if k["id"] in matched:
            print(f"KNOWN-FINDING: property={ctx.prop} {k['id']}: {k['what']}")
        else:
            print(f"STALE-FINDING: property={ctx.prop} {k['id']} did not reproduce in this run", file=sys.stderr)
    ctx.extra["known_findings_hit"] = sorted(matched)
    seen_sigs: set[str] = set()
    for f in unlisted:
        sig = leanio.canon(f.signature) if f.signature else f.what
        if sig in seen_sigs:
            continue
        seen_sigs.add(sig)
        if n >= 5:
            break
        path = write_replay(ctx.prop, ctx.seed, n, {"property": ctx.prop, "kind": "failing-input",
                            "what": f.what, "signature": f.signature, "replay": f.replay})
        print(f"VIOLATION property={ctx.prop} replay={path}")
        n += 1
        rc = 1
    if broken and not unlisted:
        # A proof obligation or the correspondence is broken, and the oracle saw nothing wrong so
        # far: search the implementation (and the model) for a concrete failing input.
        found_before = len([f for f in ctx.failures if f.kind == "oracle"])
        if hasattr(mod, "search"):
            try:
                mod.search(ctx, broken)
            except Exception:
                traceback.print_exc()
        new = [f for f in ctx.failures if f.kind == "oracle"][found_before:]
        new = [f for f in new if not any(f.signature is not None and k.get("signature") == f.signature for k in open_f)]
        if new:
            f = new[0]
            path = write_replay(ctx.prop, ctx.seed, n, {"property": ctx.prop, "kind": "failing-input",
                                "what": f.what, "signature": f.signature, "replay": f.replay,
                                "broken_obligations": [b.what for b in broken]})
            print(f"VIOLATION property={ctx.prop} replay={path}")
        else:
            b = broken[0]
            path = write_replay(ctx.prop, ctx.seed, n, {"property": ctx.prop, "kind": "broken-obligation",
                                "what": [x.what for x in broken], "first": b.replay})
            print(f"VIOLATION property={ctx.prop} replay={path} no-failing-input-found")
        rc = 1
    return rc


def write_evidence(mod: Any, ctx: Ctx, proof: dict[str, Any], rc: int) -> None:
    EVIDENCE.mkdir(exist_ok=True)
    cov: dict[str, Any] = {
        "obligations": max(1, proof.get("obligations", 0)),
        "discharged": proof.get("discharged", 0),
        "checker_cmd": proof.get("checker_cmd", ""),
        "trusted_base": BASE_TRUSTED + list(getattr(mod, "TRUSTED", [])),
        "theorems": proof.get("theorems", []),
        "tie_theorems": proof.get("tie_theorems", []),
        "axioms": proof.get("axioms", {}),
        "modules_built": proof.get("modules_built", {}),
        "tie": getattr(mod, "TIE", ""),
        "evaluations": ctx.evaluations,
        "distinct_nontrivial": len(ctx.nontrivial),
        "rule": getattr(mod, "RULE", ""),
        "samples": ctx.samples or [{"note": "no generated cases in this run"}],
        "tie_comparisons": ctx.tie_comparisons,
        "traces_validated_against_impl": ctx.traces,
        "histograms": ctx.hist,
        "failures": [{"kind": f.kind, "what": f.what} for f in ctx.failures][:20],
    }
    if "leanchecker" in proof:
        cov["leanchecker"] = proof["leanchecker"]
    if ctx.exhaustive is not None:
        cov["exhaustive"] = ctx.exhaustive
    cov.update(ctx.extra)
    ev = {
        "property_id": ctx.prop,
        "tier": ctx.tier,
        "seed": ctx.seed,
        "level": "proof",   # the technique level of this effort (schema enum); strength is in the module's STRENGTH/LEVEL_TEXT
        "coverage": cov,
        "assumptions": list(getattr(mod, "ASSUMPTIONS", [])),
        "wall_s": round(time.time() - ctx.t0, 2),
        "violations": 0 if rc == 0 else max(1, len([f for f in ctx.failures if f.kind == "oracle"])),
    }
    (EVIDENCE / f"{ctx.prop}.json").write_text(json.dumps(ev, indent=1, ensure_ascii=False, default=repr))


def main(argv: list[str]) -> int:
    if len(argv) < 2:
        print("usage: check <Cxx> quick|thorough | check <Cxx> --replay FILE | check --extract-all", file=sys.stderr)
        return 2
    if argv[1] == "--extract-all":
        return extract_all()
    prop = argv[1].upper()
    tier = os.environ.get("VERIF_TIER") or "quick"
    replay = None
    args = argv[2:]
    while args:
        a = args.pop(0)
        if a in ("quick", "thorough"):
            tier = a
        elif a == "--replay":
            replay = args.pop(0)
        elif a == "--seed":
            os.environ["VERIF_SEED"] = args.pop(0)
    try:
        seed = int(os.environ.get("VERIF_SEED", "0") or 0)
    except ValueError:
        seed = 0
    try:
        mod = importlib.import_module(f"harness.props.{prop.lower()}")
    except ModuleNotFoundError as e:
        print(f"no check for {prop}: {e}", file=sys.stderr)
        return 2
    ctx = Ctx(prop, tier, seed)
    try:
        if replay is not None:
            data = json.loads(Path(replay if os.path.isabs(replay) else ROOT / replay).read_text())
            proof = {"obligations": 0}
            mod.replay(ctx, data)
            ctx.tier = "quick"
            rc = decide(mod, ctx)
            return rc
        proof = lean_stage(mod, ctx)
        mod.run(ctx)
        rc = decide(mod, ctx)
        write_evidence(mod, ctx, proof, rc)
        dt = time.time() - ctx.t0
        print(f"{prop} {tier} seed={seed}: rc={rc} obligations={proof.get('discharged')}/{proof.get('obligations')} "
              f"evaluations={ctx.evaluations} distinct_nontrivial={len(ctx.nontrivial)} "
              f"tie_comparisons={ctx.tie_comparisons} wall={dt:.1f}s")
        return rc
    except Exception:
        traceback.print_exc()
        print(f"{prop}: harness error (exit 2, not a verdict)", file=sys.stderr)
        return 2


def all_props() -> list[str]:
    return sorted(p.stem.upper() for p in (ROOT / "harness" / "props").glob("c[0-9]*.py"))


def extract_all() -> int:
    rc = 0
    for prop in all_props():
        mod = importlib.import_module(f"harness.props.{prop.lower()}")
        if hasattr(mod, "extract"):
            try:
                mod.extract(Ctx(prop, "quick", 0))
            except ExtractError as e:
                print(f"{prop}: extraction failed: {e}", file=sys.stderr)
                rc = 1
    return rc
