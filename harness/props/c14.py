"""C14 — resume handlers run once per object per operator process.

Model: lean/Kopf/Model/C14_Resume.lean = operator memory flags (tri-state `noticed_by_listing` since /repo 755fd2f) + C05 cause
detection + gate + C02's whole pass (`cycleB`) + the admission webhooks' `recall_memo` (`admission`).
Tie (S): every processing cycle of closed-loop simulations (restarts, re-listings after 410, reconnects,
edits before/during/after the resume cycle, label flip-flops) is replayed through `C14.step`, every served admission
request through `C14.admission`.
"""
from __future__ import annotations

import json
from typing import Any

from .. import leanio
from ..core import Ctx, load_corpus
from ..sim import pool
from . import c02

ID = "C14"
LEVEL = "proof"
STRENGTH = "partial"
ENGINES = ["lean-model", "kopfsim"]
TIE = ("S: step refinement — each real processing cycle replayed through the Lean `C14.step` (memory flags, cause, gate, the whole pass "
       "`C02.cycleB`), each served admission request through `C14.admission` (the object's memory before → after); each incarnation's "
       "whole history — every cycle and admission request of every object of every kind served, in order — through the Lean container "
       "`C14.Memories` keyed by `buildKey` (`C14.thread`): the memory the real ResourceMemories finds for an object = the one its last event left")
LEVEL_TEXT = ("Lean theorems over all event histories of one object in one process: resume_invoked_only_initial (never for a creation, "
              "never on an object being deleted without opt-in), not_for_new, after_fully_handled_never (re-listings/reconnects/later "
              "changes never repeat anything once the object is fully handled), and the at-most-once clause UNGUARDED: "
              "completed_never_again — after the step in which a resume handler reached a final outcome it is never invoked again "
              "in this process, for every continuation and for EVERY view of the stored progress each later event carries (stale "
              "bodies, lost patches, purged records), via the in-memory `resumed_handlers` of /repo 6c4463d (the repaired finding "
              "F9 and the stale-view re-run are regression theorems). First clause: eligible_selected (any lifecycle) and "
              "eligible_invoked (first attempt, all-at-once, unchanged object); completion over several passes is C03's subject. "
              "Third clause at the start-up: marked_listed_selected_iff_optin (an object found already marked and held: deletion cause, "
              "a resuming handler selected iff it opted in and matches). The memory has a second creator, an admission request (`admission`); "
              "since /repo 755fd2f (finding F10, fixed) it leaves the flag undecided and the first PROCESSED event decides it (first_event_decides: "
              "never undecided after a processed event, a decided flag never changes): runA_eq_run, "
              "UNGUARDED — whatever admission requests are served for the object and whenever, the handlers invoked event by event are "
              "those of the history without the requests (so every theorem over `run` holds with the webhooks in); "
              "eligible_selected_admitted / eligible_invoked_admitted (an object that exists at the start is resumed at its listing "
              "event after any number of requests); watched_first_never_resumed (an object first seen through ADDED/MODIFIED after "
              "admission requests is never resumed: creation never mixes with resuming); admitted_first_never_resumed / "
              "admitted_first_witness are REGRESSIONS about the pre-fix `admissionOld` (the witness is replayed on the real code and must pass). "
              "Cycles cut short by an exception (Model/C14_Results: since /repo 4eb6f10 the finished resuming handlers are noted in the "
              "memory BEFORE the handlers' results are delivered into the patch; fully_handled_once and the patch come after): "
              "completed_never_again_any_result(+_run) — UNGUARDED: for EVERY result the handlers return (copyable or not, mapping or not, "
              "JSON or not) and ANY rule of what makes the delivery raise, a resume handler that reached its final outcome is never "
              "invoked again, whatever later cycles are cut, whatever patches are lost (the completing pass's own included); "
              "completed_never_again_results — the same for either order of the bookkeeping under 'the delivery of the completing "
              "pass's results did not raise' (all that held before 4eb6f10); regressions about the OLD order: "
              "uncopyable_result_old_order_witness (the repaired finding F11; corpus F11 must pass on the real code now), "
              "cut_before_memory_repeats_old (universal), json_normalised_variant_old_order_witness (seed C14f on the tree it was "
              "written for; on the code as it is the variant no longer repeats the handler); cut_at_delivery_sibling_repeats_witness: "
              "what still repeats after a cut in the delivery are the handlers that are not resuming ones (C02/C03's matter). "
              "ONE container for all the objects of the operator (Model/C14_Memories: `ResourceMemories` keyed by `_build_key`; seed C14h): "
              "crowd_projection — UNGUARDED: in any interleaving of the processed events of all the operator's objects (any kinds, namespaces, "
              "names; deletions, re-creations) what is invoked for an object is what the per-object model invokes on its own events; "
              "completed_never_again_crowd — the at-most-once clause for the whole operator process; memory_kept_across_others (frame); "
              "namesake_index_variant_witness: a name-indexed container that drops the 'previous incarnation' (seed C14h) repeats the "
              "resume handlers of alike-named objects of two kinds at every re-listing (corpus H1 must pass on the real code). "
              "Model tied to the code per cycle (memory incl. resumed_handlers, cause, selection, invocations, records; for cycles that "
              "returned results or were cut: `C14.stepR` with the measured shapes of the results, incl. WHERE the cycle was cut).")
THEOREMS = [("Kopf.Props.C14", "Kopf.C14." + n) for n in [
    "resume_invoked_only_initial", "not_for_new", "after_fully_handled_never",
    "resumed_not_selected", "completed_never_again", "completed_never_again_run",
    "eligible_selected", "eligible_invoked", "suppressed_keeps_initial", "flipflop_regression", "stale_view_regression",
    "marked_listed_selected_iff_optin", "free_step_nothing",
    "first_event_decides", "runA_eq_run", "eligible_selected_admitted", "eligible_invoked_admitted", "watched_first_never_resumed",
    "admitted_first_never_resumed", "admitted_first_witness",
    "completed_never_again_results", "completed_never_again_any_result", "completed_never_again_any_result_run",
    "cut_before_memory_repeats_old", "cut_at_delivery_sibling_repeats_witness",
    "uncopyable_result_old_order_witness", "json_normalised_variant_old_order_witness",
    "crowd_projection", "completed_never_again_crowd", "memory_kept_across_others", "namesake_index_variant_witness"]]
RULE = ("seeded scenarios: objects handled by a first incarnation, then stop/kill + restart; 1-3 resume handlers (label filters, "
        "deleted opt-in, failures/retries) next to create/update/delete handlers; re-listings (history compaction + 410), "
        "stream reconnects, edits and label flip-flops before/during/after the resume cycle, deletions; one case = one processing "
        "cycle; distinct & non-trivial = distinct (memory flags, reason, selected kinds, outcome shape) with a resume handler selected or gated out; "
        "plus (white-box round): what happens while the operator is DOWN (deletion: objects found marked and held by the own / a foreign "
        "finalizer, own finalizer stripped, label flips, edits), registries in which EVERY handler is label-filtered (prematch fails in the "
        "middle of an open resuming cycle), the other ways a handler ends for good (retries= exhausted, errors=permanent/ignored, "
        "sub-handlers through kopf.execute) followed by a record loss (label flip-flop, stale view), admission requests (UPDATE / DELETE / "
        "CREATE, one or several) through the operator's real serve_admission_request: before the listing at the first start and at a "
        "restart, later, for an object being created while the operator runs (CREATE review before it exists, UPDATE/DELETE before its "
        "ADDED event is processed; with and without a last-handled annotation), followed by edits / flips / re-listings / deletions; "
        "plus (seed C14f): what the handlers RETURN — arbitrary Python (plain JSON values incl. falsy ones, datetime/date/timedelta, "
        "set/frozenset, tuple, bytes, Decimal, complex, an object, kopf's own views, UserDict, mappingproxy, int / tuple keys, a "
        "self-referencing list, a lock, a generator; at the top, in a dict, in a list, two levels down; the same result at every call), "
        "alone or beside a sibling that keeps the cycle open, and PATCHes refused or lost (500/503/422, connection lost before/after "
        "the server applied it), followed by re-listings, reconnects, edits, flips, restarts under default and short error throttling; "
        "plus (seed C14h): ONE operator serving SEVERAL kinds (1-3 more resources: namespaced, cluster-scoped, another API group; with a "
        "resuming, a changing or a mere watching handler) and two namespaces, objects named alike across kinds / namespaces (a parent and "
        "its child), each kind's watch-stream re-listed (410) / reconnected on its own, neighbours edited, deleted, re-created under "
        "their name (seen or unseen), namesakes appearing while the operator runs, restarts")
TRUSTED = c02.TRUSTED + ["harness/props/sim_c14.py: extra resources in the fake cluster, object references plural/namespace/name, per-kind compact/break; "
                         "the observer's record of which resource a cycle belongs to (a context variable set around process_resource_event)",
                         "harness/props/sim_c14.py: `pyvalue` (scenario JSON → the Python value a handler returns), `result_shape` (is it None / a Mapping, "
                         "do copy.deepcopy / json.dumps take it: measured on the value, no kopf code), the `_wire` hook (the fake session "
                         "serialises the payload with json.dumps when the request is made, as aiohttp does with json=)",
                         "harness/props/sim_c14.py (fake webhook server that only keeps the webhookfn kopf binds; timeline op `admit`)",
                         "the oracle's reading of 'exists when the operator starts' = stored in the fake cluster before the incarnation's "
                         "start mark (cluster history), and of 'ran to completion' = returned / PermanentError / an error the declared "
                         "errors= mode takes for final / the last attempt allowed by retries= (from the scripted handler's own log)"]
ASSUMPTIONS = ["the positive clause is not judged for an object one of whose cycles ended in an exception in that incarnation (a result that "
               "cannot be delivered or sent, a refused/lost PATCH — like the API faults it never was judged under): the handlers still "
               "to run wait for the next event of the object (observed: with lifecycle asap/one_by_one a resume handler's unstorable "
               "result starves its siblings until then); counted in first_clause/not-judged",
               "results of sub-handlers (delivered inside the parent's invocation: a failure there is the parent's error) are not in the model",
               "a cycle cut in the delivery of the results leaves fully_handled_once unset and resumed_handlers uncleared even if the pass "
               "would have closed the cycle (modelled so: cutAtDelivery; tied per cycle); the non-resuming handlers of that pass are "
               "repeated by the next event (cut_at_delivery_sibling_repeats_witness): not C14's clause",
               "filters (`registries.match`) enter the model as the observed per-handler match result (C15's subject)",
               "`eligible_invoked` (first attempt in the first non-suppressed cycle; unchanged objects and objects edited while the "
               "operator was down alike) is proved for the all-at-once lifecycle; `suppressed_keeps_initial` carries it over a "
               "suppressed first cycle; for one-by-one/asap only selection (`eligible_selected` / `matching_selected`) is proved; "
               "the oracle's positive clause (every eligible object gets every matching resume handler invoked in the incarnation) "
               "covers all lifecycles on the generated histories; eventual completion is C03's subject",
               "handler ids are unique among the resuming handlers (`hres`: every registration under the id is a resuming one)",
               "the memory of an object is created by its first processed event (`recall`) or by an admission request (`admission`: the two "
               "callers of ResourceMemories.recall in /repo); the positive theorems start from `none` or from `admissions none reqs`",
               "C14's step runs the whole pass C02.cycleB with `bound` read off the declarations (a registration under the id declared for "
               "the cause's reason); ONE id stacked under @on.resume + @on.update/@on.delete is still not generated here and outside the "
               "theorems (`hres`): kopf de-duplicates such registrations by (function, id) keeping the first in registry order, so the "
               "selection, `bound`, `initial` and the filters would have to be modelled per registration, the shared scenario builder gives "
               "every registration its own function, and the oracle tells resume invocations by the id (C02 generates update+delete stacks)",
               "timeout= on resuming handlers: the oracle's `final_call` judges only the sure case (the requested delay alone reaches "
               "the timeout); a time-out that depends on the time already spent is not counted as a completion by the oracle "
               "(the theorems cover every final outcome)",
               "one operator process = one memory: a restart is a fresh `run … none`; nothing is claimed across processes "
               "(the property allows one run per process)"]

F9_SIG = {"site": "process_changing_cause", "shape": "completed resume handler re-run after its finished record was purged in an open cycle in which the handler was not selected"}


def gen_scenario(rng: Any, i: int) -> dict:
    handlers: list[dict] = []
    nres = rng.choice([1, 2, 2, 3])
    for k in range(nres):
        opts: dict[str, Any] = {}
        if rng.random() < 0.4:
            opts["labels"] = {"l": "1"}
        if rng.random() < 0.4:
            opts["deleted"] = True
        if rng.random() < 0.3:
            opts["backoff"] = rng.choice([1.0, 2.0])
        script = []
        for _ in range(rng.choice([0, 0, 1, 2])):
            a = rng.choice(["temp", "temp", "arb", "perm"])
            script.append(["temp", rng.choice([1.0, 3.0, 6.0])] if a == "temp" else a)
        handlers.append({"kind": "resume", "id": f"r{k}", "opts": opts, "script": script, "default": "ok"})
    if rng.random() < 0.8:
        handlers.append({"kind": "create", "id": "c0", "script": [rng.choice(["ok", ["temp", 1.0]])]})
    if rng.random() < 0.7:
        handlers.append({"kind": "update", "id": "u0", "script": [rng.choice(["ok", "ok", ["temp", 2.0]])]})
    if rng.random() < 0.4:
        handlers.append({"kind": "delete", "id": "d0", "opts": {"optional": rng.random() < 0.5}})
    rng.shuffle(handlers)
    tl: list[list] = []
    nobj = rng.choice([1, 2])
    for o in range(nobj):
        tl.append([1.0 + o, "create", f"o{o}", {"spec": {"x": 0}, "metadata": {"labels": {"l": rng.choice(["0", "1", "1"])}}}])
    t = 8.0
    tl.append([t, rng.choice(["stop", "kill"])])
    t += rng.choice([1.0, 2.0])
    if rng.random() < 0.4:   # edited while the operator is down
        tl.append([t - 0.5, "edit", "o0", {"spec": {"x": 7}}])
    tl.append([t, "start"])
    for _ in range(rng.choice([1, 2, 3, 4, 5])):
        t += rng.choice([0.015625, 0.25, 1.0, 2.0, 4.0])
        op = rng.choice(["edit_spec", "flip", "flip", "relist", "reconnect", "delete", "edit_spec", "restart"])
        name = f"o{rng.randrange(nobj)}"
        if op == "edit_spec":
            tl.append([t, "edit", name, {"spec": {"x": rng.randrange(1, 5)}}])
        elif op == "flip":
            tl.append([t, "edit", name, {"metadata": {"labels": {"l": rng.choice(["0", "1"])}}}])
        elif op == "relist":
            tl.append([t, "compact"])
            tl.append([t, "break", "410"])
        elif op == "reconnect":
            tl.append([t, "break", rng.choice(["eof", "conn"])])
        elif op == "delete":
            tl.append([t, "delete", name])
        else:
            tl.append([t, rng.choice(["stop", "kill"])])
            t += 1.0
            tl.append([t, "start"])
    return {"seed": i, "lifecycle": rng.choice(["asap", "one_by_one", "all_at_once"]), "handlers": handlers,
            "timeline": tl, "settings": {"execution.default_backoff": 1.0, "watching.reconnect_backoff": 0.125},
            "end": t + 25.0}


def gen_relist_midcycle(rng: Any, i: int) -> dict:
    """A re-listing (410 Gone) or reconnect made WHILE a resume handler of a multi-cycle resume is running:
    the re-listed view is older than the progress patch that follows and is processed after it."""
    nres = rng.choice([2, 2, 3])
    handlers: list[dict] = []
    for k in range(nres):
        script: list = []
        if k == 0 or rng.random() < 0.5:
            script.append(["sleep", rng.choice([0.5, 1.0, 2.0]), "ok"])
        elif rng.random() < 0.3:
            script.append(["temp", rng.choice([1.0, 3.0])])
        handlers.append({"kind": "resume", "id": f"r{k}", "opts": {}, "script": script, "default": "ok"})
    if rng.random() < 0.5:
        handlers.append({"kind": "update", "id": "u0", "script": ["ok"]})
    tl: list[list] = [[1.0, "create", "o0", {"spec": {"x": 0}, "metadata": {"labels": {"l": "1"}}}],
                      [8.0, rng.choice(["stop", "kill"])], [9.0, "start"]]
    t = 9.0
    for _ in range(rng.choice([1, 1, 2, 3])):
        t += rng.choice([0.125, 0.25, 0.5, 0.75, 1.0])
        op = rng.choice(["relist", "relist", "reconnect", "edit"])
        if op == "relist":
            tl += [[t, "compact"], [t, "break", "410"]]
        elif op == "reconnect":
            tl.append([t, "break", rng.choice(["eof", "conn"])])
        else:
            tl.append([t, "edit", "o0", {"spec": {"x": rng.randrange(1, 5)}}])
    return {"seed": i, "lifecycle": rng.choice(["asap", "one_by_one", "one_by_one", "all_at_once"]), "handlers": handlers,
            "timeline": tl, "settings": {"execution.default_backoff": 1.0, "watching.reconnect_backoff": 0.125},
            "end": t + 25.0}


def gen_stale_view(rng: Any, i: int) -> dict:
    """A body older than the just-written progress is processed after the consistency timeout: a foreign edit
    lands while a resume handler runs, and the echo of the operator's own patch is late (slow watch, or the
    API unreachable for a while); a sibling keeps the cycle open."""
    handlers = [
        {"kind": "resume", "id": "r1", "script": [["sleep", rng.choice([0.5, 1.5, 2.5]), rng.choice(["ok", "ok", "perm"])]]},
        {"kind": "resume", "id": "r2", "script": [["temp", rng.choice([8, 12, 20])], "ok"]}]
    if rng.random() < 0.4:
        handlers.append({"kind": "update", "id": "u0", "script": ["ok"]})
    essence = {"spec": {"x": 1}, "metadata": {"labels": {"l": "1"}}}
    obj = {"name": "a", "body": {"spec": {"x": 1}, "metadata": {"labels": {"l": "1"}, "annotations": {
        "kopf.zalando.org/last-handled-configuration": json.dumps(essence, separators=(",", ":")) + "\n"}}}}
    t = rng.choice([0.25, 0.5, 1.0])
    edit = rng.choice([{"metadata": {"annotations": {"foo": "bar"}}}, {"spec": {"x": 2}}, {"status": {"s": 1}}])
    sc: dict[str, Any] = {"seed": i, "lifecycle": rng.choice(["all_at_once", "asap", "one_by_one"]), "handlers": handlers,
                          "objects": [obj], "timeline": [[t, "edit", "a", edit]], "end": 45}
    if rng.random() < 0.5:
        sc["echo_delay"] = {"default": 0, "rules": [[3, None, rng.choice([5.5, 6.0, 9.0])]]}
    else:
        sc["timeline"].append([t + 0.25, "break", "conn"])
        sc["faults"] = [{"match": {"method": "GET", "watch": True, "path_contains": "kopfexamples", "after": t + 0.2},
                         "fault": ["conn-before"], "times": rng.choice([5, 7, 9])}]
    return sc


def gen_down_ops(rng: Any, i: int) -> dict:
    """What happens to the objects WHILE THE OPERATOR IS DOWN: a deletion (the object is found already marked, held by
    the operator's own finalizer and/or a foreign one), the own finalizer stripped (the first cycle only puts it back),
    label flips, spec edits; resume handlers with and without the deleted opt-in."""
    handlers: list[dict] = []
    for k in range(rng.choice([1, 2, 2])):
        opts: dict[str, Any] = {}
        if rng.random() < 0.5:
            opts["deleted"] = True
        if rng.random() < 0.25:
            opts["labels"] = {"l": "1"}
        script = [["temp", rng.choice([1.0, 3.0])]] if rng.random() < 0.3 else []
        handlers.append({"kind": "resume", "id": f"r{k}", "opts": opts, "script": script, "default": "ok"})
    if rng.random() < 0.75:
        handlers.append({"kind": "delete", "id": "d0", "opts": {"optional": False},
                         "script": [rng.choice(["ok", "ok", ["temp", 2.0]])]})
    if rng.random() < 0.5:
        handlers.append({"kind": "update", "id": "u0", "script": ["ok"]})
    if rng.random() < 0.5:
        handlers.append({"kind": "create", "id": "c0", "script": ["ok"]})
    rng.shuffle(handlers)
    nobj = rng.choice([1, 2])
    tl: list[list] = []
    for o in range(nobj):
        tl.append([1.0 + o, "create", f"o{o}", {"spec": {"x": 0}, "metadata": {"labels": {"l": rng.choice(["0", "1", "1", "1"])}}}])
        if rng.random() < 0.25:
            tl.append([4.0 + o, "fins", f"o{o}", ["foreign/holder"]])
    tl.append([8.0, rng.choice(["stop", "kill"])])
    for o in range(nobj):
        op = rng.choice(["delete", "delete", "strip", "flip", "edit", "strip+delete", "addfin", "none"])
        if op == "addfin":   # the operator's finalizer on an object that (perhaps) needs none: the first cycle only removes it
            tl.append([8.25, "edit", f"o{o}", {"metadata": {"finalizers": ["kopf.zalando.org/KopfFinalizerMarker"]}}])
        if "strip" in op:
            tl.append([8.25, "strip_own_finalizer", f"o{o}"])
        if "delete" in op:
            tl.append([8.5, "delete", f"o{o}"])
        if op == "flip":
            tl.append([8.5, "edit", f"o{o}", {"metadata": {"labels": {"l": rng.choice(["0", "1"])}}}])
        if op == "edit":
            tl.append([8.5, "edit", f"o{o}", {"spec": {"x": 7}}])
    if rng.random() < 0.3:   # created while the operator is down: exists at the start, never handled before
        tl.append([8.5, "create", "n0", {"spec": {"x": 0}, "metadata": {"labels": {"l": "1"}}}])
    t = 9.0
    tl.append([t, "start"])
    for _ in range(rng.choice([0, 0, 1, 2])):
        t += rng.choice([0.015625, 0.25, 1.0, 2.0])
        op = rng.choice(["relist", "reconnect", "edit_spec", "delete"])
        name = f"o{rng.randrange(nobj)}"
        if op == "relist":
            tl += [[t, "compact"], [t, "break", "410"]]
        elif op == "reconnect":
            tl.append([t, "break", rng.choice(["eof", "conn"])])
        elif op == "edit_spec":
            tl.append([t, "edit", name, {"spec": {"x": rng.randrange(1, 5)}}])
        else:
            tl.append([t, "delete", name])
    return {"seed": i, "lifecycle": rng.choice(["asap", "one_by_one", "all_at_once"]), "handlers": handlers,
            "timeline": tl, "settings": {"execution.default_backoff": 1.0, "watching.reconnect_backoff": 0.125},
            "end": t + 25.0}


def _handled_object(name: str = "a", label: str = "1") -> dict:
    essence = {"spec": {"x": 1}, "metadata": {"labels": {"l": label}}}
    return {"name": name, "body": {"spec": {"x": 1}, "metadata": {"labels": {"l": label}, "annotations": {
        "kopf.zalando.org/last-handled-configuration": json.dumps(essence, separators=(",", ":")) + "\n"}}}}


def gen_allfiltered(rng: Any, i: int) -> dict:
    """EVERY handler is label-filtered: when the label flips away in the middle of an open resuming cycle, nothing
    matches the object any more (`prematch` fails: the blind branch of `process_resource_causes` drops the cause — and,
    between /repo 423b86f and ad4ec08, purged the records); then it flips back."""
    lab = {"labels": {"l": "1"}}
    handlers: list[dict] = [{"kind": "resume", "id": "r0", "opts": dict(lab), "script": [rng.choice(["ok", "ok", "perm"])]}]
    for k in range(1, rng.choice([2, 2, 3])):
        handlers.append({"kind": "resume", "id": f"r{k}", "opts": dict(lab),
                         "script": [["temp", rng.choice([3.0, 6.0])]] * rng.choice([1, 2]), "default": "ok"})
    if rng.random() < 0.4:
        handlers.append({"kind": "update", "id": "u0", "opts": dict(lab), "script": ["ok"]})
    rng.shuffle(handlers)
    t = rng.choice([0.5, 1.0, 2.0])
    away: dict[str, Any] = {"metadata": {"labels": {"l": "0"}}}
    back: dict[str, Any] = {"metadata": {"labels": {"l": "1"}}}
    if rng.random() < 0.4:
        away["spec"] = {"x": 2}
        if rng.random() < 0.5:
            back["spec"] = {"x": 1}
    tl: list[list] = [[t, "edit", "a", away]]
    if rng.random() < 0.3:
        tl += [[t + 0.25, "compact"], [t + 0.25, "break", "410"]]
    t += rng.choice([0.5, 1.0, 2.0])
    tl.append([t, "edit", "a", back])
    return {"seed": i, "lifecycle": rng.choice(["all_at_once", "all_at_once", "asap", "one_by_one"]), "handlers": handlers,
            "objects": [_handled_object()], "timeline": tl,
            "settings": {"execution.default_backoff": 1.0, "watching.reconnect_backoff": 0.125}, "end": t + 30.0}


SHAPES = ["plain", "retries-temp", "retries-arb", "errors-permanent", "errors-ignored", "subs", "subs-pending", "timeout-temp"]


def gen_shapes(rng: Any, i: int) -> dict:
    """The other ways a resume handler ends for good — the framework gives up on it (retries=), an arbitrary error taken
    for final (errors=permanent / ignored), sub-handlers run through `kopf.execute` — followed by the loss of its record
    while a sibling keeps the cycle open: the label flip-flop of finding F9, or a stale view after the consistency timeout."""
    shape = rng.choice(SHAPES)
    stale = rng.random() < 0.35 and not shape.startswith("subs")
    opts: dict[str, Any] = {} if stale else {"labels": {"l": "1"}}
    r1: dict[str, Any] = {"kind": "resume", "id": "r1", "opts": opts, "script": [], "default": "ok"}
    n = 1
    if shape in ("retries-temp", "retries-arb"):
        n = rng.choice([1, 1, 2])
        opts["retries"] = n
        opts["backoff"] = 0.5
        r1["script"] = [["temp", 0.5] if shape == "retries-temp" else "arb"] * n + ["ok"] * 3
        r1["default"] = "perm"
    elif shape == "timeout-temp":    # gives up at the first failure: the requested delay alone exceeds the timeout
        opts["timeout"] = 1.0
        r1["script"] = [["temp", 2.0]] + ["ok"] * 3
        r1["default"] = "perm"
    elif shape.startswith("errors-"):
        opts["errors"] = shape.split("-")[1]
        r1["script"] = ["arb"]
    elif shape.startswith("subs"):
        r1["sub"] = [{"id": "s1"}, {"id": "s2", "script": [["temp", 12.0]] if shape == "subs-pending" else []}]
    if stale:      # the foreign edit must land while the (last) attempt is running
        last = r1["script"][n - 1] if r1["script"] else "ok"
        if r1["script"]:
            r1["script"][n - 1] = ["sleep", 1.5, last]
        else:
            r1["script"] = [["sleep", 1.5, "ok"]]
    handlers = [r1, {"kind": "resume", "id": "r2", "script": [["temp", rng.choice([8, 12])]] * 2, "default": "ok"}]
    if rng.random() < 0.4:
        handlers.append({"kind": "update", "id": "u0", "script": ["ok"]})
    rng.shuffle(handlers)
    sc: dict[str, Any] = {"seed": i, "lifecycle": "all_at_once", "handlers": handlers, "objects": [_handled_object()],
                          "settings": {"execution.default_backoff": 1.0}, "end": 45, "shape": shape}
    if stale:
        t = 0.5 * (n - 1) + rng.choice([0.25, 0.5, 1.0])
        edit = rng.choice([{"metadata": {"annotations": {"foo": "bar"}}}, {"spec": {"x": 2}}])
        sc["timeline"] = [[t, "edit", "a", edit]]
        sc["echo_delay"] = {"default": 0, "rules": [[2 + n, None, rng.choice([5.5, 6.0, 9.0])]]}
    else:
        t = 0.5 * n + rng.choice([1.0, 2.0])
        away: dict[str, Any] = {"metadata": {"labels": {"l": "0"}}}
        if rng.random() < 0.5:
            away["spec"] = {"x": 2}
        sc["timeline"] = [[t, "edit", "a", away], [t + rng.choice([0.5, 1.0, 2.0]), "edit", "a", {"metadata": {"labels": {"l": "1"}}}]]
    return sc


def gen_admission(rng: Any, i: int) -> dict:
    """The other creator of an object's memory: admission requests (UPDATE / DELETE / CREATE) served through the
    operator's real `serve_admission_request` — one or several; right when the webhook server comes up, i.e. before the
    listing is processed (at the first start, or at a restart), or later; for an object that exists at the start (must be
    resumed: /repo 755fd2f), and for an object that is being created while the operator runs — the request is served
    before the ADDED event is processed (must NOT be resumed, even if it comes with a last-handled annotation, as an
    object restored from an export does); followed by edits, re-listings, reconnects, deletions."""
    variant = rng.choice(["startup", "startup", "restart", "creating", "creating"])
    r1: dict[str, Any] = {"kind": "resume", "id": "r1", "script": [rng.choice(["ok", "ok", ["temp", 1.0]])], "default": "ok"}
    if rng.random() < 0.3:
        r1["opts"] = {"deleted": True}
    handlers = [r1, {"kind": rng.choice(["validate", "mutate"]), "id": "v1"}]
    if rng.random() < 0.3:
        handlers.append({"kind": "resume", "id": "r2", "opts": {"labels": {"l": "1"}}, "default": "ok",
                         "script": [rng.choice(["ok", ["temp", 2.0]])]})
    if rng.random() < 0.5:
        handlers.append({"kind": "update", "id": "u0", "script": ["ok"]})
    if rng.random() < 0.4:
        handlers.append({"kind": "create", "id": "c0", "script": ["ok"]})
    if rng.random() < 0.3:
        handlers.append({"kind": "delete", "id": "d0", "opts": {"optional": rng.random() < 0.5}, "script": ["ok"]})
    rng.shuffle(handlers)
    operation = lambda: rng.choice(["UPDATE", "UPDATE", "UPDATE", "DELETE", "CREATE"])
    tl: list[list] = []
    sc: dict[str, Any] = {"seed": i, "runner": "harness.props.sim_c14:run_scenario", "webhook": True, "variant": variant,
                          "lifecycle": rng.choice(["asap", "all_at_once", "one_by_one"]), "handlers": handlers,
                          "settings": {"execution.default_backoff": 1.0, "watching.reconnect_backoff": 0.125}}
    name = "a"
    if variant == "startup":
        sc["objects"] = [_handled_object()]
        t = rng.choice([0, 0, 0, 0.5, 2.0])
        for _ in range(rng.choice([1, 1, 2, 3])):
            tl.append([t, "admit", "a", operation()])
    elif variant == "restart":
        # handled by the first incarnation; the request is waiting when the second one's webhook server comes up
        tl.append([1.0, "create", "a", {"spec": {"x": 1}, "metadata": {"labels": {"l": "1"}}}])
        if rng.random() < 0.3:
            tl.append([2.0, "admit", "a", operation()])
        tl += [[8.0, rng.choice(["stop", "kill"])], [9.0, "start"]]
        t = 9.0
        for _ in range(rng.choice([1, 1, 2])):
            tl.append([t, "admit", "a", operation()])
    else:
        # created while the operator runs; the request(s) come before the ADDED event is processed
        sc["objects"] = [_handled_object("b")]
        t = rng.choice([1.0, 2.0])
        name = "n"
        body = _handled_object("n")["body"] if rng.random() < 0.5 else {"spec": {"x": 1}, "metadata": {"labels": {"l": "1"}}}
        if rng.random() < 0.4:
            tl.append([t, "admit", "n", "CREATE"])      # the review of the creation itself: the object does not exist yet
        tl.append([t, "create", "n", body])
        for _ in range(rng.choice([1, 1, 2])):
            tl.append([t, "admit", "n", rng.choice(["UPDATE", "UPDATE", "DELETE"])])
        if rng.random() < 0.3:
            tl.append([t, "admit", "b", operation()])
    for _ in range(rng.choice([0, 1, 1, 2])):
        t += rng.choice([0.015625, 0.03125, 0.25, 1.0, 3.0])
        op = rng.choice(["edit", "edit", "flip", "relist", "reconnect", "delete", "admit", "admit"])
        if op == "edit":
            tl.append([t, "edit", name, {"spec": {"x": rng.randrange(2, 6)}}])
        elif op == "flip":
            tl.append([t, "edit", name, {"metadata": {"labels": {"l": rng.choice(["0", "1"])}}}])
        elif op == "relist":
            tl += [[t, "compact"], [t, "break", "410"]]
        elif op == "reconnect":
            tl.append([t, "break", rng.choice(["eof", "conn"])])
        elif op == "delete":
            tl += [[t, "admit", name, "DELETE"], [t, "delete", name]]
        else:
            tl.append([t, "admit", name, operation()])
    sc["timeline"] = tl
    sc["end"] = t + 25.0
    return sc


def gen_stacked_siblings(rng: Any, i: int) -> dict:
    """Beside the resuming handlers, ONE id registered for two causes (`@kopf.on.update` + `@kopf.on.delete`, or
    `@kopf.on.create` + `@kopf.on.update`): two handlers with one progress record. A retrying resume handler keeps the
    cycle open while the cause changes (resume → update → delete), so that the record under the shared id carries the
    other cause's purpose when its namesake is selected: since /repo f7d6401 the pass leaves it out (`C02.cycleB`, `bound`
    read off the declarations) while the resuming handlers' records are re-purposed as before. (A stack that includes
    @on.resume itself is not generated: see ASSUMPTIONS.)"""
    kinds = rng.choice([["update", "delete"], ["update", "delete"], ["create", "update"], ["create", "update", "delete"]])
    how = rng.choice(["ok", "ok", "perm", ["temp", 0.5], ["temp", 6.0]])
    handlers: list[dict] = [{"kind": k, "id": "h", "opts": {}, "script": [how] if k == kinds[0] or rng.random() < 0.3 else [], "default": "ok"}
                            for k in kinds]
    handlers.append({"kind": "resume", "id": "r1", "opts": {"deleted": True} if rng.random() < 0.5 else {},
                     "script": [["temp", rng.choice([3.0, 6.0])]] * rng.choice([1, 2, 3]), "default": "ok"})
    if rng.random() < 0.5:
        handlers.append({"kind": "resume", "id": "r2", "opts": {"deleted": True} if rng.random() < 0.3 else {}, "script": [], "default": "ok"})
    rng.shuffle(handlers)
    sc: dict[str, Any] = {"seed": i, "lifecycle": rng.choice(["asap", "one_by_one", "all_at_once"]), "handlers": handlers,
                          "settings": {"execution.default_backoff": 1.0, "watching.reconnect_backoff": 0.125}}
    tl: list[list] = []
    if kinds[0] == "create":
        # created while the operator runs (creation cause; a retrying creation sibling keeps that cycle open), then edited
        # (/ deleted) while it is open
        handlers.append({"kind": "create", "id": "c1", "script": [["temp", rng.choice([3.0, 6.0])]] * rng.choice([1, 2]), "default": "ok"})
        t = 1.0
        tl.append([t, "create", "a", {"spec": {"x": 0}, "metadata": {"labels": {"l": "1"}}}])
        sc["objects"] = [_handled_object("b")]
    else:
        sc["objects"] = [_handled_object()]
        t = 0.0
    if rng.random() < 0.75:     # directed: the next cause(s) of the stack arrive while the sibling is still retrying
        for k in kinds[1:] if kinds[0] == "create" else kinds:
            t += rng.choice([0.25, 0.5, 1.0, 2.0])
            tl.append([t, "edit", "a", {"spec": {"x": rng.randrange(2, 9)}}] if k == "update" else [t, "delete", "a"])
    for _ in range(rng.choice([0, 1, 1, 2])):
        t += rng.choice([0.25, 0.5, 1.0, 2.0, 4.0])
        op = rng.choice(["edit", "edit", "delete", "relist", "restart"])
        if op == "edit":
            tl.append([t, "edit", "a", {"spec": {"x": rng.randrange(2, 9)}}])
        elif op == "delete":
            tl.append([t, "delete", "a"])
        elif op == "relist":
            tl += [[t, "compact"], [t, "break", "410"]]
        else:
            tl += [[t, rng.choice(["stop", "kill"])], [t + 1.0, "start"]]
            t += 1.0
    sc["timeline"] = tl
    sc["end"] = t + 30.0
    return sc


PLAIN_RESULTS: list = ["done", 7, 0, "", True, False, [1, 2], [], {"ok": True, "items": [1, 2]}, {}, {"a": {"b": None}}, 1.5]
PY_RESULT_KINDS = ["datetime", "datetime", "date", "timedelta", "set", "frozenset", "tuple", "bytes", "decimal", "complex", "object",
                   "view", "view", "userdict", "mappingproxy", "intkeys", "tuplekeys", "circular", "lock", "generator"]


def _result(rng: Any) -> Any:
    """What a handler returns: arbitrary Python. Plain JSON values (falsy ones too), and everything JSON cannot write down
    or writes down differently — at the top, inside a dict, inside a list, two levels down (see sim_c14.pyvalue)."""
    if rng.random() < 0.2:
        return rng.choice(PLAIN_RESULTS)
    kind = rng.choice(PY_RESULT_KINDS)
    node: dict[str, Any] = {"$py": kind}
    if kind == "view":
        node["of"] = rng.choice(["spec", "meta", "status", "body", "labels"])
    if kind in ("object", "tuplekeys"):
        node["of"] = rng.choice([1, "x", [1]])
    place = rng.choice(["top", "top", "dict", "dict", "list", "deep"])
    if place == "top":
        return node
    if place == "dict":
        return {"at": node, "n": 1}
    if place == "list":
        return [1, node]
    return {"a": {"b": [node]}}


def gen_results(rng: Any, i: int) -> dict:
    """The framework handles what the handlers RETURN between their completion and its own bookkeeping: resume handlers
    (and their create/update neighbours) that finish with arbitrary Python results — now and then after a retry, the same
    result at every call —, alone or beside a sibling that keeps the cycle open; and the other way a finished cycle fails:
    the PATCH that carries the progress is refused / lost (5xx, 422, connection lost before or after the server applied
    it). Then the events that must not repeat the handler: re-listings (410), reconnects, edits, label flips, a restart;
    with the default error throttling and with short ones."""
    unusual = _result(rng)
    handlers: list[dict] = []
    nres = rng.choice([1, 1, 2, 3])
    star = rng.randrange(nres)
    for k in range(nres):
        h: dict[str, Any] = {"kind": "resume", "id": f"r{k}", "opts": {}, "script": [], "default": "ok"}
        if k == star:
            h["script"] = ([["temp", rng.choice([0.5, 1.0])]] if rng.random() < 0.25 else []) + [["ok", unusual]]
            h["default"] = ["ok", unusual]
            if rng.random() < 0.2:
                h["opts"]["labels"] = {"l": "1"}
        else:
            how = rng.choice(["ok", "result", "retrying", "retrying"])
            if how == "result":
                h["script"] = [["ok", _result(rng)]]
            elif how == "retrying":
                h["script"] = [["temp", rng.choice([2.0, 6.0, 20.0])]] * rng.choice([1, 2])
        handlers.append(h)
    if rng.random() < 0.5:
        handlers.append({"kind": "update", "id": "u0", "script": [rng.choice(["ok", ["ok", _result(rng)]])], "default": "ok"})
    if rng.random() < 0.3:
        handlers.append({"kind": "create", "id": "c0", "script": [rng.choice(["ok", ["ok", _result(rng)]])], "default": "ok"})
    rng.shuffle(handlers)
    sc: dict[str, Any] = {"seed": i, "runner": "harness.props.sim_c14:run_scenario",
                          "lifecycle": rng.choice(["asap", "one_by_one", "all_at_once"]), "handlers": handlers,
                          "settings": {"execution.default_backoff": 1.0, "watching.reconnect_backoff": 0.125}}
    delays = rng.choice([None, None, [0.25], [1, 1, 2]])
    if delays is not None:
        sc["settings"]["queueing.error_delays"] = delays
    tl: list[list] = []
    if rng.random() < 0.6:
        sc["objects"] = [_handled_object()]
        name, t = "a", 0.0
    else:
        tl += [[1.0, "create", "a", {"spec": {"x": 1}, "metadata": {"labels": {"l": "1"}}}], [8.0, rng.choice(["stop", "kill"])], [9.0, "start"]]
        name, t = "a", 9.0
    if rng.random() < 0.3:      # the other failure of a finished cycle: its PATCH does not make it
        sc["faults"] = [{"match": {"method": "PATCH", "path_contains": "kopfexamples/", "after": t},
                         "fault": rng.choice([["status", 500], ["status", 503], ["status", 422], ["conn-before"], ["conn-after"]]),
                         "times": rng.choice([1, 1, 2, 3])}]
    for _ in range(rng.choice([2, 3, 3, 4])):
        t += rng.choice([0.5, 1.0, 2.0, 4.0, 8.0])
        op = rng.choice(["relist", "relist", "reconnect", "edit", "edit", "flip", "restart"])
        if op == "relist":
            tl += [[t, "compact"], [t, "break", "410"]]
        elif op == "reconnect":
            tl.append([t, "break", rng.choice(["eof", "conn"])])
        elif op == "edit":
            tl.append([t, "edit", name, rng.choice([{"spec": {"x": rng.randrange(2, 9)}}, {"metadata": {"annotations": {"foo": str(rng.randrange(9))}}}])])
        elif op == "flip":
            tl.append([t, "edit", name, {"metadata": {"labels": {"l": rng.choice(["0", "1"])}}}])
        else:
            tl += [[t, rng.choice(["stop", "kill"])], [t + 1.0, "start"]]
            t += 1.0
    sc["timeline"] = tl
    sc["end"] = t + 25.0
    return sc


CROWD_KINDS = ["kopfsiblings", "kopfglobals", "kopfcousins"]


def _handled_ref(ref: str, label: str = "1") -> dict:
    return {"ref": ref, "body": _handled_object("-", label)["body"]}


def gen_crowd(rng: Any, i: int) -> dict:
    """ONE operator, SEVERAL kinds and namespaces, ONE memories container (`inventory.ResourceMemories` is shared by
    everything the operator serves): objects of different kinds / in different namespaces that bear the SAME name (a parent
    and its child named after it), a cluster-scoped namesake, objects re-created under their name; every kind has its own
    watch-stream, which is re-listed (410) / reconnected on its own, at its own time; the neighbours are edited, deleted,
    re-created, created anew while the operator runs, reviewed by nobody. Whatever happens to the OTHER objects, an object's
    resume handlers run once per process."""
    kinds = rng.sample(CROWD_KINDS, rng.choice([1, 1, 2, 3]))
    names = ["a", "a", "a", "b"]
    handlers: list[dict] = []
    for k in range(rng.choice([1, 1, 2])):
        script = [["temp", rng.choice([1.0, 3.0])]] if rng.random() < 0.3 else []
        handlers.append({"kind": "resume", "id": f"r{k}", "opts": {}, "script": script, "default": "ok"})
    if rng.random() < 0.4:
        handlers.append({"kind": "update", "id": "u0", "script": ["ok"]})
    if rng.random() < 0.2:
        handlers.append({"kind": "delete", "id": "d0", "opts": {"optional": False}, "script": ["ok"]})
    objects = [_handled_ref("kopfexamples/ns/a")]
    if rng.random() < 0.4:
        objects.append(_handled_ref("kopfexamples/default/a"))       # the same kind and name in another namespace
    if rng.random() < 0.3:
        objects.append(_handled_ref("kopfexamples/ns/b"))
    for n, kind in enumerate(kinds):
        # any handler on the other kind makes the operator serve it: a resuming one, a changing one, or a mere watcher
        what = rng.choice(["resume", "resume", "update", "create", "event"])
        handlers.append({"kind": what, "id": f"x{n}", "resource": kind, "script": [], "default": "ok"})
        if what != "resume" and rng.random() < 0.3:
            handlers.append({"kind": "resume", "id": f"y{n}", "resource": kind, "script": [], "default": "ok"})
        for _ in range(rng.choice([1, 1, 2])):
            ns = "" if kind == "kopfglobals" else rng.choice(["ns", "ns", "ns", "default"])
            ref = f"{kind}/{ns}/{rng.choice(names)}"
            if all(o["ref"] != ref for o in objects):
                objects.append(_handled_ref(ref))
    rng.shuffle(handlers)
    refs = [o["ref"] for o in objects]
    plurals = ["kopfexamples"] + kinds
    sc: dict[str, Any] = {"seed": i, "runner": "harness.props.sim_c14:run_scenario", "kinds": kinds,
                          "lifecycle": rng.choice(["asap", "one_by_one", "all_at_once"]), "handlers": handlers,
                          "settings": {"execution.default_backoff": 1.0, "watching.reconnect_backoff": 0.125}}
    tl: list[list] = []
    t = 0.0
    if rng.random() < 0.35:
        # the objects are handled by a first incarnation (created one by one, in any order), then the operator restarts
        sc["objects"] = []
        for ref in rng.sample(refs, len(refs)):
            t += 0.5
            tl.append([t, "create", ref, {"spec": {"x": 1}, "metadata": {"labels": {"l": "1"}}}])
        t += 6.0
        tl += [[t, rng.choice(["stop", "kill"])], [t + 1.0, "start"]]
        t += 1.0
    else:
        sc["objects"] = rng.sample(objects, len(objects))
    fresh = 0
    for _ in range(rng.choice([3, 4, 5, 6, 7])):
        t += rng.choice([0.25, 1.0, 2.0, 4.0])
        op = rng.choice(["relist", "relist", "relist", "relist", "reconnect", "edit", "delete", "recreate", "newcomer", "restart"])
        if op == "relist":
            k = rng.choice(plurals)
            tl += [[t, "compact", k], [t, "break", "410", k]]
        elif op == "reconnect":
            tl.append([t, "break", rng.choice(["eof", "conn"]), rng.choice(plurals)])
        elif op == "edit":
            tl.append([t, "edit", rng.choice(refs), {"spec": {"x": rng.randrange(2, 9)}}])
        elif op == "delete":
            tl.append([t, "delete", rng.choice(refs[1:] or refs)])
        elif op == "recreate":      # the same name, a new uid — seen as DELETED + ADDED, or (with a re-listing) not seen going at all
            ref = rng.choice(refs)
            tl.append([t, "recreate", ref, rng.choice([_handled_object("-")["body"], {"spec": {"x": 1}, "metadata": {"labels": {"l": "1"}}}])])
            if rng.random() < 0.5:
                k = ref.split("/")[0]
                tl += [[t, "compact", k], [t, "break", "410", k]]
        elif op == "newcomer":      # a namesake of another kind / in another namespace appears while the operator runs
            kind = rng.choice(plurals)
            ns = "" if kind == "kopfglobals" else rng.choice(["ns", "default"])
            ref = f"{kind}/{ns}/{rng.choice(names)}"
            if ref not in refs:
                refs.append(ref)
                fresh += 1
                tl.append([t, "create", ref, rng.choice([_handled_object("-")["body"], {"spec": {"x": 1}, "metadata": {"labels": {"l": "1"}}}])])
        else:
            tl += [[t, rng.choice(["stop", "kill"])], [t + 1.0, "start"]]
            t += 1.0
    sc["timeline"] = tl
    sc["end"] = t + 25.0
    return sc


def _mem(snap: dict | None, sort: bool = True) -> dict | None:
    """`ResourceMemory` as the model reads it; `noticed_by_listing` is True / False / None (not known yet)."""
    if snap is None:
        return None
    res = list(snap.get("resumed_handlers", []))
    return {"noticed": snap["noticed_by_listing"], "fullyHandled": snap["fully_handled_once"], "resumed": sorted(res) if sort else res}


def _decls(sc: dict) -> list[dict]:
    out = []
    for h in sc["handlers"]:
        k = h["kind"]
        if k in ("create", "update", "delete"):
            out.append({"id": h["id"], "gate": {"reason": k, "initial": False, "deleted": False}})
        elif k == "resume":
            out.append({"id": h["id"], "gate": {"reason": None, "initial": True, "deleted": bool(h.get("opts", {}).get("deleted"))}})
        elif k == "field":
            out.append({"id": h["id"], "gate": {"reason": None, "initial": False, "deleted": False}})
    return out


OWN = "kopf.zalando.org/"
OWN_FINALIZER = OWN + "KopfFinalizerMarker"
F10_SIG = {"site": "admission.serve_admission_request", "shape": "memory created by an admission request before the listing: the object is never resumed"}


def final_call(h: dict, c: dict) -> bool:
    """Is this invocation of the resume handler `h` the one that ends it for good — judged from the declaration
    (errors=, retries=) and from what the scripted function did, not from kopf's records: it returned (with
    sub-handlers run through `kopf.execute`: returned only once they are all finished), failed permanently, failed
    with an error that the declared mode takes for final, or failed on its last allowed attempt."""
    out = c.get("outcome")
    opts = h.get("opts") or {}
    retries = opts.get("retries")
    last = retries is not None and int(c.get("retry") or 0) + 1 >= int(retries)
    if out in ("ok", "perm"):
        return True
    if out == "arb":
        return str(opts.get("errors") or "temporary").lower() in ("ignored", "permanent") or last
    if out == "temp":
        # … or the requested delay alone reaches the declared timeout= (the time already spent only adds to it)
        timeout = opts.get("timeout")
        return last or (timeout is not None and c.get("delay") is not None and float(c["delay"]) >= float(timeout))
    return False     # "subhandlers" (children pending), None (cancelled / still running)


SERVED = ("kopfexamples", "kopfsiblings", "kopfglobals", "kopfcousins")       # see sim_c14.KINDS
PLURAL_OF_KIND = {"KopfExample": "kopfexamples", "KopfSibling": "kopfsiblings", "KopfGlobal": "kopfglobals", "KopfCousin": "kopfcousins"}


def _versions(tr: dict, plurals: dict[str, str] | None = None) -> dict[str, list[dict]]:
    """Every stored version of every object of the kinds the operator serves, per uid, in time order (the cluster's own
    record); `plurals` is filled with the kind (plural) of every uid."""
    out: dict[str, list[dict]] = {}
    for key, vs in tr.get("history", {}).items():
        plural = key.split("/")[0]
        if plural not in SERVED:
            continue
        for v in vs:
            uid = (v["body"].get("metadata") or {}).get("uid")
            if uid:
                out.setdefault(uid, []).append(v)
                if plurals is not None:
                    plurals[uid] = plural
    return out


def _ident(body: dict) -> dict:
    """What `ResourceMemories._build_key` can read of a raw body (the model's `Ident`)."""
    meta = body.get("metadata") or {}
    return {"uid": meta.get("uid"), "kind": body.get("kind"), "apiVersion": body.get("apiVersion"), "name": meta.get("name"),
            "namespace": meta.get("namespace"), "creationTimestamp": meta.get("creationTimestamp")}


def container_entries(ctx: Ctx, sc: dict, tr: dict) -> list[tuple[list, list, dict]]:
    """The operator's ONE memories container over each incarnation: every processing cycle of every object of every kind
    (and every admission request served outside a cycle of its object), in the order of happening → one `C14.thread`
    request per incarnation: [ident, the memory as the entry left it]; the model answers what its container finds for the
    object right before each entry, which must be what the real container found (`mem_before`)."""
    per_inc: dict[Any, list] = {}
    spans: dict[tuple, list] = {}
    unordered: set[tuple] = set()
    for cyc in tr["cycles"]:
        spans.setdefault((cyc["inc"], cyc["uid"]), []).append((cyc["t0"], cyc.get("t1", cyc["t0"])))
    for cyc in tr["cycles"]:
        if "error" in (cyc.get("mem_before") or {}) or "error" in (cyc.get("mem_after") or {}) or not cyc.get("uid"):
            continue
        per_inc.setdefault(cyc["inc"], []).append((cyc["t0"], 1, cyc["i"], _ident(cyc["body"]), cyc.get("mem_before"), cyc.get("mem_after"),
                                                   {"cycle": cyc["i"]}))
    for n, mk in enumerate(tr["marks"]):
        if mk["what"] != "admit" or mk.get("error") or not mk.get("mem_seen") or not mk.get("uid"):
            continue
        if "error" in (mk.get("mem_before") or {}) or "error" in (mk.get("mem_after") or {}):
            continue
        if any(a <= mk["t"] <= b for a, b in spans.get((mk.get("inc"), mk["uid"]), [])):
            # served while a cycle of the same object was at work (or at the very same instant): no order to tell —
            # this object's entries are left out of the incarnation's history (the others stay)
            unordered.add((mk.get("inc"), mk["uid"]))
            ctx.count("container", "object left out: an admission request served during one of its cycles")
            continue
        ident = {"uid": mk["uid"], "kind": None, "apiVersion": None, "name": mk.get("name"), "namespace": None, "creationTimestamp": None}
        per_inc.setdefault(mk.get("inc"), []).append((mk["t"], 0, n, ident, mk.get("mem_before"), mk.get("mem_after"), {"admit": mk["t"]}))
    out = []
    for inc, items in per_inc.items():
        items = [it for it in items if (inc, it[3]["uid"]) not in unordered]
        items.sort(key=lambda x: x[:3])
        alive: dict[str, tuple] = {}
        for it in items:
            o = it[3]
            namesakes = sum(1 for u, (nm, ns, kd) in alive.items() if u != o["uid"] and nm == o["name"])
            if it[4] is None and it[1] == 1:
                ctx.count("container", f"new key remembered beside {min(namesakes, 2)}{'+' if namesakes > 2 else ''} alike-named object(s) of "
                          f"{'another kind/namespace' if namesakes else 'no kind'}")
            elif it[1] == 1:
                ctx.count("container", f"known key found beside {min(namesakes, 2)} alike-named")
            if it[5] is None:
                alive.pop(o["uid"], None)
            else:
                alive[o["uid"]] = (o["name"], o["namespace"], o["kind"])
        out.append((["C14.thread", [[it[3], _mem(it[5])] for it in items]],
                    [_mem(it[4]) for it in items], {"scenario": sc, "inc": inc, "entries": [it[6] for it in items]}))
    return out


def oracle(ctx: Ctx, sc: dict, tr: dict) -> None:
    resume_ids = {h["id"]: h for h in sc["handlers"] if h["kind"] == "resume"}
    # THIRD CLAUSE: never on an object being deleted without opt-in
    per_key: dict[tuple, list[dict]] = {}
    for c in tr["calls"]:
        if c["id"] not in resume_ids:
            continue
        per_key.setdefault((c["inc"], c["uid"], c["id"]), []).append(c)
        if c.get("reason") == "create":
            # "Creation never mixes with resuming, even if an object is detected on startup": an object that was never
            # handled before gets its creation handlers only (the handler's own `reason` kwarg says what it is run for)
            ctx.oracle_fail(f"resume handler {c['id']} invoked for the creation of an object (never handled before)",
                            {"scenario": sc, "call": c}, {"site": "detect_changing_cause", "shape": "resume mixed into a creation"})
        if c.get("marked") and not resume_ids[c["id"]].get("opts", {}).get("deleted"):
            ctx.oracle_fail(f"resume handler {c['id']} invoked on an object being deleted without opting in",
                            {"scenario": sc, "call": c}, {"site": "ChangingRegistry.iter_handlers", "shape": "resume on deleted without opt-in"})
    # SECOND CLAUSE: once a resume handler has run to completion (see `final_call`) for an object in an operator
    # process, it is not invoked again for that object in that process — whatever the later invocation ends with.
    for key, calls in per_key.items():
        inc, uid, hid = key
        k0 = next((k for k, c in enumerate(calls) if final_call(resume_ids[hid], c)), None)
        if k0 is None or k0 == len(calls) - 1:
            continue
        t0, t1 = calls[k0]["t"], calls[k0 + 1]["t"]
        # classify: was the finished record dropped in an open cycle in between (the F9 shape)?
        dropped = False
        dropped_while_selected = False
        for cyc in tr["cycles"]:
            p = cyc.get("pcc")
            if not p or cyc["inc"] != inc or cyc["uid"] != uid or not (t0 <= cyc["t0"] <= t1) or "P_after" not in p:
                continue
            before = p["P"].get(hid)
            if before and (before["success"] or before["failure"]) and p["P_after"].get(hid) is None \
                    and not p.get("memory_fully_handled_once"):
                if hid in p["selected"]:
                    dropped_while_selected = True
                else:
                    dropped = True
        sig = (F9_SIG if dropped and not dropped_while_selected else
               {"site": "process_changing_cause", "shape": "finished record of a still-selected resume handler lost in an open cycle"}
               if dropped_while_selected else
               {"site": "process_changing_cause", "shape": "resume handler completed twice in one process"})
        ctx.oracle_fail(f"resume handler {hid} ran to completion (call {k0}: {calls[k0].get('outcome')}, retry {calls[k0].get('retry')}) and was "
                        f"invoked {len(calls) - 1 - k0} more time(s) for object {uid} in incarnation {inc}",
                        {"scenario": sc, "calls": calls[:k0 + 3]}, sig)
    # FIRST CLAUSE (positive). WHICH objects "exist when the operator starts" is read from the cluster's own history and
    # the start of the incarnation — not from what the operator made of them (the type of the first event it processed):
    # an object stored before the incarnation started, handled before (last-handled state stored), without progress
    # records, which matches the handler and stays so for as long as this incarnation lives — long enough (>= 10 s) —
    # gets each such resume handler invoked at least once in this incarnation, if it is (A) not being deleted during the
    # incarnation, or (B) already being deleted at the start, still held by the operator's own finalizer, and the handler
    # opted in (deleted=True).
    inc_end = {m["inc"]: m["t"] for m in tr["marks"] if m["what"] in ("stopped", "killed")}
    t_end = max([m["t"] for m in tr["marks"] if m["what"] == "end"] or [0])
    called = {(c["inc"], c["uid"], c["id"]) for c in tr["calls"] if c["id"] in resume_ids}
    uid_plural: dict[str, str] = {}
    versions = _versions(tr, uid_plural)
    first_cycle: dict[tuple, dict] = {}
    for cyc in tr["cycles"]:
        first_cycle.setdefault((cyc["inc"], cyc["uid"]), cyc)
    failed_cycles = {(cyc["inc"], cyc["uid"]) for cyc in tr["cycles"] if cyc.get("pcc_raised") or cyc.get("apply_raised") or cyc.get("error")}
    for incr in tr.get("incarnations", []):
        inc, t_start = incr["inc"], incr["t"]
        t_stop = inc_end.get(inc, t_end)
        if t_stop - t_start < 10.0 or sc.get("faults") or sc.get("echo_delay"):
            continue
        for uid, vs in versions.items():
            before = [v for v in vs if v["t"] <= t_start]
            if not before or before[-1]["event"] == "DELETED":
                continue
            at_start = before[-1]["body"]
            window = [at_start] + [v["body"] for v in vs if t_start < v["t"] <= t_stop]
            gone = any(v["event"] == "DELETED" for v in vs if t_start < v["t"] <= t_stop)
            meta0 = at_start.get("metadata") or {}
            ann0 = meta0.get("annotations") or {}
            if OWN + "last-handled-configuration" not in ann0:
                continue
            if any(k.startswith(OWN) and k[len(OWN):] not in ("last-handled-configuration", "touch-dummy", "kopf-managed") for k in ann0):
                continue    # unfinished progress from an earlier process
            marked0 = bool(meta0.get("deletionTimestamp"))
            held0 = OWN_FINALIZER in (meta0.get("finalizers") or [])
            if (inc, uid) in failed_cycles:
                # like an API fault: a cycle of this object ended in an exception (a result that cannot be delivered or sent,
                # a refused patch); the handlers still to run wait for the next event of the object, which nothing promises
                ctx.count("first_clause", "not-judged: a cycle of the object failed (undeliverable result / lost patch)")
                continue
            for hid, h in resume_ids.items():
                if h.get("resource", "kopfexamples") != uid_plural.get(uid):
                    continue    # a handler of another kind
                opts = h.get("opts") or {}
                want_labels = opts.get("labels") or {}
                def matches(body: dict) -> bool:
                    meta = body.get("metadata") or {}
                    return (OWN + "last-handled-configuration" in (meta.get("annotations") or {})
                            and all((meta.get("labels") or {}).get(k) == v for k, v in want_labels.items()))
                if not all(matches(b) for b in window):
                    continue
                if marked0:
                    if not (held0 and opts.get("deleted")):
                        continue
                    klass = "being-deleted-opted-in"
                else:
                    if gone or any((b.get("metadata") or {}).get("deletionTimestamp") for b in window):
                        continue
                    klass = "eligible"
                script = h.get("script") or []
                if any((a[0] if isinstance(a, list) else a) == "sleep" for a in script):
                    continue
                ctx.count("first_clause", klass)
                if (inc, uid, hid) not in called:
                    fc = first_cycle.get((inc, uid))
                    admitted = [m for m in tr["marks"] if m["what"] == "admit" and m.get("uid") == uid and m.get("inc") == inc
                                and (fc is None or m["t"] <= fc["t0"])]
                    sig = (F10_SIG if admitted else
                           {"site": "process_resource_event", "shape": "eligible object never resumed"} if klass == "eligible" else
                           {"site": "process_resource_event", "shape": "object being deleted never resumed by an opted-in handler"})
                    ctx.oracle_fail(f"resume handler {hid} was never invoked for object {uid}, which existed at the start of incarnation {inc} "
                                    f"(t={t_start}), was handled before, carries no progress and matches ({klass}); the first event processed "
                                    f"for it: {None if fc is None else [fc['t0'], fc['event_type'], (fc.get('cause') or {}).get('reason')]}",
                                    {"scenario": sc, "inc": inc, "uid": uid, "first_cycle": None if fc is None else fc["i"]}, sig)
    # resume handlers never for objects that did not exist when the incarnation started (by the cluster's history) …
    inc_start = {i["inc"]: i["t"] for i in tr.get("incarnations", [])}
    created = {uid: vs[0]["t"] for uid, vs in versions.items()}
    # … nor for objects the operator itself first saw through a watch event
    first_seen: dict[tuple, Any] = {}
    for cyc in tr["cycles"]:
        first_seen.setdefault((cyc["inc"], cyc["uid"]), cyc["event_type"])
    for c in tr["calls"]:
        if c["id"] not in resume_ids:
            continue
        if c["uid"] in created and c["inc"] in inc_start and created[c["uid"]] > inc_start[c["inc"]]:
            ctx.oracle_fail(f"resume handler {c['id']} invoked for an object created after the incarnation started",
                            {"scenario": sc, "call": c}, {"site": "inventory.recall", "shape": "resume for a new object"})
        elif first_seen.get((c["inc"], c["uid"]), None) is not None:
            ctx.oracle_fail(f"resume handler {c['id']} invoked for an object first seen through a watch event",
                            {"scenario": sc, "call": c}, {"site": "inventory.recall", "shape": "resume for a new object"})


def run(ctx: Ctx) -> None:
    n = ctx.budget(120, 3000)
    scenarios = [d.get("scenario", d) for _, d in load_corpus(ID)]
    for sc in scenarios:
        sc.setdefault("gen", "corpus")

    def gen(fn: Any, base: int, count: int) -> None:
        for i in range(count):
            sc = fn(ctx.rng, base + ctx.seed * 100000 + i)
            sc["gen"] = fn.__name__
            scenarios.append(sc)

    gen(gen_scenario, 0, n)
    gen(gen_relist_midcycle, 70_000_000, max(12, n // 4))
    gen(gen_stale_view, 80_000_000, max(8, n // 8))
    gen(gen_down_ops, 81_000_000, max(40, n // 4))
    gen(gen_allfiltered, 82_000_000, max(16, n // 8))
    gen(gen_shapes, 83_000_000, max(42, n // 4))
    gen(gen_admission, 84_000_000, max(30, n // 8))
    gen(gen_stacked_siblings, 85_000_000, max(20, n // 12))
    gen(gen_results, 86_000_000, max(48, n // 4))
    gen(gen_crowd, 87_000_000, max(48, n // 4))
    for sc in scenarios:
        ctx.count("generator", sc["gen"])
    results = pool.run_many(scenarios, wall=40.0)
    reqs, impls, where = [], [], []
    threads: list[tuple[list, list, dict]] = []
    for sc, res in zip(scenarios, results):
        if "trace" not in res:
            raise RuntimeError(f"simulation failed: {str(res)[:2000]}")
        tr = res["trace"]
        if tr.get("sim_error"):
            raise RuntimeError(f"simulation error: {tr['sim_error']}")
        ctx.traces += 1
        oracle(ctx, sc, tr)
        threads += container_entries(ctx, sc, tr)
        decls = _decls(sc)
        resume_ids = {d["id"] for d in decls if d["gate"]["initial"]}
        lifecycle = sc.get("lifecycle") or "asap"
        # every served admission request: the object's memory right before → right after, through the model's `admission`
        for mk in tr["marks"]:
            if mk["what"] != "admit":
                continue
            if mk.get("error") or not mk.get("mem_seen") or "error" in (mk.get("mem_before") or {}) or "error" in (mk.get("mem_after") or {}):
                ctx.count("admit", "not-compared:" + str(mk.get("error") or "memory not seen")[:60])
                continue
            mem0, mem1 = _mem(mk.get("mem_before")), _mem(mk.get("mem_after"))
            ctx.case(key={"admit": mk["operation"], "mem": mem0}, nontrivial=mem0 is None or mem0["noticed"] is None)
            ctx.count("admit", f"{mk['operation']}/{'unknown object' if mem0 is None else 'noticed=' + json.dumps(mem0['noticed'])}")
            reqs.append(["C14.admission", {"mem": mem0, "create": mk["operation"] == "CREATE"}])
            impls.append({"mem": mem1})
            where.append({"scenario": sc, "admit": {k: mk.get(k) for k in ("t", "uid", "operation", "inc")}})
        for cyc in tr["cycles"]:
            if cyc.get("error") or cyc.get("cause") is None or cyc["mem_before"] is None and False:
                continue
            p = cyc.get("pcc")
            cause = cyc["cause"]
            meta = cyc["body"].get("metadata", {})
            marked = bool(meta.get("deletionTimestamp"))
            blocked = "kopf.zalando.org/KopfFinalizerMarker" in (meta.get("finalizers") or [])
            mb = cyc["mem_before"]
            flags = [cyc["event_type"] is None, cyc["event_type"] == "DELETED", marked, blocked,
                     bool(cause["old_absent"]), bool(cause["diff"]), p is None]
            # the results returned by the handlers invoked in this pass (None included), as the scripted handlers measured them
            shapes = []
            for inv in cyc["invoked"]:
                c = tr["calls"][inv["call"]] if isinstance(inv.get("call"), int) and inv["call"] < len(tr["calls"]) else {}
                if c.get("outcome") == "ok" and "/" not in str(inv["id"]):
                    sh = c.get("result_shape") or {"none": True, "mapping": False, "copyable": True, "json_raw": True, "json_patch": True}
                    shapes.append([bool(sh[k]) for k in ("none", "mapping", "copyable", "json_raw", "json_patch")])
                    ctx.count("result", ("none" if sh["none"] else sh.get("type", "?") + ("/mapping" if sh["mapping"] else "") +
                                         ("" if sh["copyable"] else "/uncopyable") + ("" if sh["json_raw"] else "/not-json")))
            # a pass that an exception left AFTER the handlers were executed (`outcomes` seen): compared through `C14.stepR`
            # with nothing but the memory, the cause, the selection and the invocations (no patch was composed to look at)
            cut = bool(cyc.get("pcc_raised")) and p is not None and p.get("outcomes") is not None
            if cyc.get("pcc_raised"):
                ctx.count("cycle_cut", f"process_changing_cause raised {cyc['pcc_raised']}" + ("" if cut else " before the handlers returned"))
            if cyc.get("apply_raised"):
                ctx.count("cycle_cut", f"application.apply raised {cyc['apply_raised']}")
            if p is not None and not cut and ("P_after" not in p or "error" in p["P_after"]):
                continue
            owned = [d["id"] for d in decls]
            if sc.get("kinds"):
                # several kinds in one registry: the handlers of THIS object's kind (the code's own `get_resource_handlers`
                # when the pass was entered; by the declared resource otherwise)
                plural = PLURAL_OF_KIND.get(cyc["body"].get("kind"), "kopfexamples")
                ctx.count("cycle_of_kind", plural)
                mine = {h["id"] for h in sc["handlers"] if h.get("resource", "kopfexamples") == plural}
                owned = [d["id"] for d in p["decls"]] if p else [d["id"] for d in decls if d["id"] in mine]
            req = ["C14.step", {
                "decls": p["decls"] if p else [d for d in decls if d["id"] in owned],
                "mem": _mem(mb, sort=False),
                "flags": flags, "matched": p["matched"] if p else [], "lifecycle": lifecycle,
                "limits": p["limits"] if p else {}, "P": p["P"] if p else {},
                "outcomes": {k: {f: v[f] for f in ("final", "delay", "error", "subrefs")} for k, v in ((p or {}).get("outcomes") or {}).items()},
                "now": p["now"] if p else 0, "now1": (p["now1"] if p and p["now1"] is not None else (p["now"] if p else 0)),
                "universe": owned}]
            ma = cyc["mem_after"]
            impl = {"mem": _mem(ma),
                    "reason": cause["reason"],
                    "selected": p["selected"] if p else None,
                    "invoked": [[i["id"], i["retry"]] for i in cyc["invoked"] if i["id"] in owned],
                    "P": {k: v for k, v in p["P_after"].items() if k in owned} if p and not cut else None}
            if cut or any(not sh[0] for sh in shapes) or cyc.get("apply_raised"):
                req = ["C14.stepR", {**req[1], "results": shapes, "patchLost": bool(cyc.get("apply_raised"))}]
                if not flags[1]:     # (no patch is sent for a DELETED event)
                    impl["cut"] = "at-delivery" if cut else "patch-lost" if cyc.get("apply_raised") else "through"
            sel_res = sorted(set(impl["selected"] or []) & resume_ids)
            shape = {"mem": req[1]["mem"], "flags": flags, "reason": cause["reason"], "sel_resume": len(sel_res),
                     "out": sorted((o["final"], o["error"]) for o in req[1]["outcomes"].values())}
            if mb is not None and mb["noticed_by_listing"] is None:
                ctx.count("undecided_memory_decided_by", "listing" if flags[0] else str(cyc["event_type"]))
            ctx.case(key=shape, nontrivial=bool(sel_res) or bool(mb and mb["noticed_by_listing"]),
                     sample={"seed": sc["seed"], "cycle": cyc["i"], "request": req[1], "impl": impl} if sel_res else None)
            ctx.count("reason", cause["reason"])
            if p:   # how often the whole pass differs from the pass over all records: a namesake's record left out (f7d6401)
                left = [d["id"] for d in p["decls"] if d["id"] in p["selected"] and d["gate"].get("reason") == cause["reason"]
                        and (p["P"].get(d["id"]) or {}).get("purpose") not in (None, cause["reason"])]
                if left:
                    ctx.count("namesake_record_left_out", cause["reason"])
            ctx.count("memory", json.dumps(req[1]["mem"]))
            ctx.count("resume_selected", len(sel_res))
            reqs.append(req)
            impls.append(impl)
            where.append({"scenario": sc, "cycle": cyc["i"]})
    try:
        outs = ctx.driver.ask(reqs + [t[0] for t in threads])
    except leanio.LeanError as e:
        ctx.tie_fail(f"Lean driver failed: {e}", {"log": e.log})
        return
    # the container: what the model's `Memories` finds under the object's key before each entry = what the real one found
    for (req, found, wh), out in zip(threads, outs[len(reqs):]):
        if not out or out[0] != "ok" or len(out[1]) != len(found):
            ctx.tie_fail("driver rejected an incarnation's container history", {"request": req, "answer": out, **wh})
            continue
        for n, (ans, real) in enumerate(zip(out[1], found)):
            m = ans["mem"]
            if m is not None:
                m["resumed"] = sorted(set(m["resumed"]))
            if m != real:
                ctx.compare("C14 memories container (the memory found for an object is the one its last event left)",
                            {"mem": real}, {"mem": m}, {**wh, "entry": n, "key": ans["key"]})
                break
        else:
            ctx.compare("C14 memories container (the memory found for an object is the one its last event left)", True, True, wh)
    for req, impl, out, wh in zip(reqs, impls, outs[:len(reqs)], where):
        if not out or out[0] != "ok":
            ctx.tie_fail("driver rejected a cycle", {"request": req, "answer": out, **wh})
            continue
        m = out[1]
        if req[0] == "C14.stepR":
            m = m["step"]
        if m["mem"] is not None:
            m["mem"]["resumed"] = sorted(set(m["mem"]["resumed"]))
        if req[0] == "C14.admission":
            ctx.compare("C14 admission request", impl, {"mem": m["mem"]}, wh)
            continue
        if m["reason"] not in ("create", "update", "delete", "resume") and impl["reason"] == m["reason"]:
            # the code selects no handlers at all for an informational cause (free/gone/noop): what `get_handlers` WOULD
            # give (asked by the observer, computed by the model's gate) is not a behaviour of the code
            impl = {**impl, "selected": None if impl["selected"] is None else []}
            m = {**m, "selected": []}
        if req[0] == "C14.stepR" and (req[1]["patchLost"] or out[1]["wireRaises"]):
            impl = {**impl, "P": None}       # the patch never arrived: what it would have written is not the object's state
        model = {"mem": m["mem"], "reason": m["reason"],
                 "selected": m["selected"] if impl["selected"] is not None else None,
                 "invoked": m["invoked"], "P": m["P"] if impl["P"] is not None else None}
        if "cut" in impl:
            model["cut"] = ("at-delivery" if out[1]["deliveryRaises"] and m["invoked"] else
                            "patch-lost" if req[1]["patchLost"] or out[1]["wireRaises"] else "through")
        ctx.compare("C14 processing cycle", impl, model, wh)


ALL_GENS = [(gen_scenario, 8), (gen_relist_midcycle, 2), (gen_stale_view, 1), (gen_down_ops, 3), (gen_allfiltered, 2),
            (gen_shapes, 3), (gen_admission, 3), (gen_stacked_siblings, 1), (gen_results, 4), (gen_crowd, 4)]


def search(ctx: Ctx, broken: list) -> None:
    n = ctx.budget(1000, 6000)
    scenarios = [d.get("scenario", d) for _, d in load_corpus(ID)]
    total = sum(w for _, w in ALL_GENS)
    for k, (fn, w) in enumerate(ALL_GENS):
        for i in range(max(4, n * w // total)):
            sc = fn(ctx.rng, 9_000_000 + k * 1_000_000 + ctx.seed * 100000 + i)
            sc["gen"] = fn.__name__
            scenarios.append(sc)
    for b in broken[:10]:
        sc = (b.replay or {}).get("input", {}).get("scenario") if isinstance(b.replay, dict) else None
        if sc:
            scenarios.insert(0, sc)
    for sc, res in zip(scenarios, pool.run_many(scenarios, wall=40.0)):
        if "trace" in res:
            oracle(ctx, sc, res["trace"])


def replay(ctx: Ctx, data: dict) -> None:
    rep = data.get("replay", data)
    sc = rep.get("scenario") or rep.get("input", {}).get("scenario")
    res = pool.run_many([sc], wall=40.0)[0]
    if "trace" in res:
        oracle(ctx, sc, res["trace"])
