"""C14 — resume handlers run once per object per operator process.

Model: lean/Kopf/Model/C14_Resume.lean = operator memory flags + C05 cause detection + gate + C02 cycle.
Tie (S): every processing cycle of closed-loop simulations (restarts, re-listings after 410, reconnects,
edits before/during/after the resume cycle, label flip-flops) is replayed through `C14.step`.
"""
from __future__ import annotations

import json
from typing import Any

from .. import leanio
from ..core import Ctx, load_corpus
from ..sim import pool
from . import c02

ID = "C14"
LEVEL = "proof"
STRENGTH = "partial"
ENGINES = ["lean-model", "kopfsim"]
TIE = "S: step refinement — each real processing cycle replayed through the Lean `C14.step` (memory flags, cause, gate, pass)"
LEVEL_TEXT = ("Lean theorems over all event histories of one object in one process: resume_invoked_only_initial (never for a creation, "
              "never on an object being deleted without opt-in), not_for_new, after_fully_handled_never (re-listings/reconnects/later "
              "changes never repeat anything once the object is fully handled), and the at-most-once clause UNGUARDED: "
              "completed_never_again — after the step in which a resume handler reached a final outcome it is never invoked again "
              "in this process, for every continuation and for EVERY view of the stored progress each later event carries (stale "
              "bodies, lost patches, purged records), via the in-memory `resumed_handlers` of /repo 6c4463d (the repaired finding "
              "F9 and the stale-view re-run are regression theorems). First clause: eligible_selected (any lifecycle) and "
              "eligible_invoked (first attempt, all-at-once, unchanged object); completion over several passes is C03's subject. "
              "Model tied to the code per cycle (memory incl. resumed_handlers, cause, selection, invocations, records).")
THEOREMS = [("Kopf.Props.C14", "Kopf.C14." + n) for n in [
    "resume_invoked_only_initial", "not_for_new", "after_fully_handled_never",
    "resumed_not_selected", "completed_never_again", "completed_never_again_run",
    "eligible_selected", "eligible_invoked", "suppressed_keeps_initial", "flipflop_regression", "stale_view_regression"]]
RULE = ("seeded scenarios: objects handled by a first incarnation, then stop/kill + restart; 1-3 resume handlers (label filters, "
        "deleted opt-in, failures/retries) next to create/update/delete handlers; re-listings (history compaction + 410), "
        "stream reconnects, edits and label flip-flops before/during/after the resume cycle, deletions; one case = one processing "
        "cycle; distinct & non-trivial = distinct (memory flags, reason, selected kinds, outcome shape) with a resume handler selected or gated out")
TRUSTED = c02.TRUSTED
ASSUMPTIONS = ["filters (`registries.match`) enter the model as the observed per-handler match result (C15's subject)",
               "`eligible_invoked` (first attempt in the first non-suppressed cycle; unchanged objects and objects edited while the "
               "operator was down alike) is proved for the all-at-once lifecycle; `suppressed_keeps_initial` carries it over a "
               "suppressed first cycle; for one-by-one/asap only selection (`eligible_selected` / `matching_selected`) is proved; "
               "the oracle's positive clause (every eligible object gets every matching resume handler invoked in the incarnation) "
               "covers all lifecycles on the generated histories; eventual completion is C03's subject",
               "handler ids are unique among the resuming handlers (`hres`: every registration under the id is a resuming one); "
               "a function stacked as @on.resume + @on.update under ONE id is outside the theorems (not generated either)",
               "one operator process = one memory: a restart is a fresh `run … none`; nothing is claimed across processes "
               "(the property allows one run per process)"]

F9_SIG = {"site": "process_changing_cause", "shape": "completed resume handler re-run after its finished record was purged in an open cycle in which the handler was not selected"}


def gen_scenario(rng: Any, i: int) -> dict:
    handlers: list[dict] = []
    nres = rng.choice([1, 2, 2, 3])
    for k in range(nres):
        opts: dict[str, Any] = {}
        if rng.random() < 0.4:
            opts["labels"] = {"l": "1"}
        if rng.random() < 0.4:
            opts["deleted"] = True
        if rng.random() < 0.3:
            opts["backoff"] = rng.choice([1.0, 2.0])
        script = []
        for _ in range(rng.choice([0, 0, 1, 2])):
            a = rng.choice(["temp", "temp", "arb", "perm"])
            script.append(["temp", rng.choice([1.0, 3.0, 6.0])] if a == "temp" else a)
        handlers.append({"kind": "resume", "id": f"r{k}", "opts": opts, "script": script, "default": "ok"})
    if rng.random() < 0.8:
        handlers.append({"kind": "create", "id": "c0", "script": [rng.choice(["ok", ["temp", 1.0]])]})
    if rng.random() < 0.7:
        handlers.append({"kind": "update", "id": "u0", "script": [rng.choice(["ok", "ok", ["temp", 2.0]])]})
    if rng.random() < 0.4:
        handlers.append({"kind": "delete", "id": "d0", "opts": {"optional": rng.random() < 0.5}})
    rng.shuffle(handlers)
    tl: list[list] = []
    nobj = rng.choice([1, 2])
    for o in range(nobj):
        tl.append([1.0 + o, "create", f"o{o}", {"spec": {"x": 0}, "metadata": {"labels": {"l": rng.choice(["0", "1", "1"])}}}])
    t = 8.0
    tl.append([t, rng.choice(["stop", "kill"])])
    t += rng.choice([1.0, 2.0])
    if rng.random() < 0.4:   # edited while the operator is down
        tl.append([t - 0.5, "edit", "o0", {"spec": {"x": 7}}])
    tl.append([t, "start"])
    for _ in range(rng.choice([1, 2, 3, 4, 5])):
        t += rng.choice([0.015625, 0.25, 1.0, 2.0, 4.0])
        op = rng.choice(["edit_spec", "flip", "flip", "relist", "reconnect", "delete", "edit_spec", "restart"])
        name = f"o{rng.randrange(nobj)}"
        if op == "edit_spec":
            tl.append([t, "edit", name, {"spec": {"x": rng.randrange(1, 5)}}])
        elif op == "flip":
            tl.append([t, "edit", name, {"metadata": {"labels": {"l": rng.choice(["0", "1"])}}}])
        elif op == "relist":
            tl.append([t, "compact"])
            tl.append([t, "break", "410"])
        elif op == "reconnect":
            tl.append([t, "break", rng.choice(["eof", "conn"])])
        elif op == "delete":
            tl.append([t, "delete", name])
        else:
            tl.append([t, rng.choice(["stop", "kill"])])
            t += 1.0
            tl.append([t, "start"])
    return {"seed": i, "lifecycle": rng.choice(["asap", "one_by_one", "all_at_once"]), "handlers": handlers,
            "timeline": tl, "settings": {"execution.default_backoff": 1.0, "watching.reconnect_backoff": 0.125},
            "end": t + 25.0}


def gen_relist_midcycle(rng: Any, i: int) -> dict:
    """A re-listing (410 Gone) or reconnect made WHILE a resume handler of a multi-cycle resume is running:
    the re-listed view is older than the progress patch that follows and is processed after it."""
    nres = rng.choice([2, 2, 3])
    handlers: list[dict] = []
    for k in range(nres):
        script: list = []
        if k == 0 or rng.random() < 0.5:
            script.append(["sleep", rng.choice([0.5, 1.0, 2.0]), "ok"])
        elif rng.random() < 0.3:
            script.append(["temp", rng.choice([1.0, 3.0])])
        handlers.append({"kind": "resume", "id": f"r{k}", "opts": {}, "script": script, "default": "ok"})
    if rng.random() < 0.5:
        handlers.append({"kind": "update", "id": "u0", "script": ["ok"]})
    tl: list[list] = [[1.0, "create", "o0", {"spec": {"x": 0}, "metadata": {"labels": {"l": "1"}}}],
                      [8.0, rng.choice(["stop", "kill"])], [9.0, "start"]]
    t = 9.0
    for _ in range(rng.choice([1, 1, 2, 3])):
        t += rng.choice([0.125, 0.25, 0.5, 0.75, 1.0])
        op = rng.choice(["relist", "relist", "reconnect", "edit"])
        if op == "relist":
            tl += [[t, "compact"], [t, "break", "410"]]
        elif op == "reconnect":
            tl.append([t, "break", rng.choice(["eof", "conn"])])
        else:
            tl.append([t, "edit", "o0", {"spec": {"x": rng.randrange(1, 5)}}])
    return {"seed": i, "lifecycle": rng.choice(["asap", "one_by_one", "one_by_one", "all_at_once"]), "handlers": handlers,
            "timeline": tl, "settings": {"execution.default_backoff": 1.0, "watching.reconnect_backoff": 0.125},
            "end": t + 25.0}


def gen_stale_view(rng: Any, i: int) -> dict:
    """A body older than the just-written progress is processed after the consistency timeout: a foreign edit
    lands while a resume handler runs, and the echo of the operator's own patch is late (slow watch, or the
    API unreachable for a while); a sibling keeps the cycle open."""
    handlers = [
        {"kind": "resume", "id": "r1", "script": [["sleep", rng.choice([0.5, 1.5, 2.5]), rng.choice(["ok", "ok", "perm"])]]},
        {"kind": "resume", "id": "r2", "script": [["temp", rng.choice([8, 12, 20])], "ok"]}]
    if rng.random() < 0.4:
        handlers.append({"kind": "update", "id": "u0", "script": ["ok"]})
    essence = {"spec": {"x": 1}, "metadata": {"labels": {"l": "1"}}}
    obj = {"name": "a", "body": {"spec": {"x": 1}, "metadata": {"labels": {"l": "1"}, "annotations": {
        "kopf.zalando.org/last-handled-configuration": json.dumps(essence, separators=(",", ":")) + "\n"}}}}
    t = rng.choice([0.25, 0.5, 1.0])
    edit = rng.choice([{"metadata": {"annotations": {"foo": "bar"}}}, {"spec": {"x": 2}}, {"status": {"s": 1}}])
    sc: dict[str, Any] = {"seed": i, "lifecycle": rng.choice(["all_at_once", "asap", "one_by_one"]), "handlers": handlers,
                          "objects": [obj], "timeline": [[t, "edit", "a", edit]], "end": 45}
    if rng.random() < 0.5:
        sc["echo_delay"] = {"default": 0, "rules": [[3, None, rng.choice([5.5, 6.0, 9.0])]]}
    else:
        sc["timeline"].append([t + 0.25, "break", "conn"])
        sc["faults"] = [{"match": {"method": "GET", "watch": True, "path_contains": "kopfexamples", "after": t + 0.2},
                         "fault": ["conn-before"], "times": rng.choice([5, 7, 9])}]
    return sc


def _decls(sc: dict) -> list[dict]:
    out = []
    for h in sc["handlers"]:
        k = h["kind"]
        if k in ("create", "update", "delete"):
            out.append({"id": h["id"], "gate": {"reason": k, "initial": False, "deleted": False}})
        elif k == "resume":
            out.append({"id": h["id"], "gate": {"reason": None, "initial": True, "deleted": bool(h.get("opts", {}).get("deleted"))}})
        elif k == "field":
            out.append({"id": h["id"], "gate": {"reason": None, "initial": False, "deleted": False}})
    return out


def oracle(ctx: Ctx, sc: dict, tr: dict) -> None:
    resume_ids = {h["id"]: h for h in sc["handlers"] if h["kind"] == "resume"}
    # completions per (incarnation, uid, resume handler)
    done: dict[tuple, list[dict]] = {}
    for c in tr["calls"]:
        if c["id"] in resume_ids and c.get("outcome") in ("ok", "perm"):
            done.setdefault((c["inc"], c["uid"], c["id"]), []).append(c)
        if c["id"] in resume_ids and c.get("marked") and not resume_ids[c["id"]].get("opts", {}).get("deleted"):
            ctx.oracle_fail(f"resume handler {c['id']} invoked on an object being deleted without opting in",
                            {"scenario": sc, "call": c}, {"site": "ChangingRegistry.iter_handlers", "shape": "resume on deleted without opt-in"})
    for key, calls in done.items():
        if len(calls) <= 1:
            continue
        inc, uid, hid = key
        t0, t1 = calls[0]["t"], calls[1]["t"]
        # classify: was the finished record dropped in an open cycle in between (the known F9 shape)?
        dropped = False
        dropped_while_selected = False
        for cyc in tr["cycles"]:
            p = cyc.get("pcc")
            if not p or cyc["inc"] != inc or cyc["uid"] != uid or not (t0 <= cyc["t0"] <= t1) or "P_after" not in p:
                continue
            before = p["P"].get(hid)
            if before and (before["success"] or before["failure"]) and p["P_after"].get(hid) is None \
                    and not p.get("memory_fully_handled_once"):
                if hid in p["selected"]:
                    dropped_while_selected = True
                else:
                    dropped = True
        sig = (F9_SIG if dropped and not dropped_while_selected else
               {"site": "process_changing_cause", "shape": "finished record of a still-selected resume handler lost in an open cycle"}
               if dropped_while_selected else
               {"site": "process_changing_cause", "shape": "resume handler completed twice in one process"})
        ctx.oracle_fail(f"resume handler {hid} ran to completion {len(calls)} times for object {uid} in incarnation {inc}",
                        {"scenario": sc, "calls": calls[:3]}, sig)
    # FIRST CLAUSE (positive): an object that exists when the operator starts (first seen in the listing), was
    # handled before (last-handled state stored), carries no progress records, is not being deleted and matches the
    # handler — and stays so for as long as this incarnation lives, which is long enough (≥ 10 s) — gets each such
    # resume handler invoked at least once in this incarnation.
    OWN = "kopf.zalando.org/"
    inc_start = {m["inc"]: m["t"] for m in tr["marks"] if m["what"] == "start"}
    inc_end = {m["inc"]: m["t"] for m in tr["marks"] if m["what"] in ("stopped", "killed")}
    t_end = max([m["t"] for m in tr["marks"] if m["what"] == "end"] or [0])
    called = {(c["inc"], c["uid"], c["id"]) for c in tr["calls"] if c["id"] in resume_ids}
    by_obj: dict[tuple, list[dict]] = {}
    for cyc in tr["cycles"]:
        by_obj.setdefault((cyc["inc"], cyc["uid"]), []).append(cyc)
    for (inc, uid), cycs in by_obj.items():
        first = cycs[0]
        if first["event_type"] is not None or inc not in inc_start:
            continue
        if inc_end.get(inc, t_end) - first["t0"] < 10.0 or sc.get("faults") or sc.get("echo_delay"):
            continue
        for hid, h in resume_ids.items():
            want_labels = (h.get("opts") or {}).get("labels") or {}
            def eligible(body: dict) -> bool:
                meta = body.get("metadata") or {}
                ann = meta.get("annotations") or {}
                return (not meta.get("deletionTimestamp") and OWN + "last-handled-configuration" in ann
                        and all((meta.get("labels") or {}).get(k) == v for k, v in want_labels.items()))
            ann0 = (first["body"].get("metadata") or {}).get("annotations") or {}
            has_progress = any(k.startswith(OWN) and k[len(OWN):] not in ("last-handled-configuration", "touch-dummy", "kopf-managed")
                               for k in ann0)
            if has_progress or not all(eligible(c["body"]) for c in cycs) or any(c["event_type"] == "DELETED" for c in cycs):
                continue
            script = h.get("script") or []
            if any((a[0] if isinstance(a, list) else a) == "sleep" for a in script):
                continue
            ctx.count("first_clause", "eligible")
            if (inc, uid, hid) not in called:
                ctx.oracle_fail(f"resume handler {hid} was never invoked for object {uid}, which existed at the start of incarnation {inc}, "
                                "was handled before, carries no progress, is not being deleted and matches",
                                {"scenario": sc, "inc": inc, "uid": uid, "first_cycle": first["i"]},
                                {"site": "process_resource_event", "shape": "eligible object never resumed"})
    # resume handlers never for objects first seen via a watch event (created while running)
    first_seen: dict[tuple, Any] = {}
    for cyc in tr["cycles"]:
        first_seen.setdefault((cyc["inc"], cyc["uid"]), cyc["event_type"])
    for c in tr["calls"]:
        if c["id"] in resume_ids and first_seen.get((c["inc"], c["uid"]), None) is not None:
            ctx.oracle_fail(f"resume handler {c['id']} invoked for an object first seen through a watch event",
                            {"scenario": sc, "call": c}, {"site": "inventory.recall", "shape": "resume for a new object"})


def run(ctx: Ctx) -> None:
    n = ctx.budget(120, 3000)
    scenarios = [d.get("scenario", d) for _, d in load_corpus(ID)]
    scenarios += [gen_scenario(ctx.rng, ctx.seed * 100000 + i) for i in range(n)]
    scenarios += [gen_relist_midcycle(ctx.rng, 70_000_000 + ctx.seed * 100000 + i) for i in range(max(12, n // 4))]
    scenarios += [gen_stale_view(ctx.rng, 80_000_000 + ctx.seed * 100000 + i) for i in range(max(8, n // 8))]
    results = pool.run_many(scenarios, wall=40.0)
    reqs, impls, where = [], [], []
    for sc, res in zip(scenarios, results):
        if "trace" not in res:
            raise RuntimeError(f"simulation failed: {str(res)[:2000]}")
        tr = res["trace"]
        if tr.get("sim_error"):
            raise RuntimeError(f"simulation error: {tr['sim_error']}")
        ctx.traces += 1
        oracle(ctx, sc, tr)
        decls = _decls(sc)
        resume_ids = {d["id"] for d in decls if d["gate"]["initial"]}
        lifecycle = sc.get("lifecycle") or "asap"
        for cyc in tr["cycles"]:
            if cyc.get("error") or cyc.get("cause") is None or cyc["mem_before"] is None and False:
                continue
            p = cyc.get("pcc")
            cause = cyc["cause"]
            meta = cyc["body"].get("metadata", {})
            marked = bool(meta.get("deletionTimestamp"))
            blocked = "kopf.zalando.org/KopfFinalizerMarker" in (meta.get("finalizers") or [])
            mb = cyc["mem_before"]
            flags = [cyc["event_type"] is None, cyc["event_type"] == "DELETED", marked, blocked,
                     bool(cause["old_absent"]), bool(cause["diff"]), p is None]
            if p is not None and ("P_after" not in p or "error" in p["P_after"]):
                continue
            owned = [d["id"] for d in decls]
            req = ["C14.step", {
                "decls": p["decls"] if p else decls,
                "mem": None if mb is None else {"noticed": mb["noticed_by_listing"], "fullyHandled": mb["fully_handled_once"],
                                                "resumed": mb.get("resumed_handlers", [])},
                "flags": flags, "matched": p["matched"] if p else [], "lifecycle": lifecycle,
                "limits": p["limits"] if p else {}, "P": p["P"] if p else {},
                "outcomes": {k: {f: v[f] for f in ("final", "delay", "error", "subrefs")} for k, v in ((p or {}).get("outcomes") or {}).items()},
                "now": p["now"] if p else 0, "now1": (p["now1"] if p and p["now1"] is not None else (p["now"] if p else 0)),
                "universe": owned}]
            ma = cyc["mem_after"]
            impl = {"mem": None if ma is None else {"noticed": ma["noticed_by_listing"], "fullyHandled": ma["fully_handled_once"],
                                                    "resumed": sorted(ma.get("resumed_handlers", []))},
                    "reason": cause["reason"],
                    "selected": p["selected"] if p else None,
                    "invoked": [[i["id"], i["retry"]] for i in cyc["invoked"] if i["id"] in owned],
                    "P": {k: v for k, v in p["P_after"].items() if k in owned} if p else None}
            sel_res = sorted(set(impl["selected"] or []) & resume_ids)
            shape = {"mem": req[1]["mem"], "flags": flags, "reason": cause["reason"], "sel_resume": len(sel_res),
                     "out": sorted((o["final"], o["error"]) for o in req[1]["outcomes"].values())}
            ctx.case(key=shape, nontrivial=bool(sel_res) or bool(mb and mb["noticed_by_listing"]),
                     sample={"seed": sc["seed"], "cycle": cyc["i"], "request": req[1], "impl": impl} if sel_res else None)
            ctx.count("reason", cause["reason"])
            ctx.count("memory", json.dumps(req[1]["mem"]))
            ctx.count("resume_selected", len(sel_res))
            reqs.append(req)
            impls.append(impl)
            where.append({"scenario": sc, "cycle": cyc["i"]})
    try:
        outs = ctx.driver.ask(reqs)
    except leanio.LeanError as e:
        ctx.tie_fail(f"Lean driver failed: {e}", {"log": e.log})
        return
    for req, impl, out, wh in zip(reqs, impls, outs, where):
        if not out or out[0] != "ok":
            ctx.tie_fail("driver rejected a cycle", {"request": req, "answer": out, **wh})
            continue
        m = out[1]
        if m["mem"] is not None:
            m["mem"]["resumed"] = sorted(set(m["mem"]["resumed"]))
        model = {"mem": m["mem"], "reason": m["reason"],
                 "selected": m["selected"] if impl["selected"] is not None else None,
                 "invoked": m["invoked"], "P": m["P"] if impl["P"] is not None else None}
        ctx.compare("C14 processing cycle", impl, model, wh)


def search(ctx: Ctx, broken: list) -> None:
    n = ctx.budget(1000, 6000)
    scenarios = [gen_scenario(ctx.rng, 9_000_000 + ctx.seed * 100000 + i) for i in range(n)]
    for b in broken[:10]:
        sc = (b.replay or {}).get("input", {}).get("scenario") if isinstance(b.replay, dict) else None
        if sc:
            scenarios.insert(0, sc)
    for sc, res in zip(scenarios, pool.run_many(scenarios, wall=40.0)):
        if "trace" in res:
            oracle(ctx, sc, res["trace"])


def replay(ctx: Ctx, data: dict) -> None:
    rep = data.get("replay", data)
    sc = rep.get("scenario") or rep.get("input", {}).get("scenario")
    res = pool.run_many([sc], wall=40.0)[0]
    if "trace" in res:
        oracle(ctx, sc, res["trace"])
