"""C19 — simulation half: the REAL kopf code against the fake API under virtual time.

Three runners, all returning JSON-able observation records (no Lean, no verdicts here):

* `run_stream(sc)`   — the real `watching.infinite_watch` (→ `streaming_block`, `continuous_watch`,
                       `watch_objs`, `api.stream`, `api.request`, `fetching.list_objs`) consumed by a
                       recording consumer, with a foreign actor, stream faults, request faults, compaction,
                       HTTP-410 mode and a pause toggle on a timeline.
* `run_adjust(h)`    — the real `orchestration.adjust_tasks` with a stub `queueing.watcher` over a history
                       of insights.
* `run_operator(sc)` — the whole real operator while namespaces / CRDs come and go at runtime.

Nothing in /repo is edited. Observation is by attribute patching, restored afterwards:
`api.request` (one logical request = one call; its retries are visible in the fake's request log),
`watching.asyncio` (a proxy whose `sleep` logs the end of the reconnect backoff),
`fakeapi.FakeContent.iter_chunked` (every line handed to the client and how the response ended),
and an `aiotoggles.ToggleSet` subclass as `operator_paused` (when the two waiters return).
All records go into ONE list in real execution order: that order is what the model is fed.
"""
from __future__ import annotations

import asyncio
import contextlib
import json
from typing import Any

import aiohttp

from ..sim import fakeapi, runner, simloop

KEX = fakeapi.KEX
CTHING = fakeapi.ResourceDef("kopf.dev", "v1", "clusterthings", "ClusterThing", namespaced=False)
WIDGET = fakeapi.ResourceDef("example.org", "v1", "widgets", "Widget", namespaced=True)
RES_BY_NAME = {"kopfexamples": KEX, "clusterthings": CTHING, "widgets": WIDGET,
               # the meta resources: only for `break` / `compact` of the observers' own watch-streams
               "namespaces": fakeapi.NAMESPACES, "customresourcedefinitions": fakeapi.CRDS}


# in-stream ERROR events other than 410 "Expired": what API servers, proxies and etcd hiccups have been seen to send
ERROR_REASONS = {400: "BadRequest", 401: "Unauthorized", 403: "Forbidden", 404: "NotFound", 409: "Conflict",
                 429: "TooManyRequests", 500: "InternalError", 502: "BadGateway", 503: "ServiceUnavailable",
                 504: "Timeout", 411: "LengthRequired", 0: "Unknown"}


class _AsyncioProxy:
    """`watching.asyncio` replacement: everything is the real module, `sleep` logs its end."""

    def __init__(self, obs: list, state: dict) -> None:
        self._obs = obs
        self._state = state

    def __getattr__(self, name: str) -> Any:
        return getattr(asyncio, name)

    async def sleep(self, delay: float, result: Any = None) -> Any:
        r = await asyncio.sleep(delay, result)
        if self._state["on"]:
            self._obs.append(["wake"])
        return r


def _classify_exc(e: BaseException) -> str:
    from kopf._cogs.clients import errors
    if isinstance(e, errors.APITooManyRequestsError):
        return "tooMany"
    if isinstance(e, errors.APIError):
        return "gone" if getattr(e, "status", None) == 410 else "fatal"
    if isinstance(e, aiohttp.ClientConnectionError):
        return "conn"
    if isinstance(e, asyncio.TimeoutError):
        return "timeout"
    return "other:" + type(e).__name__


@contextlib.contextmanager
def instrumented(obs: list, cluster: fakeapi.Cluster, state: dict):
    """Patch the observation points; `state['on']` switches logging off at teardown."""
    from kopf._cogs.clients import api, watching

    orig_request = api.request
    orig_asyncio = watching.asyncio
    orig_iter = fakeapi.FakeContent.iter_chunked

    async def obs_request(method: str, url: str, **kw: Any) -> Any:
        q = url.split("?", 1)[1] if "?" in url else ""
        params = dict(p.split("=", 1) for p in q.split("&") if "=" in p)
        kind = "watch" if params.get("watch") == "true" else "list"
        since = params.get("resourceVersion")
        if state["on"]:
            obs.append(["req", kind, since, asyncio.get_running_loop().time()])
        try:
            resp = await orig_request(method, url, **kw)
        except asyncio.CancelledError:
            if state["on"]:
                obs.append(["rsp", kind, "cancelled", None])   # `asyncio.timeout(inactivity_timeout)` of watch_objs
            raise
        except BaseException as e:  # noqa: BLE001
            if state["on"]:
                obs.append(["rsp", kind, _classify_exc(e), None])
            raise
        extra = None
        if kind == "watch" and since is not None:
            res = state.get("res")
            extra = {"too_old": bool(res is not None and int(since) < cluster.horizon[res.key])}
        if kind == "list":
            try:
                extra = {"rv": resp.payload.get("metadata", {}).get("resourceVersion")}
            except Exception:  # noqa: BLE001
                extra = None
        if state["on"]:
            obs.append(["rsp", kind, "ok", extra])
        return resp

    async def obs_iter(self: Any, n: int):  # noqa: ANN202
        if self.response.watch is None:
            async for c in orig_iter(self, n):
                yield c
            return
        try:
            async for chunk in orig_iter(self, n):
                if state["on"]:
                    obs.append(["chunk", chunk.decode("utf-8", "replace")])
                yield chunk
        except GeneratorExit:
            raise
        except asyncio.CancelledError:
            if state["on"]:
                obs.append(["end", "cancelled"])
            raise
        except aiohttp.ClientConnectionError as e:
            if state["on"]:
                obs.append(["end", "closed" if "Connection closed" in str(e) else "conn"])
            raise
        except asyncio.TimeoutError:
            if state["on"]:
                obs.append(["end", "timeout"])
            raise
        else:
            if state["on"]:
                obs.append(["end", "eof"])

    api.request = obs_request  # type: ignore[assignment]
    watching.asyncio = _AsyncioProxy(obs, state)  # type: ignore[assignment]
    fakeapi.FakeContent.iter_chunked = obs_iter  # type: ignore[assignment]
    try:
        yield
    finally:
        api.request = orig_request  # type: ignore[assignment]
        watching.asyncio = orig_asyncio  # type: ignore[assignment]
        fakeapi.FakeContent.iter_chunked = orig_iter  # type: ignore[assignment]


def _make_toggleset(obs: list, state: dict) -> Any:
    from kopf._cogs.aiokits import aiotoggles

    class ObsToggleSet(aiotoggles.ToggleSet):
        async def wait_for(self, s: bool) -> None:  # type: ignore[override]
            await super().wait_for(s)
            if state["on"]:
                obs.append(["notice"] if s else ["unblock"])

    return ObsToggleSet(any)


class Cluster19(fakeapi.Cluster):
    """The fake cluster with a settable preferred API version per group (the stock one always prefers the
    lexicographically first): `preferred[group] = version`."""

    def __init__(self, *a: Any, **k: Any) -> None:
        self.preferred: dict[str, str] = {}
        super().__init__(*a, **k)

    def discovery(self, path: str) -> dict | None:
        d = super().discovery(path)
        if d is not None and d.get("kind") == "APIGroupList":
            for g in d["groups"]:
                pv = self.preferred.get(g["name"])
                if pv is not None and any(v["version"] == pv for v in g["versions"]):
                    g["preferredVersion"] = {"groupVersion": f"{g['name']}/{pv}", "version": pv}
        return d

    def preferred_of(self, group: str) -> str | None:
        vs = sorted(v for (g, v, _p) in self.resources if g == group)
        pv = self.preferred.get(group)
        return pv if pv in vs else (vs[0] if vs else None)


def rebase_versions(cluster: fakeapi.Cluster, start: int | None) -> None:
    """Renumber a freshly built cluster so that its next resourceVersion is `start + <objects so far> + 1`:
    runs whose versions cross a power of ten ('9'→'10', '99'→'100', '999'→'1000') after a few events.
    resourceVersions are opaque strings to a client: nothing may depend on their length or order as text."""
    if start is None:
        return
    import copy
    cluster.rv = int(start)
    for key in list(cluster.log):
        cluster.log[key] = []
    for key, body in cluster.objects.items():
        cluster.rv += 1
        body["metadata"]["resourceVersion"] = str(cluster.rv)
        cluster.log[key[0]].append((cluster.rv, "ADDED", copy.deepcopy(body)))
        cluster.history[key] = [{"t": 0.0, "event": "ADDED", "body": copy.deepcopy(body)}]


def _settings(sc: dict) -> Any:
    st = sc.get("settings", {})
    return runner.default_settings(**{
        "watching.reconnect_backoff": st.get("reconnect_backoff", 0.125),
        "watching.server_timeout": st.get("server_timeout", 512.0),
        "watching.client_timeout": st.get("client_timeout", 1024.0),
        "watching.inactivity_timeout": st.get("inactivity_timeout", 2048.0),
        "networking.request_timeout": st.get("request_timeout", 8.0),
        "networking.error_backoffs": tuple(st.get("backoffs", (0.5, 1.0))),
    })


def run_stream(sc: dict, wall_limit: float = 60.0) -> dict:
    """One fault script against the real `infinite_watch`. Returns {obs, requests, log, final, …}."""

    async def main() -> dict:
        runner._patch_kopf()
        from kopf._cogs.clients import auth, watching
        from kopf._cogs.structs import credentials, references
        loop = asyncio.get_running_loop()
        loop_errors: list[str] = []
        loop.set_exception_handler(lambda l, c: loop_errors.append(f"{c.get('message')}: {c.get('exception')!r}"[:200]))
        cluster = fakeapi.Cluster([fakeapi.NAMESPACES, fakeapi.CRDS, KEX])
        rebase_versions(cluster, sc.get("rv0"))
        obs: list = [["init", cluster.rv]]
        state: dict = {"on": True, "res": KEX}

        class ObsSession(fakeapi.FakeSession):
            """logs every HTTP attempt (first ones and those re-sent by api.request's retry loop)"""
            async def request(self, method: str, url: str, **kw: Any) -> Any:  # type: ignore[override]
                if state["on"] and method.upper() == "GET" and "kopfexamples" in url:
                    q = url.split("?", 1)[1] if "?" in url else ""
                    params = dict(p.split("=", 1) for p in q.split("&") if "=" in p)
                    obs.append(["http", "watch" if params.get("watch") == "true" else "list", params.get("resourceVersion")])
                return await super().request(method, url, **kw)

        session = ObsSession(cluster, "stream")
        vault = credentials.Vault({"fake": credentials.AiohttpSession(
            aiohttp_session=session, server="http://fake", default_namespace="default")})  # type: ignore[arg-type]
        auth.vault_var.set(vault)
        settings = _settings(sc)
        ns = sc.get("ns")
        resource = references.Resource("kopf.dev", "v1", "kopfexamples", kind="KopfExample", namespaced=True,
                                       verbs=frozenset(["list", "watch", "patch"]))
        paused = _make_toggleset(obs, state)
        toggle = await paused.make_toggle(False, name="script")
        bump = {"n": 0}
        rules: list[dict] = []

        def fault_rule(req: dict) -> Any:
            if req["method"] != "GET" or "kopfexamples" not in req["path"]:
                return None
            kind = "watch" if req["query"].get("watch") == "true" else "list"
            for r in rules:
                if r["target"] == kind and r["count"] > 0:
                    r["count"] -= 1
                    k = r["kind"]
                    if k == "429":
                        return fakeapi.Fault("status", 429, headers={"Retry-After": str(r.get("retry_after", 1))})
                    if k in ("500", "403", "404", "410"):
                        return fakeapi.Fault("status", int(k))
                    if k == "conn":
                        return fakeapi.Fault("conn-before")
                    if k == "timeout":
                        return fakeapi.Fault("timeout")
            return None

        cluster.fault_rules.append(fault_rule)

        def visible(o_ns: str | None) -> bool:
            return ns is None or o_ns == ns

        def log_change(before: int, name: str, o_ns: str | None, vis_res: bool = True) -> None:
            # every new stored version since `before`, in order
            for rv in range(before + 1, cluster.rv + 1):
                ent = next(((r, t, b) for (r, t, b) in cluster.log[KEX.key] if r == rv), None)
                if ent is not None and vis_res and visible(ent[2]["metadata"].get("namespace")):
                    obs.append(["act", "change", ent[2]["metadata"]["name"], ent[1], True, rv])
                else:
                    obs.append(["act", "change", name, "MODIFIED", False, rv])

        def push_all(item: Any) -> int:
            n = 0
            for w in list(cluster.watches):
                if not w.closed and w.res.key == KEX.key:
                    w.push(item)
                    n += 1
            return n

        async def do(op: list) -> None:
            name = op[0]
            before = cluster.rv
            if name == "create":
                o_ns = op[2] if len(op) > 2 else "ns"
                if cluster.get(KEX, o_ns, op[1]) is None:
                    cluster.create_raw(KEX, o_ns, op[1], {"spec": {"x": 0}})
                log_change(before, op[1], o_ns)
            elif name == "edit":
                o_ns = op[2] if len(op) > 2 else "ns"
                bump["n"] += 1
                cluster.edit(KEX, o_ns, op[1], {"spec": {"x": bump["n"]}})
                log_change(before, op[1], o_ns)
            elif name == "delete":
                o_ns = op[2] if len(op) > 2 else "ns"
                cluster.delete(KEX, o_ns, op[1])
                log_change(before, op[1], o_ns)
            elif name == "other":
                bump["n"] += 1
                cluster.edit(fakeapi.NAMESPACES, None, "default", {"metadata": {"labels": {"n": str(bump["n"])}}})
                log_change(before, "default", None, vis_res=False)
            elif name == "break":
                if op[1] == "error_nocode":     # an ERROR event whose Status has no `code`
                    cluster.break_watches(KEX, "error", payload={"kind": "Status", "apiVersion": "v1", "metadata": {},
                                                                 "status": "Failure", "message": "boom", "reason": "Unknown"})
                elif op[1] == "error" and len(op) > 2:      # an unknown ERROR event with a chosen HTTP-like code
                    code = int(op[2])
                    cluster.break_watches(KEX, "error", payload={
                        "kind": "Status", "apiVersion": "v1", "metadata": {}, "status": "Failure", "code": code,
                        "reason": ERROR_REASONS.get(code, "Unknown"), "message": f"injected in-stream error {code}"})
                else:
                    cluster.break_watches(KEX, op[1])
            elif name == "bookmark":
                push_all({"type": "BOOKMARK", "object": {"kind": "KopfExample", "apiVersion": "kopf.dev/v1",
                                                         "metadata": {"resourceVersion": str(cluster.rv)}}})
            elif name == "weird":
                push_all({"type": "WEIRD", "object": {"metadata": {"name": "x", "resourceVersion": str(cluster.rv + 1000)}}})
            elif name == "compact":
                cluster.compact(KEX)
                obs.append(["act", "compact", cluster.horizon[KEX.key]])
            elif name == "http410":
                cluster.http_410 = bool(op[1])
                obs.append(["act", "setHttp410", bool(op[1])])
            elif name == "fail":
                rules.append({"target": op[1], "kind": op[2], "count": int(op[3]), "retry_after": op[4] if len(op) > 4 else 1})
            elif name == "pause":
                await toggle.turn_to(True)
                obs.append(["act", "pause"])
            elif name == "resume":
                await toggle.turn_to(False)
                obs.append(["act", "resume"])
            else:
                raise ValueError(f"unknown op {op!r}")

        done: dict[str, Any] = {"exc": None}

        async def consume() -> None:
            obs.append(["wake"])      # the client starts as if a backoff had just ended
            try:
                async for ev in watching.infinite_watch(settings=settings, resource=resource, namespace=ns,
                                                        operator_paused=paused):
                    if not state["on"]:
                        continue
                    if isinstance(ev, watching.Bookmark):
                        obs.append(["yield", "LISTED", None, None, loop.time()])
                    else:
                        meta = (ev.get("object") or {}).get("metadata", {})
                        obs.append(["yield", ev.get("type"), meta.get("name"), meta.get("resourceVersion"), loop.time()])
            except asyncio.CancelledError:
                raise
            except BaseException as e:  # noqa: BLE001
                if state["on"]:
                    # an ERROR event without `code` raises KeyError instead of WatchingError: it raises all the same
                    kind = "unknownError" if isinstance(e, (watching.WatchingError, KeyError)) else \
                        "garbage" if isinstance(e, ValueError) else _classify_exc(e)
                    obs.append(["exc", kind, f"{type(e).__name__}: {e}"[:160]])
                    done["exc"] = f"{type(e).__name__}: {e}"[:200]

        with instrumented(obs, cluster, state):
            ops = sorted(sc["ops"], key=lambda o: o[0])
            pre = [o for o in ops if o[0] < 0]
            for o in pre:
                await do(o[1:])
            obs.append(["start", cluster.rv])
            task = asyncio.create_task(consume())
            for o in ops:
                if o[0] < 0:
                    continue
                d = o[0] - loop.time()
                if d > 0:
                    await asyncio.sleep(d)
                obs.append(["t", loop.time()])
                await do(o[1:])
            d = sc["end"] - loop.time()
            if d > 0:
                await asyncio.sleep(d)
            obs.append(["t", loop.time()])
            state["on"] = False
            alive = not task.done()
            task.cancel()
            with contextlib.suppress(BaseException):
                await task
        return {
            "obs": obs,
            "alive": alive,
            "exc": done["exc"],
            "paused_at_end": toggle.is_on(),
            "requests": [{"t": r["t"], "kind": "watch" if r["query"].get("watch") == "true" else "list",
                          "since": r["query"].get("resourceVersion"), "response": r["response"], "path": r["path"]}
                         for r in cluster.requests if r["method"] == "GET" and "kopfexamples" in r["path"]],
            "log": [[rv, t, b["metadata"]["name"], b["metadata"].get("namespace")] for rv, t, b in cluster.log[KEX.key]],
            "objects": [[k[1], k[2], b["metadata"]["resourceVersion"]] for k, b in cluster.objects.items() if k[0] == KEX.key],
            "final_rv": cluster.rv,
            "loop_errors": loop_errors[:5],
        }

    try:
        return simloop.run_sim(main, wall_limit=wall_limit)
    except (simloop.SimDeadlock, simloop.SimStall) as e:
        return {"sim_error": f"{type(e).__name__}: {e}"}


# =============================================================================================
# adjust_tasks over insight histories (real orchestration, stub watcher)
# =============================================================================================
def run_adjust(h: dict, wall_limit: float = 30.0) -> dict:
    """h = {"steps": [{"watched": [{"name","namespaced"}], "indexed": [names], "namespaces": [str|None]}],
            "peering": "standalone" | "absent"}.
    Returns per step: [[ [name, ns], is_new ], …] read off `ensemble.watcher_tasks`."""

    async def main() -> dict:
        runner._patch_kopf()
        from kopf._cogs.aiokits import aiotoggles
        from kopf._cogs.structs import references
        from kopf._core.engines import peering
        from kopf._core.reactor import orchestration, queueing

        spawned: list[dict] = []
        cancelled: list[int] = []
        diers: dict = {}

        async def stub_watcher(*, namespace: Any, resource: Any, settings: Any, processor: Any,
                               operator_paused: Any = None, operator_indexed: Any = None,
                               resource_indexed: Any = None) -> None:
            me = {"resource": resource.plural, "namespace": namespace, "indexed": resource_indexed is not None}
            spawned.append(me)
            die = asyncio.Event()
            diers[(resource.plural, namespace)] = die
            try:
                await die.wait()       # set by the harness: the task exits on its own (as after an HTTP 404)
            finally:
                cancelled.append(id(me))

        orig_watcher = queueing.watcher
        queueing.watcher = stub_watcher  # type: ignore[assignment]
        try:
            settings = runner.default_settings()
            if h.get("peering") == "standalone":
                settings.peering.standalone = True
            else:
                settings.peering.standalone = False
                settings.peering.name = "default"      # named peering, CRD absent from the backbone
                settings.peering.mandatory = False
            insights = references.Insights()
            paused = aiotoggles.ToggleSet(any)
            ensemble = orchestration.Ensemble(
                peering_missing=await paused.make_toggle(name="peering CRD is missing"),
                operator_paused=paused, operator_indexed=aiotoggles.ToggleSet(all))

            async def processor(**_: Any) -> None:
                return None

            def mkres(r: dict) -> Any:
                return references.Resource("example.org", "v1", r["name"], kind=r["name"].title(),
                                           namespaced=bool(r["namespaced"]),
                                           verbs=frozenset(["list", "watch", "patch"]))

            rows = []
            prev: dict = {}
            for st in h["steps"]:
                if "die" in st:
                    for name, ns in st["die"]:
                        ev = diers.get((name, ns))
                        if ev is not None:
                            ev.set()
                    for _ in range(5):
                        await asyncio.sleep(0)
                    continue
                insights.watched_resources.clear()
                insights.watched_resources.update(mkres(r) for r in st["watched"])
                insights.indexed_resources.clear()
                insights.indexed_resources.update(mkres(r) for r in st["watched"] if r["name"] in st.get("indexed", []))
                insights.namespaces.clear()
                insights.namespaces.update(st["namespaces"])
                await orchestration.adjust_tasks(processor=processor, insights=insights, settings=settings,
                                                 identity=peering.Identity("me"), ensemble=ensemble)
                cur = dict(ensemble.watcher_tasks)
                row = []
                for key, task in cur.items():
                    is_new = prev.get(key) is not task
                    row.append([[key.resource.plural, key.namespace], bool(is_new)])
                alive = [[k.resource.plural, k.namespace] for k, t in cur.items() if not t.done()]
                rows.append({"keys": sorted(row, key=lambda x: (x[0][0], str(x[0][1]))),
                             "alive": sorted(alive, key=lambda x: (x[0], str(x[1]))),
                             "other_tasks": len(ensemble.peering_tasks) + len(ensemble.pinging_tasks),
                             "stopped_prev_running": sorted(
                                 [[k.resource.plural, k.namespace] for k, t in prev.items() if k not in cur and not t.done()],
                                 key=lambda x: (x[0], str(x[1])))})
                prev = cur
            for t in list(ensemble.watcher_tasks.values()):
                t.cancel()
            await asyncio.gather(*ensemble.watcher_tasks.values(), return_exceptions=True)
            return {"rows": rows, "spawned": len(spawned)}
        finally:
            queueing.watcher = orig_watcher  # type: ignore[assignment]

    try:
        return simloop.run_sim(main, wall_limit=wall_limit)
    except (simloop.SimDeadlock, simloop.SimStall) as e:
        return {"sim_error": f"{type(e).__name__}: {e}"}


# =============================================================================================
# the whole operator while namespaces and CRDs come and go
# =============================================================================================
META = {"namespaces", "customresourcedefinitions"}


def run_operator(sc: dict, wall_limit: float = 60.0) -> dict:
    """sc = {"clusterwide": bool, "patterns": [..], "handlers": [plural…], "initial_resources": [plural…],
             "initial_namespaces": [..], "timeline": [[t, op, args…]], "end": T, "settings": {...}}
    ops: add_ns n | del_ns n | add_res plural | del_res plural | create plural ns name | edit plural ns name |
         delete plural ns name | break plural how | compact plural | http410 bool | check |
         term_ns n (the namespace becomes Terminating as in Kubernetes: deletionTimestamp + status.conditions, some of
         them True = content/finalizers remaining) | fin_ns n (all conditions False, then the object is removed) |
         pause | resume (an extra toggle in the operator's own `operator_paused` ToggleSet: "a UI with a pause button")
    optional: "extra_handlers": [{"plural", "kind": daemon|timer|index|create|update|delete|resume}],
              "verbs": {plural: [verbs…]}, "scanning_disabled": bool, "ns_forbidden": "list"|"watch" (HTTP 403),
              "initial_terminating": [namespaces that are Terminating (blocked) before the operator starts]
    Returns checkpoints with the watches open on the server, handler calls, and the watch request log."""

    async def main() -> dict:
        import kopf
        runner._patch_kopf()
        loop = asyncio.get_running_loop()
        cluster = Cluster19([fakeapi.NAMESPACES, fakeapi.CRDS])
        rebase_versions(cluster, sc.get("rv0"))
        if sc.get("meta_lag"):
            # the events of the meta-resources reach the observers late (a loaded API server, a slow informer path):
            # {"customresourcedefinitions": seconds, "namespaces": seconds}; the objects' own watches are not delayed
            lag = {k: float(v) for k, v in sc["meta_lag"].items()}
            cluster.echo_delay = lambda w, t, o: lag.get(w.res.plural, 0.0)
        # per-scenario resource definitions (never the shared module-level ones when the verbs are varied)
        RES = dict(RES_BY_NAME)
        for p, verbs in (sc.get("verbs") or {}).items():
            b = RES_BY_NAME[p]
            RES[p] = fakeapi.ResourceDef(b.group, b.version, b.plural, b.kind, namespaced=b.namespaced, verbs=tuple(verbs),
                                         shortnames=b.shortnames, categories=b.categories)

        def terminate_ns(n: str, blocked: bool) -> None:
            """What the namespace controller writes: the deletion mark and the five conditions; `blocked`: content and
            finalizers remain (status True); otherwise all conditions are False (the object is removed next)."""
            def fn(body: dict) -> None:
                body["metadata"].setdefault("deletionTimestamp", "2020-01-01T00:00:00Z")
                body.setdefault("spec", {})["finalizers"] = ["kubernetes"]
                rem = "True" if blocked else "False"
                body["status"] = {"phase": "Terminating", "conditions": [
                    {"type": "NamespaceDeletionDiscoveryFailure", "status": "False", "reason": "ResourcesDiscovered", "message": "ok"},
                    {"type": "NamespaceDeletionGroupVersionParsingFailure", "status": "False", "reason": "ParsedGroupVersions", "message": "ok"},
                    {"type": "NamespaceDeletionContentFailure", "status": "False", "reason": "ContentDeleted", "message": "ok"},
                    {"type": "NamespaceContentRemaining", "status": rem, "reason": "SomeResourcesRemain" if blocked else "ContentRemoved",
                     "message": "Some resources are remaining" if blocked else "ok"},
                    {"type": "NamespaceFinalizersRemaining", "status": rem, "reason": "SomeFinalizersRemain" if blocked else "ContentHasNoFinalizers",
                     "message": "Some content in the namespace has finalizers remaining" if blocked else "ok"}]}
            key = (fakeapi.NAMESPACES.key, None, n)
            if key in cluster.objects:      # the deletion mark is immutable through the fake's write path: store the version directly
                import copy
                body = copy.deepcopy(cluster.objects[key])
                fn(body)
                cluster._store(key, body, "MODIFIED")

        for n in sc.get("initial_namespaces", []):
            if cluster.get(fakeapi.NAMESPACES, None, n) is None:
                cluster.create_raw(fakeapi.NAMESPACES, None, n, {})
        for n in sc.get("initial_terminating", []):
            if cluster.get(fakeapi.NAMESPACES, None, n) is None:
                cluster.create_raw(fakeapi.NAMESPACES, None, n, {})
            terminate_ns(n, True)
        for p in sc.get("initial_resources", []):
            cluster.add_resource(RES[p], announce=True)
        for p in sc.get("initial_crds", []):
            # CRDs stored but not yet established when the operator starts: its initial listing of the CRDs shows them
            if RES[p].key not in cluster.resources:
                cluster.create_raw(fakeapi.CRDS, None, f"{RES[p].plural}.{RES[p].group}", {
                    "spec": {"group": RES[p].group, "names": {"plural": RES[p].plural, "kind": RES[p].kind},
                             "scope": "Namespaced" if RES[p].namespaced else "Cluster",
                             "versions": [{"name": RES[p].version, "served": True, "storage": True}]},
                    "status": {"conditions": [], "storedVersions": []}})
        initial_cluster_namespaces = sorted(k[2] for k in cluster.objects if k[0] == fakeapi.NAMESPACES.key)
        if sc.get("ns_forbidden"):
            mode = sc["ns_forbidden"]

            def forbid_ns(req: dict) -> Any:
                if req["method"] == "GET" and req["path"].rstrip("/") == "/api/v1/namespaces":
                    is_watch = req["query"].get("watch") == "true"
                    if (mode == "watch" and is_watch) or (mode == "list" and not is_watch) or mode == "both":
                        return fakeapi.Fault("status", 403)
                return None
            cluster.fault_rules.append(forbid_ns)
        calls: list[dict] = []
        reg = kopf.OperatorRegistry()
        for spec in sc.get("selectors", []):
            # handlers that select by bare name / category / short name (no version, no group): what they serve
            # depends on the CURRENT discovery (preferred version, categories, shortNames of the CRD)
            def mks(tag: str) -> Any:
                async def on_event(event: Any, name: Any, namespace: Any, body: Any, resource: Any, **_: Any) -> None:
                    calls.append({"t": loop.time(), "res": resource.plural, "ver": resource.version, "ns": namespace, "name": name,
                                  "type": event["type"], "rv": body.get("metadata", {}).get("resourceVersion"), "sel": tag})
                return on_event
            tag = f"{spec['by']}:{spec['value']}"
            if spec["by"] == "name":
                kopf.on.event(spec["value"], id=f"sel-{tag}", registry=reg)(mks(tag))
            elif spec["by"] == "category":
                kopf.on.event(category=spec["value"], id=f"sel-{tag}", registry=reg)(mks(tag))
            elif spec["by"] == "shortcut":
                kopf.on.event(shortcut=spec["value"], id=f"sel-{tag}", registry=reg)(mks(tag))
            else:
                raise ValueError(f"unknown selector {spec!r}")
        for p in sc["handlers"]:
            def mk(plural: str) -> Any:
                async def on_event(event: Any, name: Any, namespace: Any, body: Any, **_: Any) -> None:
                    calls.append({"t": loop.time(), "res": plural, "ns": namespace, "name": name, "type": event["type"],
                                  "rv": body.get("metadata", {}).get("resourceVersion")})
                    d = float(sc.get("handler_sleep") or 0.0)
                    if d > 0 and event["type"] is not None:
                        await asyncio.sleep(d)      # a handler in flight: `aiotasks.stop()` of its watcher suspends
                return on_event
            kopf.on.event(RES_BY_NAME[p].group, RES_BY_NAME[p].version, p, id=f"ev-{p}", registry=reg)(mk(p))
        for i, eh in enumerate(sc.get("extra_handlers", [])):
            # other kinds of handlers serve a resource just as well (daemons, timers, indices, changing handlers)
            b = RES_BY_NAME[eh["plural"]]
            gvp = (b.group, b.version, b.plural)
            hid = f"x{i}-{eh['kind']}-{b.plural}"
            if eh["kind"] == "daemon":
                async def dmn(stopped: Any, **_: Any) -> None:
                    await stopped.wait()
                kopf.daemon(*gvp, id=hid, registry=reg, cancellation_timeout=0.5)(dmn)
            elif eh["kind"] == "timer":
                async def tmr(**_: Any) -> None:
                    return None
                kopf.timer(*gvp, id=hid, registry=reg, interval=512.0)(tmr)
            elif eh["kind"] == "index":
                async def idx(name: Any, **_: Any) -> Any:
                    return name
                kopf.index(*gvp, id=hid, registry=reg)(idx)
            elif eh["kind"] in ("create", "update", "delete", "resume"):
                async def chg(**_: Any) -> None:
                    return None
                getattr(kopf.on, eh["kind"])(*gvp, id=hid, registry=reg)(chg)
            else:
                raise ValueError(f"unknown handler kind {eh!r}")
        st = sc.get("settings", {})
        settings = runner.default_settings(**{
            "watching.reconnect_backoff": 0.125,
            "watching.server_timeout": st.get("server_timeout", 512.0),
            "networking.error_backoffs": tuple(st.get("backoffs", (0.5, 1.0))),
            "queueing.exit_timeout": st.get("exit_timeout", 2.0),
            "scanning.disabled": bool(sc.get("scanning_disabled", False)),
        })
        kw: dict = {"standalone": True}
        if sc.get("clusterwide", True):
            kw["clusterwide"] = True
        else:
            kw["clusterwide"] = False
            kw["namespaces"] = list(sc["patterns"])
        op = runner.Operator(cluster, reg, settings, identity="c19", **kw)
        bump = {"n": 0}
        checkpoints: list[dict] = []
        # the cluster → insights layer: what the namespace observer was fed, and what the insights held afterwards
        from kopf._core.reactor import observation
        ns_feed: list = []
        orig_revise = observation.revise_namespaces

        def ns_mark(body: Any) -> str:
            """the abstraction of a namespace body: live | blocked (Terminating, something remains) | finishing (Terminating, nothing remains)"""
            conds = (body.get("status") or {}).get("conditions") or []
            if not (body.get("metadata", {}).get("deletionTimestamp") and conds):
                return "live"
            return "blocked" if any(c.get("status") == "True" for c in conds) else "finishing"

        def obs_revise(*, insights: Any, namespaces: Any, raw_events: Any = (), raw_bodies: Any = ()) -> None:
            orig_revise(insights=insights, namespaces=namespaces, raw_events=raw_events, raw_bodies=raw_bodies)
            if raw_bodies:      # the observer's own first listing
                ns_feed.append({"t": loop.time(), "kind": "listing0", "names": [b["metadata"]["name"] for b in raw_bodies],
                                "marks": [ns_mark(b) for b in raw_bodies],
                                "after": sorted(str(n) for n in insights.namespaces)})

        orig_process = observation.process_discovered_namespace_event

        async def obs_process(*, raw_event: Any, namespaces: Any, insights: Any, **kw: Any) -> None:
            await orig_process(raw_event=raw_event, namespaces=namespaces, insights=insights, **kw)
            ns_feed.append({"t": loop.time(), "kind": "event", "type": raw_event["type"],
                            "name": raw_event["object"]["metadata"]["name"], "mark": ns_mark(raw_event["object"]),
                            "after": sorted(str(n) for n in insights.namespaces)})
        observation.process_discovered_namespace_event = obs_process  # type: ignore[assignment]
        # the same for the resource kinds: every item handed to the CRD observer's processor, the scan it made for that item
        # (the real scanning.scan_resources against the fake's discovery documents) and insights.watched_resources afterwards
        import contextvars
        crd_feed: list = []
        cur_crd_ev: Any = contextvars.ContextVar("c19_crd_event", default=None)
        orig_revise_res = observation.revise_resources
        orig_rprocess = observation.process_discovered_resource_event

        def watched_ids(ins: Any) -> list:
            return sorted([r.group, r.version, r.plural] for r in ins.watched_resources)

        def obs_revise_res(*, group: Any, insights: Any, registry: Any, resources: Any) -> None:
            orig_revise_res(group=group, insights=insights, registry=registry, resources=resources)
            ev = cur_crd_ev.get()
            rec = {"t": loop.time(), "group": group, "scan": sorted([r.group, r.version, r.plural] for r in resources),
                   "after": watched_ids(insights), "type": "STARTUP"}
            if ev is not None:
                ev["revised"] = True
                rec.update(type=ev["type"], name=ev["name"], gen=ev["gen"], group=ev["group"])
            crd_feed.append(rec)

        async def obs_rprocess(*, raw_event: Any, insights: Any, **kw: Any) -> None:
            meta_ = raw_event["object"].get("metadata", {})
            ev = {"type": raw_event["type"] or "LISTED", "name": meta_.get("name"), "gen": meta_.get("generation"),
                  "group": (raw_event["object"].get("spec") or {}).get("group"), "revised": False}
            tok = cur_crd_ev.set(ev)
            try:
                await orig_rprocess(raw_event=raw_event, insights=insights, **kw)
            finally:
                cur_crd_ev.reset(tok)
            if not ev["revised"]:
                crd_feed.append({"t": loop.time(), "type": ev["type"], "name": ev["name"], "gen": ev["gen"], "group": ev["group"],
                                 "scan": None, "after": watched_ids(insights)})
        observation.revise_resources = obs_revise_res  # type: ignore[assignment]
        observation.process_discovered_resource_event = obs_rprocess  # type: ignore[assignment]
        from kopf._core.reactor import orchestration
        passes: list = []
        orig_adjust = orchestration.adjust_tasks

        # the orchestrator protocol as a label trace (Model/C19_Orchestrator): revise / acquire / termDone / spawnAll / die
        from kopf._cogs.structs import references as _refs
        orch_trace: list = []
        revisions: list = []
        deaths: list = []
        watched_tasks: dict = {}

        def snapshot(ins: Any) -> dict:
            return {"watched": sorted(({"name": r.plural, "namespaced": bool(r.namespaced)} for r in ins.watched_resources),
                                      key=lambda x: x["name"]),
                    "namespaces": sorted(ins.namespaces, key=str)}

        RealInsights = _refs.Insights

        def make_insights(*a: Any, **k: Any) -> Any:
            ins = RealInsights(*a, **k)
            real_notify = ins.revised.notify_all

            def notify_all() -> None:        # every writer of the insights calls it inside its critical section
                orch_trace.append(["revise", snapshot(ins)])
                revisions.append([loop.time(), snapshot(ins)])
                real_notify()
            ins.revised.notify_all = notify_all  # type: ignore[method-assign]
            return ins
        _refs.Insights = make_insights  # type: ignore[misc,assignment]
        orig_terminate = orchestration.terminate_redundancies

        async def obs_terminate(**kw: Any) -> None:
            orch_trace.append(["acquire"])      # the redundant keys (incl. `task.done()`) are computed right here
            await orig_terminate(**kw)
            orch_trace.append(["termDone"])
        orchestration.terminate_redundancies = obs_terminate  # type: ignore[assignment]

        async def obs_adjust(**kw: Any) -> None:
            t0 = loop.time()
            await orig_adjust(**kw)
            ens = kw["ensemble"]
            orch_trace.append(["spawnAll", sorted(([k.resource.plural, k.namespace] for k in ens.watcher_tasks), key=str)])
            for key, task in ens.watcher_tasks.items():
                if watched_tasks.get(key) is not task:
                    watched_tasks[key] = task

                    def on_done(t: Any, key: Any = key) -> None:
                        if not t.cancelled() and state_on["on"]:
                            orch_trace.append(["die", [key.resource.plural, key.namespace]])
                            deaths.append([key.resource.plural, key.namespace, loop.time()])
                    task.add_done_callback(on_done)
            passes.append([t0, loop.time()])
        orchestration.adjust_tasks = obs_adjust  # type: ignore[assignment]
        state_on = {"on": True}
        orig_orchestrator = orchestration.orchestrator
        captured: dict = {}

        async def obs_orchestrator(**kw: Any) -> None:        # running.spawn_tasks looks the attribute up at call time
            captured["operator_paused"] = kw["operator_paused"]
            await orig_orchestrator(**kw)
        orchestration.orchestrator = obs_orchestrator  # type: ignore[assignment]
        pause_state: dict = {"toggle": None, "on": False}
        pauses: list = []

        async def set_pause(on: bool) -> None:
            ts = captured.get("operator_paused")
            if ts is None:
                raise RuntimeError("the operator's pause ToggleSet was not captured (the orchestrator has not started)")
            if pause_state["toggle"] is None:
                pause_state["toggle"] = await ts.make_toggle(False, name="harness pause button")
            await pause_state["toggle"].turn_to(on)
            pause_state["on"] = on
            if on:
                pauses.append([loop.time(), None])
            elif pauses and pauses[-1][1] is None:
                pauses[-1][1] = loop.time()
        observation.revise_namespaces = obs_revise  # type: ignore[assignment]

        def open_watches() -> list:
            return sorted([[w.res.plural, w.ns] for w in cluster.watches if not w.closed],
                          key=lambda x: (x[0], str(x[1])))

        def cur_attr(base: Any, attr: str) -> tuple:
            for k, rd in cluster.resources.items():
                if k[0] == base.group and k[2] == base.plural:
                    return tuple(getattr(rd, attr))
            return tuple(getattr(base, attr))

        appearances: list = []      # cluster side: [t, plural] whenever a kind starts being served by the API server

        def crd_name(p: str) -> str:
            return f"{RES[p].plural}.{RES[p].group}"

        def set_crd_conditions(p: str, conds: list, stored: Any = None) -> None:
            def fn(body: dict) -> None:
                st = body.setdefault("status", {})
                st["conditions"] = [{"type": c[0], "status": c[1], "reason": c[2], "message": ""} for c in conds]
                if stored is not None:
                    st["storedVersions"] = list(stored)
            cluster.mutate(fakeapi.CRDS, None, crd_name(p), fn)

        def do(o: list) -> None:
            name = o[0]
            if name == "add_ns":
                if cluster.get(fakeapi.NAMESPACES, None, o[1]) is None:
                    cluster.create_raw(fakeapi.NAMESPACES, None, o[1], {})
            elif name == "del_ns":
                cur_ns = cluster.get(fakeapi.NAMESPACES, None, o[1])
                if cur_ns is not None and cur_ns["metadata"].get("deletionTimestamp"):
                    do(["fin_ns", o[1]])        # a Terminating namespace goes the way the namespace controller ends it (conditions all False first)
                else:
                    cluster.delete(fakeapi.NAMESPACES, None, o[1])
            elif name == "term_ns":
                terminate_ns(o[1], True)
            elif name == "fin_ns":
                if cluster.get(fakeapi.NAMESPACES, None, o[1]) is not None:
                    # nothing may remain in a namespace that goes: its objects are removed first (as the namespace controller does)
                    for key in [k for k in list(cluster.objects) if k[1] == o[1] and k[0][2] not in META]:
                        cluster._remove(key)
                    terminate_ns(o[1], False)
                    cluster._remove((fakeapi.NAMESPACES.key, None, o[1]))
            elif name == "add_res":
                if RES[o[1]].key not in cluster.resources and cluster.get(fakeapi.CRDS, None, crd_name(o[1])) is None:
                    cluster.add_resource(RES[o[1]], announce=True)
                    appearances.append([loop.time(), o[1]])
            elif name == "del_res":
                if RES[o[1]].key in cluster.resources:
                    cluster.remove_resource(RES[o[1]])
                elif cluster.get(fakeapi.CRDS, None, crd_name(o[1])) is not None:
                    cluster._remove((fakeapi.CRDS.key, None, crd_name(o[1])))       # a CRD deleted before it was ever established
            elif name == "add_crd":
                # the FIRST of the stages in which a kind appears on a real API server: the CRD object is stored (ADDED,
                # generation 1, no conditions yet); the kind is not served and not in the discovery documents yet
                if RES[o[1]].key not in cluster.resources and cluster.get(fakeapi.CRDS, None, crd_name(o[1])) is None:
                    r0 = RES[o[1]]
                    cluster.create_raw(fakeapi.CRDS, None, crd_name(o[1]), {
                        "spec": {"group": r0.group, "names": {"plural": r0.plural, "kind": r0.kind}, "scope": "Namespaced" if r0.namespaced else "Cluster",
                                 "versions": [{"name": r0.version, "served": True, "storage": True}]},
                        "status": {"conditions": [], "storedVersions": []}})
            elif name == "accept_crd":
                # the naming controller's verdict: a status-only update (same generation), the kind is still not served
                if RES[o[1]].key not in cluster.resources:
                    set_crd_conditions(o[1], [["NamesAccepted", "True", "NoConflicts"]])
            elif name == "establish":
                # the establishing controller's verdict: from this instant on the API server serves the kind and shows it in
                # the discovery documents; the CRD object gets a STATUS-ONLY update (Established=True; metadata.generation
                # as it was: only a change of the spec bumps it)
                if RES[o[1]].key not in cluster.resources and cluster.get(fakeapi.CRDS, None, crd_name(o[1])) is not None:
                    cluster.add_resource(RES[o[1]], announce=False)
                    appearances.append([loop.time(), o[1]])
                    set_crd_conditions(o[1], [["NamesAccepted", "True", "NoConflicts"], ["Established", "True", "InitialNamesAccepted"]],
                                       stored=[RES[o[1]].version])
            elif name in ("create", "edit", "delete"):
                res = RES[o[1]]
                if res.key not in cluster.resources:
                    return
                ns = o[2] if res.namespaced else None
                if name == "create":
                    if cluster.get(res, ns, o[3]) is None:
                        cluster.create_raw(res, ns, o[3], {"spec": {"x": 0}})
                elif name == "edit":
                    bump["n"] += 1
                    cluster.edit(res, ns, o[3], {"spec": {"x": bump["n"]}})
                else:
                    cluster.delete(res, ns, o[3])
            elif name == "break":
                cluster.break_watches(RES[o[1]], o[2])
            elif name == "compact":
                cluster.compact(RES[o[1]])
            elif name == "http410":
                cluster.http_410 = bool(o[1])
            elif name in ("add_version", "set_preferred", "set_categories", "set_shortnames", "del_version"):
                base = RES[o[1]]
                if base.key not in cluster.resources and not any(k[0] == base.group and k[2] == base.plural for k in cluster.resources):
                    return
                if name == "add_version":
                    nv = fakeapi.ResourceDef(base.group, o[2], base.plural, base.kind, namespaced=base.namespaced,
                                             shortnames=cur_attr(base, "shortnames"), categories=cur_attr(base, "categories"))
                    cluster.add_resource(nv, announce=False)
                    if len(o) > 3 and o[3]:
                        cluster.preferred[base.group] = o[2]
                elif name == "del_version":
                    key = (base.group, o[2], base.plural)
                    if key in cluster.resources and sum(1 for k in cluster.resources if k[0] == base.group and k[2] == base.plural) > 1:
                        for w in list(cluster.watches):
                            if w.res.key == key:
                                w.close()
                        cluster.resources.pop(key)
                elif name == "set_preferred":
                    cluster.preferred[base.group] = o[2]
                else:
                    for k, rd in cluster.resources.items():
                        if k[0] == base.group and k[2] == base.plural:
                            setattr(rd, "categories" if name == "set_categories" else "shortnames", tuple(o[2]))
                bump["n"] += 1      # the CRD object itself is MODIFIED: the observer re-scans its group
                cluster.edit(fakeapi.CRDS, None, f"{base.plural}.{base.group}", {"spec": {"rev": bump["n"]}})
            elif name == "touch_crd":
                # the CRD object is MODIFIED and nothing about the resource changes (a status condition, an annotation,
                # a re-applied manifest): the observer re-scans its API group and finds what it knew.
                # o[2]: "spec" (default: a field of the spec, the generation goes up) | "status" (a condition's heartbeat:
                # same generation) | "meta" (an annotation: same generation)
                bump["n"] += 1
                how = o[2] if len(o) > 2 else "spec"
                if how == "spec":
                    cluster.edit(fakeapi.CRDS, None, crd_name(o[1]), {"spec": {"rev": bump["n"]}})
                elif how == "status":
                    cluster.edit(fakeapi.CRDS, None, crd_name(o[1]), {"status": {"heartbeat": bump["n"]}})
                elif how == "meta":
                    cluster.edit(fakeapi.CRDS, None, crd_name(o[1]), {"metadata": {"annotations": {"touched": str(bump["n"])}}})
                else:
                    raise ValueError(f"unknown touch_crd mode {o!r}")
            elif name == "touch_ns":
                # a namespace is MODIFIED (a label): still the same namespace
                bump["n"] += 1
                cluster.edit(fakeapi.NAMESPACES, None, o[1], {"metadata": {"labels": {"rev": str(bump["n"])}}})
            elif name == "fail":
                rule = {"plural": o[1], "status": int(o[2]), "count": int(o[3])}

                def fault_rule(req: dict, rule: dict = rule) -> Any:
                    if req["method"] == "GET" and req["path"].rstrip("/").endswith("/" + rule["plural"]) and rule["count"] > 0:
                        rule["count"] -= 1
                        return fakeapi.Fault("status", rule["status"])
                    return None
                cluster.fault_rules.append(fault_rule)
            elif name == "check":
                checkpoints.append({
                    "t": loop.time(),
                    "watches": open_watches(),
                    "resources": sorted({k[2] for k in cluster.resources}),
                    "watches_v": sorted([[w.res.group, w.res.version, w.res.plural, w.ns] for w in cluster.watches if not w.closed],
                                        key=str),
                    "discovery": sorted([{"group": rd.group, "version": rd.version, "plural": rd.plural, "kind": rd.kind,
                                          "singular": rd.singular, "namespaced": rd.namespaced,
                                          "preferred": cluster.preferred_of(rd.group) == rd.version if rd.group else True,
                                          "categories": list(rd.categories), "shortnames": list(rd.shortnames), "verbs": list(rd.verbs)}
                                         for rd in cluster.resources.values()], key=lambda x: (x["group"], x["plural"], x["version"])),
                    "namespaces": sorted(k[2] for k in cluster.objects if k[0] == fakeapi.NAMESPACES.key),
                    "objects": sorted([k[0][2], k[1], k[2], b["metadata"]["resourceVersion"]] for k, b in cluster.objects.items()
                                      if k[0][2] not in META),
                    # the fake keeps the objects per API VERSION of a resource (a real cluster shows one object under every version)
                    "objects_gvp": sorted([k[0][0], k[0][1], k[0][2], k[1], k[2]] for k in cluster.objects if k[0][2] not in META),
                    "paused": bool(pause_state["on"]),
                    "terminating": sorted(k[2] for k, b in cluster.objects.items() if k[0] == fakeapi.NAMESPACES.key
                                          and b["metadata"].get("deletionTimestamp")),
                    "alive": op.alive, "ncalls": len(calls)})
            else:
                raise ValueError(f"unknown op {o!r}")

        try:
            await op.start()
            for o in sorted(sc["timeline"], key=lambda x: x[0]):
                d = o[0] - loop.time()
                if d > 0:
                    await asyncio.sleep(d)
                if o[1] in ("pause", "resume"):
                    await set_pause(o[1] == "pause")
                else:
                    do(o[1:])
            d = sc["end"] - loop.time()
            if d > 0:
                await asyncio.sleep(d)
            do(["check"])
            alive = op.alive
            state_on["on"] = False
            trace_at_end = list(orch_trace)
            t_trace_end = loop.time()
            err = None
            if not alive and op.task is not None:
                with contextlib.suppress(BaseException):
                    err = repr(op.task.exception())[:300]
            res = await op.stop(timeout=120.0)
            return {"checkpoints": checkpoints, "calls": calls, "alive_at_end": alive, "op_error": err,
                    "stop_result": None if res is None else repr(res)[:200],
                    "watch_requests": [{"t": r["t"], "path": r["path"], "since": r["query"].get("resourceVersion"),
                                        "response": r["response"]} for r in cluster.requests
                                       if r["method"] == "GET" and r["query"].get("watch") == "true"],
                    "ns_feed": ns_feed, "crd_feed": crd_feed, "passes": passes, "orch_trace": trace_at_end, "deaths": deaths,
                    "revisions": [x for x in revisions if x[0] <= t_trace_end], "t_end": t_trace_end,
                    # cluster-level: every 404 answered to a list/watch request of an object resource, and every stored
                    # version of every namespace object (each one is an event on the namespaces' watch)
                    "not_found_log": [[r["t"], r["path"].rstrip("/").split("/")[-1],
                                       (r["path"].rstrip("/").split("/")[-2] if r["path"].rstrip("/").split("/")[-3:-2] == ["namespaces"] else None)]
                                      for r in cluster.requests if r["method"] == "GET" and r["response"] == 404
                                      and r["path"].rstrip("/").split("/")[-1] in RES_BY_NAME],
                    "ns_events": sorted([v["t"], k[2], v["event"]] for k, vs in cluster.history.items()
                                        if k[0][2] == "namespaces" for v in vs),
                    "pauses": pauses, "initial_cluster_namespaces": initial_cluster_namespaces, "appearances": appearances,
                    # every stored version of every CRD object: each one is an event that makes the observer re-scan that API group
                    "crd_events": sorted([v["t"], k[2], v["event"]] for k, vs in cluster.history.items()
                                         if k[0][2] == "customresourcedefinitions" for v in vs),
                    "obj_requests": [{"t": r["t"], "kind": "watch" if r["query"].get("watch") == "true" else "list",
                                      "plural": r["path"].rstrip("/").split("/")[-1],
                                      "ns": (r["path"].rstrip("/").split("/")[-2] if r["path"].rstrip("/").split("/")[-3:-2] == ["namespaces"] else None),
                                      "since": r["query"].get("resourceVersion"), "response": r["response"]}
                                     for r in cluster.requests
                                     if r["method"] == "GET" and r["path"].rstrip("/").split("/")[-1] in RES_BY_NAME
                                     and r["path"].rstrip("/").split("/")[-1] not in META],
                    "not_found": sorted({r["path"].rstrip("/").split("/")[-1] for r in cluster.requests
                                         if r["method"] == "GET" and r["response"] == 404}),
                    "not_found_at": {r["path"].rstrip("/").split("/")[-1]: r["t"] for r in cluster.requests
                                     if r["method"] == "GET" and r["response"] == 404},
                    "history": {f"{k[0][2]}/{k[1]}/{k[2]}": [[v["t"], v["event"], v["body"]["metadata"]["resourceVersion"]] for v in vs]
                                for k, vs in cluster.history.items() if k[0][2] not in META}}
        finally:
            observation.revise_namespaces = orig_revise  # type: ignore[assignment]
            observation.process_discovered_namespace_event = orig_process  # type: ignore[assignment]
            observation.revise_resources = orig_revise_res  # type: ignore[assignment]
            observation.process_discovered_resource_event = orig_rprocess  # type: ignore[assignment]
            orchestration.adjust_tasks = orig_adjust  # type: ignore[assignment]
            orchestration.terminate_redundancies = orig_terminate  # type: ignore[assignment]
            orchestration.orchestrator = orig_orchestrator  # type: ignore[assignment]
            _refs.Insights = RealInsights  # type: ignore[misc]

    try:
        return simloop.run_sim(main, wall_limit=wall_limit)
    except (simloop.SimDeadlock, simloop.SimStall) as e:
        return {"sim_error": f"{type(e).__name__}: {e}"}


# =============================================================================================
# Pure runs: the two synchronous functions that decide WHAT is served, called directly
# =============================================================================================
def ns_body(name: str, shape: str) -> dict:
    """A namespace body as the API server sends it. Shapes: live | marked (deletionTimestamp, the namespace controller
    has not written its conditions yet) | blocked (Terminating, content / finalizers remaining: mixed conditions) |
    finishing (Terminating, every condition False) | odd (conditions without a deletion mark)."""
    body: dict = {"apiVersion": "v1", "kind": "Namespace", "metadata": {"name": name, "uid": f"uid-{name}", "resourceVersion": "1"},
                  "spec": {"finalizers": ["kubernetes"]}, "status": {"phase": "Active"}}
    if shape in ("marked", "blocked", "finishing"):
        body["metadata"]["deletionTimestamp"] = "2020-01-01T00:00:00Z"
        body["status"]["phase"] = "Terminating"
    if shape in ("blocked", "finishing", "odd"):
        rem = "True" if shape in ("blocked", "odd") else "False"
        body["status"]["conditions"] = [
            {"type": "NamespaceDeletionDiscoveryFailure", "status": "False", "reason": "ResourcesDiscovered", "message": "ok"},
            {"type": "NamespaceDeletionContentFailure", "status": "False", "reason": "ContentDeleted", "message": "ok"},
            {"type": "NamespaceContentRemaining", "status": rem, "reason": "SomeResourcesRemain", "message": "kopfexamples.kopf.dev has 1 resource instances"},
            {"type": "NamespaceFinalizersRemaining", "status": rem, "reason": "SomeFinalizersRemain", "message": "x in 1 resource instances"}]
    return body


def run_pure_ns(case: dict) -> dict:
    """The real `observation.revise_namespaces`: the observer's own listing (`raw_bodies`), then one raw event at a time
    (as `process_discovered_namespace_event` calls it). Returns `insights.namespaces` after the listing and after every event."""
    from kopf._cogs.structs import references
    from kopf._core.reactor import observation
    ins = references.Insights()
    ins.namespaces.update(case.get("served0", []))
    pats = list(case["patterns"])
    observation.revise_namespaces(insights=ins, namespaces=pats, raw_bodies=[ns_body(n, s) for n, s in case["listing"]])
    after0 = sorted(str(n) for n in ins.namespaces)
    after = []
    for typ, name, shape in case["events"]:
        observation.revise_namespaces(insights=ins, namespaces=pats, raw_events=[{"type": typ, "object": ns_body(name, shape)}])
        after.append(sorted(str(n) for n in ins.namespaces))
    return {"after0": after0, "after": after}


def _selector_of(spec: dict) -> Any:
    import kopf
    from kopf._cogs.structs import references
    by = spec["by"]
    if by == "full":
        return references.Selector(spec["group"], spec["version"], spec["plural"])
    if by == "groupname":
        return references.Selector(spec["group"], spec["plural"])
    if by == "name":
        return references.Selector(spec["value"])
    if by == "category":
        return references.Selector(category=spec["value"])
    if by == "everything":
        return references.Selector(kopf.EVERYTHING)
    raise ValueError(f"unknown selector {spec!r}")


def _decorate(reg: Any, kind: str, spec: dict, hid: str) -> None:
    import kopf
    by = spec["by"]
    args: tuple = ()
    kw: dict = {}
    if by == "full":
        args = (spec["group"], spec["version"], spec["plural"])
    elif by == "groupname":
        args = (spec["group"], spec["plural"])
    elif by == "name":
        args = (spec["value"],)
    elif by == "category":
        kw = {"category": spec["value"]}
    elif by == "everything":
        args = (kopf.EVERYTHING,)

    async def fn(**_: Any) -> None:
        return None
    if kind == "event":
        kopf.on.event(*args, id=hid, registry=reg, **kw)(fn)
    elif kind == "index":
        kopf.index(*args, id=hid, registry=reg, **kw)(fn)
    elif kind == "daemon":
        kopf.daemon(*args, id=hid, registry=reg, **kw)(fn)
    elif kind == "timer":
        kopf.timer(*args, id=hid, registry=reg, interval=512.0, **kw)(fn)
    elif kind in ("create", "update", "delete", "resume"):
        getattr(kopf.on, kind)(*args, id=hid, registry=reg, **kw)(fn)
    else:
        raise ValueError(f"unknown handler kind {kind!r}")


def run_pure_res(case: dict) -> dict:
    """The real `observation.revise_resources` over a real registry (handlers of every kind, registered through kopf's own
    decorators) and a discovered set of resources. `_disable_unsuitable_resources` is wrapped: what it was handed (the
    watched resources so far, the selectors) and what it left. Also the verdicts of the real `Selector.check` /
    `is_specific` per handler: the model does not model `check`."""
    import kopf
    from kopf._cogs.structs import references
    from kopf._core.reactor import observation
    resources = [references.Resource(group=r["group"], version=r["version"], plural=r["plural"], kind=r["kind"], singular=r["kind"].lower(),
                                     shortcuts=frozenset(r.get("shortcuts", [])), categories=frozenset(r.get("categories", [])),
                                     subresources=frozenset(), namespaced=True, preferred=bool(r.get("preferred", True)),
                                     verbs=frozenset(r["verbs"])) for r in case["resources"]]
    ident = lambda r: [r.group, r.version, r.plural]  # noqa: E731
    reg = kopf.OperatorRegistry()
    for i, h in enumerate(case["handlers"]):
        _decorate(reg, h["kind"], h["sel"], f"h{i}")
    sels = [_selector_of(h["sel"]) for h in case["handlers"]]
    known = (reg._indexing.get_all_selectors() | reg._watching.get_all_selectors() | reg._spawning.get_all_selectors() |
             reg._changing.get_all_selectors())
    if not all(s in known for s in sels):
        raise RuntimeError("a selector built here is not the one the decorator registered")
    seen: dict = {}
    orig = observation._disable_unsuitable_resources

    def wrapped(*, resources: Any, selectors: Any) -> None:
        seen["before"] = sorted(ident(r) for r in resources)
        seen["selectors"] = len(selectors)
        seen["passed"] = [s in selectors for s in sels]
        orig(resources=resources, selectors=selectors)
        seen["after"] = sorted(ident(r) for r in resources)
    import logging
    observation._disable_unsuitable_resources = wrapped  # type: ignore[assignment]
    logging.disable(logging.CRITICAL)       # "… will not be served" warnings: thousands of them, not observations
    try:
        ins = references.Insights()
        observation.revise_resources(group=None, insights=ins, registry=reg, resources=resources)
    finally:
        logging.disable(logging.NOTSET)
        observation._disable_unsuitable_resources = orig  # type: ignore[assignment]
    return {"before": seen.get("before"), "after": seen.get("after"), "passed": seen.get("passed"),
            "watched": sorted(ident(r) for r in ins.watched_resources),
            "checks": [[ident(r) for r in resources if s.check(r)] for s in sels],
            "specific": [bool(s.is_specific) for s in sels]}
