"""C03 — level-triggered convergence across changes, restarts, kills and downtime.

Model: lean/Kopf/Model/C03_Loop.lean = the closed loop of ONE object once the environment is silent
(C05 cause detection on (last-handled, essence, memory flags) + C02 handling pass + `application.apply`:
patch → echo | delays → sleep → touch → echo | nothing → quiescent). Theorems: lean/Kopf/Props/C03.lean.
Tie (S): whole-operator histories (creates/edits/deletes, graceful stops, kills before/after the server
applied an in-flight write, downtimes with edits, lost requests/responses, echo delays, finitely many
handler failures) are run on the REAL operator; the silent tail of each is abstracted at its first pass and
compared pass by pass with the iterates of the Lean `loopStep` until quiescence.
Oracle: independent of Lean, from the property statement, on the server-side object, the request log and the
handler call log at quiescence.
"""
from __future__ import annotations

import json
from typing import Any

from .. import leanio
from ..core import Ctx, load_corpus
from . import sim_c03
from . import c14
from . import x01_reactor

ID = "C03"
LEVEL = "proof"
ENGINES = ["lean-model", "kopfsim"]
TIE = ("S: closed-loop step refinement — the silent tail of every simulated history of the real operator (after restarts, "
       "kills before/after an applied write, downtimes, lost responses) replayed pass by pass through the Lean `loopStep`; + composition (X01): whole-operator "
       "histories with late echoes and foreign writes replayed worker iteration by worker iteration through the composed step "
       "`X01.work` = C07 barrier decision + the C03 turn on the event's view + write-back with versions the model generates itself")
STRENGTH = "partial"
LEVEL_TEXT = (
    "Lean theorems for every state of the closed loop of one object (any records, last-handled state, deletion mark, own "
    "finalizer, memory flags incl. the in-memory set of resuming handlers already done (6c4463d), clock, handler set, lifecycle, "
    "limits, delays — no bounds). FULL (no guard beyond well-formedness): terminates_finitely_failing (the property's quantifier "
    "'every handler outcome script with finitely many failures': if from some retry number on every invocation is final, the loop "
    "reaches quiescence from EVERY state, every cause incl. deletion and the finalizer-adjusting turn composed with C06's "
    "`decision`; proof = terminates_or_fails + a failure budget that no turn raises — retry counters of selected handlers are never "
    "reset while the cycle is open — and every failure-consuming turn lowers), terminates_or_fails (NO assumption on the scripts: "
    "within the explicit bound = ranking function the loop is quiescent or consumes one scripted failure), terminates (outcomes "
    "final from now on: within the explicit bound of the state), final_state_deleted, deletion_converges(_finitely_failing), "
    "open_pass_leaves_event (all three patch classes: changing, constant, no request at all — C03-F7/7224f57 and C03-N1/b7bf39c), "
    "all_selected_completed, restart_safe (induction over every history of turns with arbitrary outcomes, edits, deletion requests, "
    "restarts, kills before/after the write, where EACH action has its own environment: selection, prematch, finalizer requirement "
    "may change with every edit; the state reached converges under finitely-failing scripts), accumulated_change (cause from "
    "last-handled and final essence only, at most one closing pass; the old/new/diff kwargs are checked by the oracle only), "
    "skip_path_purges, last_handled_written_only_by_closing_pass (NO hypothesis: a turn of the loop that changes the last-handled "
    "state is a turn whose handling pass is reached and CLOSED, and it writes the essence at hand — never a finalizer turn, a blind "
    "one, the purge of a FREE object; last_handled_kept_by_skipping_turns: nor a turn that skips the handlers for a carried patch or "
    "the consistency barrier; the oracle states the same of the real request log: 'last-handled stored by a cycle without a "
    "handling pass' — white-box m4), closing_ignores_unselected_records + pass_ignores_unselected_records (the pass after which every SELECTED "
    "handler has finished closes the cycle and purges every record whatever else the object carries, e.g. the unfinished record, same "
    "purpose, of a handler de-selected while retrying — the states of seed C03d, instance deselected_unfinished_instance; final_state "
    "and converges have no hypothesis excluding them). final_state / converges(_finitely_failing) speak of EVERY object that still exists "
    "at quiescence — seen by the framework or blind (no handler's filters accept it), in deletion (held by a foreign finalizer only) or "
    "not: a further event causes no write; 'no owned progress record remains' is GUARDED by `prematch` AGAIN (/repo ad4ec08 took the "
    "blind purge of 423b86f back: it went by handler id and annotation prefix, which every deployment of the same operator code shares "
    "— C15-F9): blind_left_alone (a blind object is not written to at all) and the genuine negative blind_witness (C03-F2, OPEN again "
    "by decision; corpus F2); the FREE case stays unguarded (free_purges, 40d09eb; free_witness = regression of the OLD turn "
    "`loopStepOld`, C03-N4). 'last-handled = essence' is stated for the objects the property speaks of (the framework sees it, it is not in "
    "deletion: for a blind or FREE object no handler is selected and the last-handled state is left alone BY DESIGN so that the "
    "changes made meanwhile arrive as ONE accumulated update; corpus blind_then_matching_again). "
    "PARTIAL, each with the exact guard in its statement and a proved witness "
    "that the guard is needed, replayed on the real code through the corpus: completed_against_final_partial under 'the handler has not finished yet — by a record "
    "of ITS OWN, one the pass takes over (`vis`) — when the final state arrives' — absorbed_change_witness (OPEN C03-F4). The second former "
    "witness (C03-N3: one id registered for update and delete, the finished update record taken for the deletion handler's) is REPAIRED "
    "by f7d6401 and the model follows: the handling pass is C02's `cycleB` (pass_is_cycleB: the namesakes' records are left out of the "
    "loaded state; `Env.boundH` says which selected handlers are declared for the cause), every theorem (termination, ranking function, "
    "failure budget, final_state, converges, restart_safe) is re-proved over the records TAKEN OVER, the guard of "
    "completed_against_final_partial no longer counts a namesake's finished record, and shared_id_regression shows the witness handled "
    "(before: nothing invoked, object gone; now: `h` invoked with retry 0, completes in the closing pass, then the release). What "
    "f7d6401 LOST is namesake_children_leak_witness (OPEN C03-N7, new): the namesake's record is left out with its subrefs, the records of "
    "its sub-handlers survive every purge on an object that lives on (held by a foreign finalizer); all hypotheses of `converges` hold — "
    "its conclusion speaks of the owned ids; the oracle, which looks at every annotation, sees it. OPEN C03-N8 (= C11-F6; oracle only: "
    "the sub-handlers of a function stacked for update + delete inherit the update's children records, a deletion sub-handler is never "
    "called; Lean side in C02: namesake_children_inherit_witness). terminates_stable_partial is "
    "`terminates` transported under the guard FiltersStable (filters do not read what the framework writes; "
    "filtersStable_of_essence gives the sufficient condition 'filters read the essence only') — unstable_filters_witness: a "
    "deletion handler whose filter reads the framework's own finalizer makes the loop add and remove it for ever (replayed on the "
    "real operator turn by turn, corpus G1; a misuse, not a finding). "
    "Cycles that START with a carried patch (`memory.remaining_patch`; how it gets there is C08's transport, not modelled) have "
    "their own turn `loopStepC`: without one it is the ordinary turn (carried_none); with one the handlers (and a release) are "
    "skipped, and either the patch still changes the object and its echo re-triggers the cycle (carried_ops_leaves_event), or it has "
    "become a no-op: nothing is sent for it, but the turn returns a zero delay, the object is touched and the touch's echo is pending "
    "(carried_noop_comes_back: 608a57d as reworked by 02af7ce — the head block of 608a57d, which forgot such a patch "
    "before the cycle, is gone); carried_converges: FULL convergence whatever patch the first cycle starts with. The former negation "
    "is kept as a regression of the OLD turn `loopStepCOld`: carried_noop_witness, carried_noop_blocks_release_witness (C03-N2, two "
    "corpus witnesses), all tied on the real operator's cycles. "
    "Cycles held back by C07's consistency barrier (the worker still awaits the echo of its own last write) have the turn "
    "`loopStepI`: with no patch accumulated it is the same turn taken at the deadline (inconsistent_empty); with one, the wait AND the "
    "handlers are skipped but — since 30557a0 — the remaining waiting time comes back as a delay: `apply` sleeps it and touches the "
    "object (inconsistent_nonempty_revisited: an event is pending again, not before the deadline, records and last-handled state as "
    "they were); inconsistent_converges: FULL convergence whatever the view of the first turn. The former negation is kept as a "
    "regression of the OLD turn `loopStepIOld`: inconsistent_nonempty_witness (C03-N6, two corpus witnesses, tied on the real "
    "operator's cycles; repaired by 30557a0). "
    "Events that arrive WHILE `apply` sleeps (Model/C03_Relist; seed C03f): the watch stream re-established re-lists the object AS IT "
    "IS (type=None, the version processed last); `loopStepR`: the sleep is interrupted without the touch and the listed event is "
    "pending (relist_in_sleep_leaves_event, every state); relist_converges: FULL convergence across such a re-listing; the worker "
    "that drops a listed event repeating the processed version (`loopStepRSkip`) is stuck for good from EVERY such state "
    "(relist_skipped_stuck) — relist_skipped_witness, replayed through the corpus (relist_*); tied on the real operator's cycles "
    "(`relists` of C03.run: the interrupted turn and the re-armed sleep, tick by tick). "
    "WHERE the loop's `base` comes from (Model/C03_Change; seed C03h): `baseClass` = the class none/same/diff that `_detect_causes` hands to "
    "the cause detection, computed from the JSON values by C04's `diff` (`diff_iter`, first case `_same`); FULL, no bound on sizes or "
    "depths: outstanding_change_detected (two well-formed values that differ as JSON values up to null-valued keys => class diff => the "
    "loop's cause is UPDATE), no_change_no_cause (the converse), list_length_change_detected (lists of different lengths at any path: "
    "appended, dropped, filled, emptied), list_prefix_variant_witness (`_same` over zip without the lengths: an appended item / an "
    "emptied list is a NO-OP cause although the values differ — the seeded variant, corpus H1/H2), baseClassBy_same; tied per cycle of "
    "every history (`C03.change`). "
    "Repaired in /repo and kept as regressions: C03-F1 (2ae938f), C03-F3 (d1b2dc4), C03-F5 (1c8f3dd, finalizer "
    "functions only — the rest was C03-N2, 608a57d + 02af7ce), C03-F7 (7224f57), C03-N1 "
    "(b7bf39c, sleeping_handler_woken_instance), C03-N3 (f7d6401, shared_id_regression), C03-N4 (40d09eb), C03-N6 (30557a0), 5dff3c1 (lost echo + constant on.event result). C03-F6 (name-addressed patches "
    "after delete+recreate) lies in C08's part and is found by the oracle only; C03-N5 (a graceful stop that never finished: an "
    "observation on C19/C20's ground found by these histories, = C20-F8) is repaired by ab6fb15 and kept as a regression. 'A further event causes no write' reads "
    "`writes + cp env`: with a constant patch one request per event is sent, changing nothing. ORACLE/TIE ONLY: changes made while "
    "down are seen after the start (`restart` sets `pending` by definition; tie), old/new/diff of the accumulated change, delivery "
    "timings (one `pending` flag; stale/suppressed cycles are C07's). The model is hand-written and tied per turn to "
    "whole-operator simulations incl. finalizer turns, deletion tails, foreign finalizers, blind turns (nothing written) and FREE purges, stacked registrations (one id, two causes), patch functions "
    "without operations, held-back cycles that come back after the deadline; "
    "daemons (C09), whether the consistency barrier is up (C07), patch conflicts and how a patch comes to be carried (C08) are outside this model.")
THEOREMS = [("Kopf.Props.C03", "Kopf.C03." + n) for n in [
    "terminates_or_fails", "terminates", "terminates_finitely_failing", "final_state", "final_state_deleted",
    "converges", "converges_finitely_failing", "deletion_converges", "deletion_converges_finitely_failing",
    "all_selected_completed", "completed_against_final_partial", "absorbed_change_witness",
    "open_pass_leaves_event", "sleeping_handler_woken_instance", "invoked_once_after_last_change", "restart_safe",
    "accumulated_change", "blind_left_alone", "blind_witness", "free_purges", "free_witness", "shared_id_regression",
    "pass_is_cycleB", "free_turn_is_cycleB", "namesake_children_leak_witness",
    "carried_none", "carried_noop_comes_back", "carried_ops_leaves_event", "carried_converges",
    "carried_noop_witness", "carried_noop_blocks_release_witness",
    "inconsistent_empty", "inconsistent_nonempty_revisited", "inconsistent_converges", "inconsistent_nonempty_witness",
    "skip_path_purges", "last_handled_written_only_by_closing_pass", "last_handled_kept_by_skipping_turns",
    "closing_ignores_unselected_records",
    "relist_in_sleep_leaves_event", "relist_converges", "relist_skipped_stuck", "relist_skipped_witness",
    "pass_ignores_unselected_records", "deselected_unfinished_instance", "terminates_stable_partial", "unstable_filters_witness", "filtersStable_of_essence",
    "outstanding_change_detected", "no_change_no_cause", "list_length_change_detected", "list_prefix_variant_witness", "baseClassBy_same"]]
# the composed reactor (C03 loop + C07 barrier + C08 version test, versions generated by the model): Kopf/Props/X01.lean
THEOREMS += x01_reactor.THEOREMS
DRIVER_MODULES = ["C03", "X01"]
RULE = ("seeded histories of one object: 1-4 change handlers (create/update/resume/delete, label filters, retries/timeout/backoff/"
        "errors, scripts with finitely many temporary/arbitrary/permanent failures then ok, handlers that take time (8 %), ONE id "
        "registered for two causes (10 %; histogram namesake_record_not_inherited), three lifecycles), 0-6 external ops (spec edits, reverts, label flips, annotation edits, "
        "status-only edits, bursts, delete(+recreate), graceful stop / kill / kill right before or right after the server applied "
        "the next PATCH, each with a downtime with or without edits, lost requests/responses, a foreign edit followed by a watch "
        "stream cut at once (undelivered echoes lost; re-watch or 410 + re-list)), echo delays, watch reconnects every 32 s (8 %), "
        "on.event handlers returning a constant (8 %) or appending an idempotent patch function (6 %), handlers using patch.fns "
        "with an external edit slipped between merge-patch and JSON-patch (10 %; in the constant variant the edit fulfils the "
        "function, which is then carried as a no-op), a foreign finalizer on the object (7 %, let go at the end in half of them), "
        "objects existing before the first start, objects whose essence is empty ({} / empty spec / status only); then a silent "
        "tail long enough for every scripted failure. A de-selection family (gen_deselect, a quarter of the budget): 2-3 update "
        "handlers with field= filters on different fields (the victim label-filtered in 20 %), the victim retrying/sleeping when "
        "the next change reverts its field and changes another (another handler of the SAME cause kind is selected), stop / kill / "
        "kill before-after the PATCH with the change made during the downtime or around it, then the other field / the victim's "
        "field / both change again or nothing does (histograms family_class, unselected_unfinished_same_purpose). A composition family "
        "(add_spawning, 12 % / 10 % of the two generators, drawn from a generator of its own so that the rest of the scenario is unchanged): "
        "a timer (returns nothing) or a daemon (obeys its stop flag) on the resource next to the change handlers — the framework then "
        "classifies every cycle from the LIVE body it keeps for them and requires its finalizer for every object — mostly followed by an "
        "edit whose event is lost with a cut of the watch stream (410): the re-listing has to bring the change to the cycle (histogram "
        "family_class spawning(...)); judged by the oracle, skipped by the tie (`spawning-handlers`). A delivery-timing family (add_relists, 30 % / 25 %, a generator of its own): 1-4 RE-LISTINGS of the kind "
        "with nothing changed (`relist`: other kinds' traffic moved the cluster-wide version on, the history is compacted, the watch is "
        "answered 410 — as an ERROR event or as HTTP 410 — and kopf lists again: the object arrives as it is, same version) inside the "
        "sleeps till a retry, at their ends, in the tick of an edit, during downtimes, in the silent tail and after it settled "
        "(histograms relisted_event, family_class relist:*). One case = one history; distinct & non-trivial = distinct (outstanding "
        "change, restart kinds, tail pass shapes, final classification) with at least one handler-reason pass or restart. Besides, "
        "the corpus holds one history OUTSIDE the quantifier (`guard_witness`: a deletion handler whose filter reads the framework's "
        "own finalizer): never judged by the oracle, its cycles are compared turn by turn with the Lean instance of "
        "unstable_filters_witness (the loop never settles). A family of the KINDS of essential changes (add_shapes, 30 % / 25 %, a generator of "
        "its own; seed C03h): every integer a spec field takes stands for a structured value (a list of strings, numbers, mappings with "
        "nested lists and mappings, plus a sibling key of the spec that comes and goes), made from the value at hand by ONE change of a "
        "kind of SHAPE_KINDS — list grown/shrunk at the tail, filled, emptied, at the head, item replaced, re-ordered; the same one level "
        "down; key added/removed in a nested mapping or the spec; nested scalar changed; number turned into the boolean Python takes for "
        "equal — injective per field, so reverts, field= selections and all timing/restart/fault structure are what they were (histograms "
        "essential_change_kind, outstanding_change_seen_by_a_cycle, tie_change; null vs absent is not generated: C04-F10)")
TRUSTED = ["harness/props/sim_c03.py `relist`: the fake server's resource versions are cluster-wide; `compact()` alone never expired the "
           "version the operator resumes from unless an object of the kind had changed, so a same-version re-listing could not occur before",
           "harness/sim (virtual-time loop, fake API server, scripted handlers, attribute-level observation of kopf)",
           "harness/props/sim_c03.py (kill hooks on the in-flight PATCH, windowed connection faults, stream cuts, patch-function action)",
           "harness/sim/observe.py: the placeholder that tells a written `memory.fully_handled_once` from an unwritten one during a pass reads "
           "like the flag's real value (white-box m3: an always-falsy placeholder hid a change that reads the flag inside the pass)",
           "abstraction of the tail's first pass: records decoded with kopf's own progress storage (C16's subject); "
           "last-handled vs essence in the tail's request is still kopf's own verdict (`cause.diff`), but that verdict is no longer taken on "
           "trust: for every cycle of every history the class none/same/diff is recomputed from the object's body alone (independent "
           "readings py_base / py_essence) by Lean `C03.baseClass` (C04's `diff`) and compared (`C03.change`), and the oracle states "
           "'last-handled differs from the essence as JSON values => a change is detected' per cycle"]
ASSUMPTIONS = ["GUARD FiltersStable: selection / prematch / finalizer requirement / handler behaviour do not depend on what the "
               "framework itself writes (records, last-handled, touch-dummy, finalizer, status.<handler>); generated filters are "
               "label filters and field= filters on spec fields of update handlers (which handler a field= filter selects for a "
               "change is C15's subject: here the oracle reads it off the docs — the field differs between last-handled and final "
               "state — and the model takes the implementation's `match` as input; no when= filters; a filter reading "
               "status.<handler> is outside the guard); "
               "without the guard nothing is claimed (Props: terminates_stable)",
               "'finitely many failures' = FinitelyFailing: ∃ N, every invocation with retry ≥ N is final (the generated scripts: "
               "finitely many temporary/arbitrary/permanent failures, then success). terminates_finitely_failing gives quiescence "
               "without a bound in terms of the first state alone; the explicit bound holds per failure-free stretch "
               "(terminates_or_fails) and for AllFinal (terminates)",
               "an object NO handler matches (any more) is outside the operator's scope: the oracle does not require its "
               "last-handled annotation to equal the essence (an outdated one is what makes the changes made meanwhile arrive "
               "as ONE accumulated update when it matches again); leftover progress RECORDS on it are a violation (the "
               "finding C03-F2: repaired by 423b86f, OPEN again since ad4ec08 took that back). Likewise for an object in deletion "
               "that only others hold (formerly C03-N4, repaired by 40d09eb)",
               "progress records live in annotations (the default storage); StatusProgressStorage / SmartProgressStorage and "
               "sub-handlers (but for the corpus witnesses N7, N8), when= filters, field= filters with value=/old=/new= are not generated "
               "(C16's, C13's, C15's subjects)",
               "`Env.boundH` (is the handler selected under this id for this cause declared for the cause: on.create/update/delete — or a "
               "mix-in: resuming, field) is read off the decorators' gates as the implementation reports them (`decls`, C05's gate) for the "
               "registrations that pass gate and match; ONE id registered for two causes is generated with the same filters and limits "
               "for both registrations (one function, stacked decorators); an id registered with AND without a reason (on.resume + "
               "on.create on one function, where `_deduplicated` keeps the first) is not generated",
               "`memory.remaining_patch` (transformation functions carried over after a rejected JSON-patch): how a patch comes to "
               "be carried is C08's transport and not in the model; what a cycle that STARTS with one does is (`loopStepC`: the "
               "handlers are skipped; it is re-sent, or — a no-op — nothing is sent and the object is touched after a zero delay "
               "(608a57d + 02af7ce, formerly C03-N2)) and is tied when it is the tail's first cycle and no "
               "other function is sent in the tail; every other tail in which a function is sent or carried is skipped by the tie "
               "(`user-patch-fns`, counted); the oracle judges all of them",
               "`Env.subs` lists every sub-handler id occurring in stored or returned subrefs (else `writes` may miss a "
               "purge-only PATCH; termination and final_state do not depend on it); no sub-handlers are generated (their passes "
               "are C02's `cycle2` / C13's subject)",
               "`Env.constPatch` (a patch that changes nothing in every cycle, e.g. an on.event handler returning a constant) is "
               "modelled for the request count and the sleep/touch decision, a patch of functions without operations as 'no "
               "patch'; NOT modelled: `apply` adds the touch-dummy cleanup to ANY non-empty patch, so with such a patch in every "
               "cycle the cycle after a keepalive touch that wakes nobody does change the object (one more PATCH + echo per "
               "keepalive round) — such tails are skipped by the tie (`const-patch+keepalive`, counted); likewise any tail cycle on a body "
               "that still carries a touch-dummy (e.g. the operator was killed right after a touch) in which no handler runs "
               "(`const-patch+dummy`, counted), and a tail in which the echo of the merge half of a two-request write is "
               "processed as a cycle of its own (held back by C07's barrier, but sending the constant patch: "
               "`const-patch+mid-tail-echo`, counted). The oracle judges those histories",
               "handlers that take time are generated and judged by the oracle; the model's pass has ONE clock reading, so a tail "
               "in which a handler call takes time is skipped by the tie (`handler-takes-time`, counted)",
               "handlers return no result (no status.<handler> write besides the progress record), except on.event constants",
               "daemons and timers next to the change handlers are generated (a timer that returns nothing, a daemon that obeys its stop "
               "flag: neither writes to the object) and judged by the oracle; the model has `spawning = false` (their delays, the "
               "finalizer they require and the live body are C09/C10's), such tails are skipped by the tie (`spawning-handlers`, counted)",
               "ORACLE readings made precise by the white-box review: (1) the last-handled state may be stored only by a cycle that ran a "
               "handling pass (request log -> cycle -> `process_changing_cause` reached); (2) the open finding C03-F4 (a change absorbed by a "
               "cycle that is still OPEN) is recognised only if last-handled was NOT written with or after the handler's success — a finished "
               "record that outlives the closing of its own cycle is a violation of its own; (3) the deletion handlers that have to complete "
               "are those whose filters accept the object while the framework still holds it (the last marked version carrying its "
               "finalizer), not those that match a body edited after a legitimate release",
               "randomized/shuffled lifecycles are not modelled",
               "whether C07's consistency barrier is up is not modelled (`consistent = true`); a held-back cycle is tied only in the "
               "shape of `loopStepI … true` (deadline ahead, non-empty patch that changes nothing: the wait and the handlers are "
               "skipped, `apply` sleeps the remaining waiting time and touches the object (30557a0) — a cycle of that shape of which "
               "nothing came, the object's last, is C03-N6 and breaks the tie); "
               "the generator reaches it through a foreign edit + stream cut (410) before the echo of an own write is delivered, "
               "with an on.event handler that returns a constant or appends an idempotent function",
               "the finalizer-removing turn on a BLIND object is a single JSON-patch again (ad4ec08; corpus "
               "blind_blocked_leftovers_two_requests is tied like every other tail now)",
               "tail cycles the model has no turn for are dropped and COUNTED (`tail_leading_cycles_dropped`): cycles held back by "
               "the consistency barrier (C07), cycles on a view older than the server's state (echoes still in flight when the "
               "environment fell silent), a finalizer edit that also cleans the touch-dummy (two requests, two echoes), the echo "
               "of the merge half of a two-request write inside the tail"]

OWN_PREFIX = "kopf.zalando.org/"
LAST_HANDLED = OWN_PREFIX + "last-handled-configuration"
FINALIZER = "kopf.zalando.org/KopfFinalizerMarker"
OTHER_FINALIZER = "operators.example.org/held-by-the-operator"


ASSUMPTIONS = ASSUMPTIONS + x01_reactor.ASSUMPTIONS
TRUSTED = TRUSTED + x01_reactor.TRUSTED

def own_fin(sc: dict) -> str:
    """The framework's finalizer in this scenario: `settings.persistence.finalizer` when configured, else kopf's default
    name (which is then, on an object that carries it, somebody else's: white-box review C03 m8)."""
    return (sc.get("settings") or {}).get("persistence.finalizer") or FINALIZER
KEY = "kopfexamples/ns/a"
OBJ = "/kopfexamples/"
KINDS = ["create", "update", "delete", "resume"]
TQ = 16.0

SIG_F1 = {"site": "process_changing_cause", "shape": "skip path (handler reason, no selected handlers): cycle closed, stale progress record of a no-longer-selected handler never purged"}
SIG_F2 = {"site": "process_resource_causes", "shape": "object stopped matching every handler (prematch): stale progress record stays on the object"}
SIG_F3 = {"site": "process_changing_cause", "shape": "change reverted to the last-handled state while a handler was retrying: no-op cause leaves its progress record forever"}
SIG_F7 = {"site": "application.apply", "shape": "sleep skipped because of a patch that changes nothing on the server: no event follows, the delayed handlers are never woken"}
SIG_F6 = {"site": "patching.patch_obj", "shape": "request target uid ≠ computed-for uid: the cycle of a deleted object wrote its results onto the successor created under the same name"}
SIG_F5 = {"site": "process_resource_causes+apply", "shape": "cycle entered with a carried remaining patch that produces no request: state-dependent handlers skipped, nothing written, no further event — handling never resumes"}
SIG_N1 = {"site": "application.apply", "shape": "non-empty patch that yields no request (only patch functions without operations) counted as a change: sleep and touch skipped, no event follows, delayed handlers never woken"}
SIG_N2 = {"site": "process_resource_causes+apply", "shape": "cycle entered with a carried handler patch function that has become a no-op: handlers skipped, nothing written, no further event — the newer change is never handled"}
SIG_N3 = {"site": "process_changing_cause", "shape": "one handler id registered for two causes: the finished record of the other cause is re-purposed, the handler of the current cause is never called"}
SIG_N4 = {"site": "process_resource_causes", "shape": "object marked for deletion, not held by the framework's finalizer but by another: out of sight, stale progress record / last-handled stay"}
SIG_N5 = {"site": "watching.streaming_block", "shape": "graceful stop never finishes: the watcher's cancellation is swallowed (stop requested while the watcher leaves its streaming block after a 410)"}
SIG_N6 = {"site": "process_resource_causes", "shape": "cycle still awaiting the version of its own last write, with a non-empty patch that brings no event: the wait for the consistency deadline is skipped, the handlers are skipped, no event follows — handling never resumes"}
SIG_F4 = {"site": "process_changing_cause", "shape": "handler finished on an older state of a still-open cycle is not re-run for the newer state, yet last-handled becomes the newer state"}
SIG_N7 = {"site": "process_changing_cause", "shape": "namesake's record left out with its subrefs: the records of its sub-handlers are never purged"}
SIG_RL = {"site": "queueing.worker", "shape": "the sleep till the handlers' retry was interrupted by a new event (e.g. the object re-listed as it is when the watch stream was re-established), and that event was never processed: nothing sleeps, nothing touches the object, no event follows — handling never resumes"}
SIG_N8 = {"site": "subhandling.execute", "shape": "one function registered for two causes runs sub-handlers: a sub-handler of the current cause inherits the finished record of its namesake's sub-handler and is never called"}


# ---- independent readings ---------------------------------------------------------------------------

def py_essence(body: dict) -> dict:
    """The essential state as the property names it: everything but status, system metadata and the
    framework's own annotations (written here from the docs, not from kopf's code)."""
    ess = {k: v for k, v in body.items() if k not in ("apiVersion", "kind", "metadata", "status")}
    md = body.get("metadata") or {}
    m: dict[str, Any] = {}
    if md.get("labels"):
        m["labels"] = dict(md["labels"])
    ann = {k: v for k, v in (md.get("annotations") or {}).items()
           if not k.startswith(OWN_PREFIX) and k != "kubectl.kubernetes.io/last-applied-configuration"}
    if ann:
        m["annotations"] = ann
    if m:
        ess["metadata"] = m
    return ess


def py_base(body: dict) -> dict | None:
    raw = ((body.get("metadata") or {}).get("annotations") or {}).get(LAST_HANDLED)
    if raw is None:
        return None
    try:
        return json.loads(raw)
    except ValueError:
        return {"<unparsable>": raw}


def py_diff(a: Any, b: Any, path: tuple = ()) -> list:
    if a == b:
        return []
    if a is None:
        return [["add", list(path), None, b]]
    if b is None:
        return [["remove", list(path), a, None]]
    if isinstance(a, dict) and isinstance(b, dict):
        out = []
        for k in sorted(set(a) | set(b)):
            out += py_diff(a.get(k), b.get(k), path + (k,))
        return out
    return [["change", list(path), a, b]]


def py_json_differs(a: Any, b: Any) -> bool:
    """Do the two differ AS JSON VALUES (RFC 8259: `true` is not `1`; mappings unordered, lists ordered and of a length)?"""
    return json.dumps(a, sort_keys=True, separators=(",", ":")) != json.dumps(b, sort_keys=True, separators=(",", ":"))


def py_change_kind(a: Any, b: Any) -> str:
    """What kind of difference (for the histograms only; nothing is judged by it)."""
    def pre(x: Any, y: Any) -> bool:       # equal but for lists of which one is a prefix of the other
        if isinstance(x, dict) and isinstance(y, dict):
            return set(x) == set(y) and all(pre(x[k], y[k]) for k in x)
        if isinstance(x, list) and isinstance(y, list):
            return all(pre(p, q) for p, q in zip(x, y))
        return not py_json_differs(x, y)
    def keys(x: Any, y: Any) -> bool:      # some mapping has a key the other side has not
        if isinstance(x, dict) and isinstance(y, dict):
            return set(x) != set(y) or any(keys(x[k], y[k]) for k in x)
        if isinstance(x, list) and isinstance(y, list):
            return any(keys(p, q) for p, q in zip(x, y))
        return False
    if pre(a, b):
        return "nothing but the length of a list (the shorter is a prefix of the longer)"
    if a == b:
        return "a number vs. the boolean Python takes for equal"
    if keys(a, b):
        return "a key added / removed (with or without more)"
    return "values changed (scalars, list items, lists not prefix of one another)"


def py_matches(h: dict, body: dict) -> bool:
    labels = (body.get("metadata") or {}).get("labels") or {}
    for k, v in (h.get("opts", {}).get("labels") or {}).items():
        if v == "__PRESENT__":
            if k not in labels:
                return False
        elif v == "__ABSENT__":
            if k in labels:
                return False
        elif labels.get(k) != v:
            return False
    fld = h.get("opts", {}).get("field")
    if fld and py_field(body, fld) is _ABSENT:
        return False        # a field filter (no value given) asks for the field to be there
    return True


def kid(h: dict) -> str:
    """The id under which the framework knows (and records) the handler: a `field=` filter is appended to it
    (`@on.update(field='spec.x', id='hx')` is `hx/spec.x`; docs: handler ids)."""
    fld = h.get("opts", {}).get("field")
    return f"{h['id']}/{fld}" if fld else h["id"]


_ABSENT = object()


def py_field(ess: Any, path: str) -> Any:
    cur = ess
    for part in path.split("."):
        if not isinstance(cur, dict) or part not in cur:
            return _ABSENT
        cur = cur[part]
    return cur


def py_selected_for_change(h: dict, old: dict | None, new: dict) -> bool:
    """Is the handler selected for the outstanding change old → new, as far as its `field=` filter goes (docs: an
    update handler with a field is called when THAT field changed; for a creation the field has to be there)."""
    fld = h.get("opts", {}).get("field")
    if not fld:
        return True
    if old is None:
        return py_field(new, fld) is not _ABSENT
    a, b = py_field(old, fld), py_field(new, fld)
    return (a is not _ABSENT or b is not _ABSENT) and (a is _ABSENT or b is _ABSENT or a != b)


def own_record(body: dict, hid: str) -> dict | None:
    raw = ((body.get("metadata") or {}).get("annotations") or {}).get(OWN_PREFIX + hid.replace("/", "."))
    if raw is None:
        return None
    try:
        return json.loads(raw)
    except ValueError:
        return {"<unparsable>": raw}


def _changing(sc: dict) -> list[dict]:
    return [h for h in sc["handlers"] if h["kind"] in KINDS]


def _all_ids(sc: dict) -> list[str]:
    out = []
    for h in _changing(sc):
        out.append(kid(h))
        out += [f"{kid(h)}/{s['id']}" for s in h.get("sub", [])]
    return out


def _calls_of(tr: dict, c: dict, kind: str | None = None) -> list[dict]:
    """The handler calls made inside processing cycle `c` (matched by incarnation, object, id+retry and time)."""
    inv = {(i["id"], i["retry"]) for i in c["invoked"]}
    return [call for call in tr["calls"]
            if call["inc"] == c["inc"] and call["uid"] == c["uid"] and (call["id"], call.get("retry")) in inv
            and c["t0"] <= call["t"] <= c.get("t1", call["t"]) and (kind is None or call["kind"] == kind)
            # the handler is given the body of the cycle's event: a cycle that starts in the very tick the one before
            # ends (a handler that took time, the next event already waiting) is told apart by the resource version
            and (call.get("rv") is None or c.get("rv") is None or str(call["rv"]) == str(c["rv"]))]


def _canon_diff(d: Any) -> list:
    return sorted(([str(x[0]), list(x[1]), x[2], x[3]] for x in (d or [])), key=leanio.canon)


# ---- facts about one history ---------------------------------------------------------------------------

class Facts:
    """Server-side and trace-level facts every clause of the oracle reads."""

    def __init__(self, sc: dict, tr: dict):
        self.sc, self.tr = sc, tr
        self.fin = own_fin(sc)
        self.end = float(sc["end"])
        self.tq = float(sc.get("tq", TQ))
        self.t_sil = float(sc["t_silence"])
        self.hist = tr["history"].get(KEY, [])
        self.final = tr["final_objects"].get(KEY)
        self.patches = [r for r in tr["requests"] if r["method"] == "PATCH" and OBJ in r["path"]]
        self.uid = (self.final or {}).get("metadata", {}).get("uid")
        if self.uid is None and self.hist:        # the object is gone: the subject is the last one that existed
            self.uid = self.hist[-1]["body"]["metadata"].get("uid")
        self.last_body = next((v["body"] for v in reversed(self.hist)
                               if v["event"] != "DELETED" and v["body"]["metadata"].get("uid") == self.uid), None)
        # the last version whose essence (or existence / deletion mark) differs from its predecessor: nobody but the
        # environment changes those
        # (t_for / rv_for: the last external write of any kind — the framework writes neither essence nor status here)
        self.t_ess, self.rv_ess = 0.0, 0
        self.t_for, self.rv_for = 0.0, 0
        prev = prev_st = None
        for v in self.hist:
            b = v["body"]
            if b["metadata"].get("uid") == self.uid and v["event"] == "DELETED" and prev is not None and prev_st[1]:
                # the object went away because the OTHER party removed its finalizer: an action of the environment
                self.t_for, self.rv_for = float(v["t"]), int(b["metadata"]["resourceVersion"])
            if b["metadata"].get("uid") != self.uid or v["event"] == "DELETED":
                prev = None
                continue
            cur = (py_essence(b), bool(b["metadata"].get("deletionTimestamp")))
            st = (b.get("status"), sorted(x for x in (b["metadata"].get("finalizers") or []) if x != self.fin))
            if prev is None or cur != prev:
                self.t_ess, self.rv_ess = float(v["t"]), int(b["metadata"]["resourceVersion"])
            if prev is None or cur != prev or st != prev_st:
                self.t_for, self.rv_for = float(v["t"]), int(b["metadata"]["resourceVersion"])
            prev, prev_st = cur, st
        self.ess = py_essence(self.final) if self.final else None
        self.marked = bool(self.final and self.final["metadata"].get("deletionTimestamp"))
        self.blind = bool(self.final) and not any(py_matches(h, self.final) for h in _changing(sc))
        # passes on a body that already carries the final essence
        self.fin_cycles = [c for c in tr["cycles"] if c["uid"] == self.uid and self.final is not None
                           and c["event_type"] != "DELETED" and py_essence(c["body"]) == self.ess and c["t0"] >= self.t_ess]
        self.last_inc = tr["incarnations"][-1]["inc"] if tr.get("incarnations") else None
        # writes computed in a cycle of ANOTHER object (a deleted predecessor under the same name) that landed on this one
        self.cross_uid = [r for r in self.patches if self.uid and r.get("cycle_uid") and r.get("target_uid") == self.uid
                          and r["cycle_uid"] != self.uid and isinstance(r.get("response"), int) and r["response"] < 300]
        # lost wake-up: the object's last processing cycle started with a carried remaining patch (after a 422 on a
        # finalizer JSON-patch), skipped the handlers for that reason and then issued no request at all
        mine = [c for c in tr["cycles"] if c["uid"] == self.uid and c["inc"] == self.last_inc and c["event_type"] != "DELETED"]
        who = f"op#{self.last_inc}"
        self.lost_wait = False       # the last cycle skipped the consistency wait for a patch that brought no event
        self.lost_wakeup = None      # "finalizer" | "handler": which kind of carried function swallowed the cycle
        self.idle_fns = False        # the last cycle had delays and a patch of functions only that produced no request
        if mine and self.final is not None:
            c = mine[-1]
            mb = c.get("mem_before") or {}
            ap = c.get("apply") or {}
            silent = not any(r.get("who") == who and r["wall"] >= c["t0"] for r in self.patches)
            if c.get("pcc") is None and mb.get("remaining_patch") and silent:
                names = set(ap.get("fns") or [])
                self.lost_wakeup = "finalizer" if names and names <= {"block_deletion", "allow_deletion"} else "handler"
                prev = (mine[-2].get("apply") or {}) if len(mine) > 1 else {}
                if prev.get("remaining_fns") is None:
                    self.lost_wakeup = "stale"      # carried although the cycle before had no conflict
            elif ap.get("delays") and not ap.get("patch") and ap.get("fns") and silent:
                self.idle_fns = True
            # lost wake-up in the consistency wait: the last cycle was held back by the barrier (it still awaits the version of
            # the framework's own last write: that echo was lost, e.g. with a cut watch stream) with the deadline still ahead;
            # its patch was non-empty (an on.event result, transformation functions), so the wait was skipped ("the patch will
            # bring the next event") together with the handlers — but the patch changed nothing: no version of the object after it
            ct = c.get("consistency_time")
            quiet = not any(float(v["t"]) >= c["t0"] and v["body"]["metadata"].get("uid") == self.uid for v in self.hist)
            self.lost_wait = bool(c.get("pcc") is None and ct is not None and c.get("cause") is not None
                                  and c["cause"].get("reason") in KINDS and not mb.get("remaining_patch")
                                  and float(ct) > float(c.get("loop_t0", ct)) and (ap.get("patch") or ap.get("fns"))
                                  and not (set(ap.get("fns") or []) & {"block_deletion", "allow_deletion"}) and quiet)
        # lost wake-up at the worker: the object's last cycle had delays to sleep, its sleep was cut short (it ended before the
        # earliest delay elapsed) without the touch — the framework's "sleeping was interrupted by new changes": an event for
        # the object had arrived (every delivery timing is in the quantifier: e.g. the object re-listed AS IT IS when the watch
        # stream was re-established) — and no cycle ever processed that event, although the operator lived on
        self.lost_interrupt = None
        if mine and self.final is not None:
            c = mine[-1]
            ap = c.get("apply") or {}
            ds = [float(d) for d in (ap.get("delays") or [])]
            alive = not any(m["what"] in ("killed", "stopped") and not m.get("final") and m.get("inc") == self.last_inc for m in tr["marks"])
            sent = any(r.get("who") == who and r["wall"] >= float(ap.get("t", c["t0"])) for r in self.patches)
            if ds and alive and not sent and c.get("error") is None and ap.get("t_end") is not None \
                    and float(ap["t_end"]) < float(ap["t"]) + min(min(ds), float(_KEEPALIVE())) and float(ap["t_end"]) < self.end - self.tq:
                lists = [r["wall"] for r in tr["requests"] if r["method"] == "GET" and r["path"].rstrip("/").endswith("/kopfexamples")
                         and not (r.get("query") or {}).get("watch") and float(ap["t"]) <= r["wall"] <= float(ap["t_end"]) + 1.0]
                self.lost_interrupt = {"cycle": c["i"], "slept_from": ap["t"], "interrupted_at": ap["t_end"], "delays": ds,
                                       "listings_of_the_kind_then": lists}
        # what the cross-uid writes carried: annotation keys set / deleted on the successor
        self.cross_set, self.cross_del = set(), set()
        for r in self.cross_uid:
            pl = r.get("payload")
            anns = ((pl or {}).get("metadata") or {}).get("annotations") or {} if isinstance(pl, dict) else {}
            for k, v in anns.items():
                (self.cross_del if v is None else self.cross_set).add(k)

    def cross_explains(self, about: tuple | None) -> bool:
        """Is the failure `about` a direct consequence of the content of a cross-uid write (C08's finding F2)?"""
        if not self.cross_uid or about is None:
            return False
        key = lambda hid: OWN_PREFIX + hid.replace("/", ".")     # noqa: E731
        if about[0] == "record":          # a record remains: it was put there by the foreign cycle
            return key(about[1]) in self.cross_set
        if about[0] == "base":            # last-handled differs: the foreign cycle wrote (or removed) it
            return LAST_HANDLED in self.cross_set or LAST_HANDLED in self.cross_del
        if about[0] in ("completion", "deletion"):   # the handler never completed: the foreign cycle wrote last-handled
            # (the creation is then never seen) or wrote / purged this handler's record
            return LAST_HANDLED in self.cross_set or key(about[1]) in self.cross_set or key(about[1]) in self.cross_del
        return False


# ---- the oracle -------------------------------------------------------------------------------------------

def oracle(ctx: Ctx, sc: dict, tr: dict) -> dict:
    f = Facts(sc, tr)
    rep = {"scenario": sc}
    out: dict[str, Any] = {"class": "converged", "findings": []}

    def fail(what: str, replay: Any, signature: dict, about: tuple | None = None, tag: str | None = None) -> None:
        """Report a failure; ONLY a failure that the content of a cross-uid write explains (it put that record / that
        last-handled state onto this object) is reported as the consequence of that write (C03-F6)."""
        if signature not in (SIG_F2, SIG_F4, SIG_N1, SIG_N2, SIG_N3, SIG_N6, SIG_N7, SIG_N8) and f.cross_explains(about):
            ctx.oracle_fail(what + " [after a write computed for the deleted predecessor landed on this object]",
                            {**replay, "cross_uid_writes": [[r["wall"], r["cycle_uid"], r["target_uid"], r.get("payload")] for r in f.cross_uid[:3]]},
                            SIG_F6)
            out["findings"].append("C03-F6")
        else:
            ctx.oracle_fail(what, replay, signature)
            out["findings"].append(tag or "unlisted")

    # last-handled written while a selected handler has not finished (at any time of the history)
    for cyc in tr["cycles"]:
        p = cyc.get("pcc")
        if not p or p["reason"] not in KINDS or not p["selected"] or p.get("outcomes") is None or "P_after" not in p \
                or "error" in (p["P_after"] or {}):
            continue
        unfinished = []
        for hid in p["selected"]:
            before, o = p["P"].get(hid), p["outcomes"].get(hid)
            if not ((before and (before["success"] or before["failure"])) or (o and o["final"])):
                unfinished.append(hid)
        if unfinished and p.get("diffbase_in_patch"):
            ctx.oracle_fail(f"last-handled state written although selected handlers {unfinished} have not finished",
                            {**rep, "cycle": cyc["i"]}, {"site": "process_changing_cause", "shape": "last-handled stored before all selected handlers finished"})
            out["class"] = "closed-early"
            return out

    # … and by nothing but a handling pass: a cycle that does not reach `process_changing_cause` (a turn dedicated to the
    # finalizer, a blind one, one held back by the consistency barrier or starting with a carried patch) has handled
    # nothing, so it has nothing to record as handled — else the outstanding change (e.g. the creation) is taken for
    # handled and its handlers are never called (white-box review C03 m4: the state at quiescence looks perfect)
    by_i = {c["i"]: c for c in tr["cycles"]}
    for r in tr["requests"]:
        if r["method"] != "PATCH" or OBJ not in r["path"] or r.get("cycle_i") is None or not isinstance(r.get("payload"), dict):
            continue
        val = ((r["payload"].get("metadata") or {}).get("annotations") or {}).get(LAST_HANDLED)
        cyc = by_i.get(r["cycle_i"])
        if val is None or cyc is None or cyc.get("pcc") is not None:
            continue
        ctx.oracle_fail(f"last-handled state written by a cycle that ran no handling pass (cycle {cyc['i']}, t={r['wall']:.3f}: "
                        f"{'a finalizer turn' if (cyc.get('apply') or {}).get('fns') else 'no cause handled'}): the change outstanding "
                        f"at that moment is recorded as handled although no handler was called for it",
                        {**rep, "cycle": cyc["i"], "request": {k: r.get(k) for k in ("wall", "who", "payload", "response")}},
                        {"site": "process_resource_causes", "shape": "last-handled stored by a cycle without a handling pass"})
        out["class"] = "closed-early"
        return out

    # every essential change is an OUTSTANDING change ("every handler selected for the outstanding change …", "changes made while
    # the operator was down are handled after it starts"): a cycle that looks at an object whose recorded last-handled state
    # differs from its essential state — as JSON values: in any scalar, any key, the length or any item of any list, at any
    # depth — has a change before it, whatever kind of change it is. (Read off the object's body alone; which handlers it
    # selects is judged below. Not with daemons/timers: the framework then classifies from its live body, C09/C10's subject.)
    if not any(h["kind"] in ("timer", "daemon") for h in sc["handlers"]):
        for cyc in tr["cycles"]:
            cs = cyc.get("cause")
            b = cyc.get("body") or {}
            if not cs or cyc["event_type"] == "DELETED" or cs.get("old_absent") or not isinstance(b.get("metadata"), dict):
                continue
            base_c, ess_c = py_base(b), py_essence(b)
            if base_c is None or not py_json_differs(base_c, ess_c):
                continue
            kd = py_change_kind(base_c, ess_c)
            ok = out.setdefault("outstanding_kinds", {})
            ok[kd] = ok.get(kd, 0) + 1
            if not cs.get("diff"):
                ctx.oracle_fail(f"an essential change is not seen as a change: cycle {cyc['i']} (t={cyc['t0']:.3f}, {cs.get('reason')}) works on an "
                                f"object whose last-handled state differs from its essential state ({kd}), and finds nothing to handle",
                                {**rep, "cycle": cyc["i"], "last_handled": base_c, "essence": ess_c, "difference": py_diff(base_c, ess_c)},
                                {"site": "detect_changing_cause", "shape": "last-handled state differs from the essential state, no change detected"})
                out["class"] = "change-not-seen"
                return out

    # a graceful stop that did not finish within the grace period (the simulated supervisor then killed the operator)
    hung = [m for m in tr["marks"] if m["what"] == "stopped" and m.get("result") == "'stop-timeout'" and not m.get("final")]
    if hung:
        grace = float(sc.get("stop_grace", 8.0))
        ctx.oracle_fail(f"a graceful stop requested at t={hung[0]['t'] - grace:.3f} did not finish within the grace period of {grace:.0f} s: "
                        f"the operator kept running (its watcher went on); killed by the supervisor",
                        {**rep, "marks": hung}, SIG_N5)
        out["findings"].append("C03-N5")
        out["hung_stop"] = True

    # quiescence: no write for Tq, and none in a further Tq
    last_write = max([r["wall"] for r in f.patches], default=0.0)
    aborted = next((m for m in tr["marks"] if m["what"] == "aborted"), None)
    if aborted is not None:
        ctx.oracle_fail(f"the framework never settles: {aborted['tail_writes']} PATCHes of the object within {aborted['window']:.1f} virtual "
                        f"seconds at t={aborted['t']:.1f} (simulation cut short)", {**rep, "last_writes": [[r["wall"], r.get("payload")] for r in f.patches[-4:]]},
                        {"site": "application.apply", "shape": "framework keeps writing to the object after changes and failures stopped"})
        out["class"] = "never-quiescent"
        return out
    if last_write > f.end - 2 * f.tq:
        n_tail = len([r for r in f.patches if r["wall"] > f.t_sil])
        ctx.oracle_fail(f"the framework still writes to the object {f.end - last_write:.3f}s before the end of a silent tail of "
                        f"{f.end - f.t_sil:.1f}s ({n_tail} PATCHes in the tail)",
                        {**rep, "last_writes": [[r["wall"], r.get("payload")] for r in f.patches[-4:]]},
                        {"site": "application.apply", "shape": "framework keeps writing to the object after changes and failures stopped"})
        out["class"] = "never-quiescent"
        return out

    def shared_with(h: dict) -> list[str]:
        return sorted({g["kind"] for g in _changing(sc) if g["id"] == h["id"] and g["kind"] != h["kind"]})

    def deletion_handlers_done(lb: dict) -> bool:
        """Every matching MANDATORY deletion handler has a final outcome from a pass on the object marked for deletion."""
        good = True
        # the handlers selected for the deletion are those whose filters accept the object WHILE the framework holds it: the
        # last version that is marked and carries the framework's finalizer (what the releasing cycle worked on). An edit
        # made after the release (the object lingers on somebody else's finalizer: FREE) cannot select anything any more
        # (white-box review C03: a label flipped after a legitimate release made a deletion handler "match" the last body)
        lr = next((v["body"] for v in reversed(f.hist) if v["body"]["metadata"].get("uid") == f.uid and v["event"] != "DELETED"
                   and v["body"]["metadata"].get("deletionTimestamp")
                   and f.fin in (v["body"]["metadata"].get("finalizers") or [])), lb)
        for h in _changing(sc):
            if h["kind"] != "delete" or h.get("opts", {}).get("optional") or not py_matches(h, lr):
                continue        # optional deletion handlers run only if the object happens to be still held
            ev = [c for c in tr["cycles"] if c["uid"] == f.uid and c.get("pcc") and c["body"]["metadata"].get("deletionTimestamp")
                  and c["pcc"]["reason"] == "delete" and (c["pcc"].get("outcomes") or {}).get(kid(h), {}).get("final")]
            if ev:
                continue
            good = False
            first = next((c for c in tr["cycles"] if c["uid"] == f.uid and c.get("pcc") and c["pcc"]["reason"] == "delete"), None)
            rec0 = own_record(first["body"], kid(h)) if first else None
            if shared_with(h) and rec0 and (rec0.get("success") or rec0.get("failure")):
                fail(f"the object was released although its deletion handler {h['id']} was never called: the id is also registered for "
                     f"{shared_with(h)}, whose finished record was taken for the deletion handler's",
                     {**rep, "record_at_first_deletion_pass": rec0}, SIG_N3, tag="C03-N3")
            else:
                fail(f"the object was released although its deletion handler {h['id']} never reached a final outcome",
                     {**rep, "last_body": lb}, {"site": "process_resource_causes", "shape": "released before the deletion handlers completed"},
                     about=("deletion", kid(h)))
        # … and so has every sub-handler a deletion handler registered while it ran for the deletion ("every handler
        # selected for the outstanding change has completed": sub-handlers without criteria are selected with their parent)
        dcyc = [c for c in tr["cycles"] if c["uid"] == f.uid and c.get("pcc") and c["pcc"]["reason"] == "delete"
                and c["body"]["metadata"].get("deletionTimestamp")]
        registered: dict[str, dict] = {}
        for c in dcyc:
            for reg in c.get("sub_registered") or []:
                for sid in reg["subs"]:
                    registered.setdefault(f"{reg['parent_hid']}/{sid}", {"parent": reg["parent"], "first": c})
        for cid, info in registered.items():
            done = any(call["uid"] == f.uid and (call.get("hid") or call["id"]) == cid and call.get("reason") == "delete"
                       and call.get("outcome") in ("ok", "perm") for call in tr["calls"])
            if done:
                continue
            good = False
            rec0 = own_record(info["first"]["body"], cid)
            stacked = len({g["kind"] for g in _changing(sc) if g["id"] == info["parent"]}) > 1
            if stacked and rec0 and (rec0.get("success") or rec0.get("failure")) and rec0.get("purpose") not in (None, "delete"):
                fail(f"the object was released although the deletion sub-handler {cid} was never called: its parent's id is also "
                     f"registered for another cause, whose sub-handler's finished record (purpose {rec0.get('purpose')}) was taken for it",
                     {**rep, "record_at_registration": rec0}, SIG_N8, tag="C03-N8")
            else:
                fail(f"the object was released although the deletion sub-handler {cid} never reached a final outcome",
                     {**rep, "last_body": lb}, {"site": "process_resource_causes", "shape": "released before the deletion sub-handlers completed"},
                     about=("deletion", cid))
        return good

    def namesake_child(hid: str) -> bool:
        """A sub-handler id whose parent id stands for several registrations (one function stacked for several causes)."""
        if "/" not in hid:
            return False
        parent = hid.rsplit("/", 1)[0]
        return len({g["kind"] for g in _changing(sc) if kid(g) == parent}) > 1

    def survived_closing(hid: str, c0: dict) -> bool:
        """The finished record of `hid` that the pass `c0` finds: was last-handled written in the version in which the record
        became finished, or in a later one (up to the body `c0` works on)? Then the cycle it belongs to was closed, and the
        closing pass — which purges every record in the very patch that stores last-handled — let it live."""
        vs = [v["body"] for v in f.hist if v["body"]["metadata"].get("uid") == f.uid and v["event"] != "DELETED"
              and int(v["body"]["metadata"]["resourceVersion"]) <= int(c0["rv"])]
        k = len(vs)
        while k > 0 and ((own_record(vs[k - 1], hid) or {}).get("success") or (own_record(vs[k - 1], hid) or {}).get("failure")):
            k -= 1
        raw = lambda b: ((b.get("metadata") or {}).get("annotations") or {}).get(LAST_HANDLED)     # noqa: E731
        return any(raw(vs[j]) != raw(vs[j - 1]) for j in range(max(k, 1), len(vs)))

    def held_while_marked() -> bool:
        return any(v["body"]["metadata"].get("uid") == f.uid and v["body"]["metadata"].get("deletionTimestamp")
                   and f.fin in (v["body"]["metadata"].get("finalizers") or []) for v in f.hist)

    if f.final is None:
        out["class"] = "gone"
        lb = f.last_body
        if lb is not None and held_while_marked():
            # the deletion went through the framework's finalizer
            out["class"] = "gone-released" if deletion_handlers_done(lb) else "released-early"
        return out
    if f.marked:
        fins = f.final["metadata"].get("finalizers") or []
        if f.fin in fins:
            if f.idle_fns:
                fail("the deletion handlers wait for a retry that never comes: the last cycle's patch held only functions that produced "
                     "no request, the sleep and the touch were skipped", {**rep, "final": f.final}, SIG_N1, tag="C03-N1")
                out["class"] = "lost-wakeup"
                return out
            if f.lost_interrupt:
                fail(f"the deletion stopped for good with the object still held by the framework's finalizer: the last cycle (#{f.lost_interrupt['cycle']}) "
                     f"slept till the retry of its handlers (delays {f.lost_interrupt['delays']}), the sleep was interrupted at "
                     f"t={f.lost_interrupt['interrupted_at']:.3f} by a new event for the object (listings of the kind at "
                     f"{f.lost_interrupt['listings_of_the_kind_then']}: the watch stream was re-established and re-sent the object as it is) "
                     f"without the touch, and NO cycle processed that event", {**rep, "final": f.final, "lost": f.lost_interrupt}, SIG_RL)
                out["class"] = "lost-wakeup"
                return out
            if f.lost_wait:
                fail("the deletion stopped for good with the object still held by the framework's finalizer: the last cycle was "
                     "still awaiting the version of the framework's own last write; its patch was non-empty, so the wait for the "
                     "consistency deadline and the handlers were skipped, but the patch changed nothing: no event follows",
                     {**rep, "final": f.final}, SIG_N6, tag="C03-N6")
                out["class"] = "lost-wakeup"
                return out
            if f.lost_wakeup:
                fail("the deletion stopped for good with the object still held by the framework's finalizer: the last cycle carried "
                     "a remaining patch, skipped the handlers (and the release) and wrote nothing, so no event will ever re-trigger it",
                     {**rep, "final": f.final},
                     {"finalizer": SIG_F5, "handler": SIG_N2}.get(f.lost_wakeup, {"site": "process_resource_event", "shape": "a patch is carried into a cycle although the cycle before had no conflict"}),
                     tag={"finalizer": "C03-F5", "handler": "C03-N2"}.get(f.lost_wakeup))
                out["class"] = "lost-wakeup"
                return out
            fail("object marked for deletion is still held by the framework's finalizer at quiescence",
                 {**rep, "final": f.final}, {"site": "process_resource_causes", "shape": "marked object never released"})
            out["class"] = "stuck-deletion"
            return out
        # released (or never held) by the framework, held by somebody else's finalizer
        out["class"] = "marked-foreign"
        if held_while_marked() and not deletion_handlers_done(f.final):
            out["class"] = "released-early"
        ann = f.final["metadata"].get("annotations") or {}
        left = [h for h in _all_ids(sc) if OWN_PREFIX + h.replace("/", ".") in ann]
        for h in left:
            if f.blind:
                # no handler's filters accept the object (any more): blindness comes before the FREE purge (Lean:
                # blind_left_alone vs. free_purges, which has `prematch`) — the open finding C03-F2, not the repaired N4
                fail(f"progress record of handler {h} remains on the object marked for deletion, held by a foreign finalizer only, "
                     f"that no handler's filters accept any more (the framework is blind to it)",
                     {**rep, "annotations": sorted(ann), "finalizers": fins}, SIG_F2, about=("record", h), tag="C03-F2")
            elif namesake_child(h):
                fail(f"progress record of sub-handler {h} remains on the object marked for deletion and held by a foreign finalizer "
                     f"only: its parent's id is registered for several causes; the parent's record that referenced it was left out "
                     f"(with its subrefs) when the namesake started from scratch",
                     {**rep, "annotations": sorted(ann), "finalizers": fins}, SIG_N7, about=("record", h), tag="C03-N7")
            else:
                fail(f"progress record of handler {h} remains on the object marked for deletion and held by a foreign finalizer only",
                     {**rep, "annotations": sorted(ann), "finalizers": fins}, SIG_N4, about=("record", h), tag="C03-N4")
            out["class"] = "records-left"
        return out

    base = py_base(f.final)
    if f.idle_fns and not f.blind:
        fail("handling stopped for good with handlers still waiting for their retry: the last cycle's patch held only functions "
             "that produced no request; that counted as a change, so the sleep and the touch were skipped and no event follows",
             {**rep, "last_handled": base, "essence": f.ess, "annotations": sorted((f.final["metadata"].get("annotations") or {}))},
             SIG_N1, tag="C03-N1")
        out["class"] = "lost-wakeup"
        return out
    if f.lost_interrupt and not f.blind and (base != f.ess or any(OWN_PREFIX + h.replace("/", ".") in (f.final["metadata"].get("annotations") or {})
                                                                   for h in _all_ids(sc))):
        fail(f"handling stopped for good with handlers still waiting for their retry: the last cycle (#{f.lost_interrupt['cycle']}) slept "
             f"till the retry (delays {f.lost_interrupt['delays']}), the sleep was interrupted at t={f.lost_interrupt['interrupted_at']:.3f} by a "
             f"new event for the object (listings of the kind at {f.lost_interrupt['listings_of_the_kind_then']}: the watch stream was "
             f"re-established and re-sent the object as it is) without the touch, and NO cycle processed that event: the handlers are "
             f"never called again, their progress records stay, the last-handled state is never stored",
             {**rep, "last_handled": base, "essence": f.ess, "annotations": sorted((f.final["metadata"].get("annotations") or {})),
              "lost": f.lost_interrupt}, SIG_RL)
        out["class"] = "lost-wakeup"
        return out
    if f.lost_wait and not f.blind and (base != f.ess or any(OWN_PREFIX + h.replace("/", ".") in (f.final["metadata"].get("annotations") or {})
                                                              for h in _all_ids(sc))):
        fail("handling stopped for good with work outstanding: the last cycle was still awaiting the version of the framework's own "
             "last write (its echo was lost); its patch was non-empty, so the wait for the consistency deadline and the handlers "
             "were skipped — but the patch changed nothing, no event follows, and the worker exits when the deadline passes",
             {**rep, "last_handled": base, "essence": f.ess, "annotations": sorted((f.final["metadata"].get("annotations") or {}))},
             SIG_N6, tag="C03-N6")
        out["class"] = "lost-wakeup"
        return out
    if f.lost_wakeup and not f.blind and base != f.ess:
        fail("handling stopped for good with the change still outstanding: the last cycle carried a remaining patch, "
             "skipped the handlers and wrote nothing, so no event will ever re-trigger it",
             {**rep, "last_handled": base, "essence": f.ess, "annotations": sorted((f.final["metadata"].get("annotations") or {}))},
             {"finalizer": SIG_F5, "handler": SIG_N2}.get(f.lost_wakeup, {"site": "process_resource_event", "shape": "a patch is carried into a cycle although the cycle before had no conflict"}),
             tag={"finalizer": "C03-F5", "handler": "C03-N2"}.get(f.lost_wakeup))
        out["class"] = "lost-wakeup"
        return out
    if not f.blind and (base != f.ess or py_json_differs(base, f.ess)):
        fail("recorded last-handled state differs from the final essential state at quiescence",
             {**rep, "last_handled": base, "essence": f.ess},
             {"site": "process_changing_cause", "shape": "last-handled state differs from the final essential state at quiescence"},
             about=("base",))
        out["class"] = "base-mismatch"

    # no progress records remain
    ann = f.final["metadata"].get("annotations") or {}
    left = [h for h in _all_ids(sc) if OWN_PREFIX + h.replace("/", ".") in ann]
    if left:
        sel_ever = set()
        for c in f.fin_cycles:
            if c.get("pcc"):
                sel_ever |= set(c["pcc"]["selected"])
        hr = [c for c in f.fin_cycles if c.get("pcc") and c["pcc"]["reason"] in KINDS]
        for h in left:
            if namesake_child(h) and not f.blind:
                sig, tag = SIG_N7, "C03-N7"
            elif f.blind:
                sig, tag = SIG_F2, "C03-F2"
            elif h.split("/")[0] in sel_ever or h in sel_ever:
                sig, tag = {"site": "process_changing_cause", "shape": "progress record of a handler selected for the final state remains"}, None
            elif hr and not hr[-1]["pcc"]["selected"]:
                sig, tag = SIG_F1, "C03-F1"
            elif not hr and base == f.ess:
                sig, tag = SIG_F3, "C03-F3"
            else:
                sig, tag = {"site": "process_changing_cause", "shape": "progress record remains at quiescence"}, None
            fail(f"progress record of handler {h} remains on the object at quiescence",
                 {**rep, "annotations": sorted(ann)}, sig, about=("record", h), tag=tag)
        out["class"] = "records-left"

    # every handler selected for the outstanding change completed against the final essential state
    if not f.blind and f.fin_cycles:
        c0 = next((c for c in f.fin_cycles if c.get("pcc") is not None), None)   # the first real pass on the final state
        if c0 is not None:
            base0 = py_base(c0["body"])
            outstanding = "create" if base0 is None else ("update" if base0 != f.ess else None)
            out["outstanding"] = outstanding
            for h in _changing(sc):
                if h["kind"] != outstanding or not py_matches(h, f.final) or not py_selected_for_change(h, base0, f.ess):
                    continue
                hid = kid(h)
                if h.get("opts", {}).get("field"):
                    out["field_selected"] = out.get("field_selected", 0) + 1
                ev = [c for c in f.fin_cycles if c.get("pcc") and c["pcc"]["reason"] == outstanding
                      and (c["pcc"].get("outcomes") or {}).get(hid, {}).get("final")]
                if ev:
                    for c in ev:
                        for call in _calls_of(tr, c):
                            if call["id"] == h["id"] and call.get("body") is not None and py_essence(call["body"]) != f.ess:
                                fail(f"handler {hid} completed in a pass on the final state but was given another body",
                                     {**rep, "call": call}, {"site": "execute_handler_once", "shape": "handler body differs from the pass body"})
                    continue
                rec0 = own_record(c0["body"], hid)
                if rec0 and (rec0.get("success") or rec0.get("failure")) and shared_with(h) \
                        and rec0.get("purpose") not in (None, outstanding):
                    fail(f"handler {hid} (selected for the outstanding {outstanding}) was never called for it: the id is also registered "
                         f"for {shared_with(h)}, whose finished record was taken for this handler's",
                         {**rep, "record_at_first_pass_on_final_state": rec0}, SIG_N3, tag="C03-N3")
                elif rec0 and (rec0.get("success") or rec0.get("failure")) and survived_closing(hid, c0):
                    # NOT the open finding C03-F4 (a change absorbed by a cycle that is still OPEN): the cycle in which the
                    # handler finished was closed — last-handled was written with or after its success — and the finished
                    # record is still there (white-box review C03 m6: a deferred purge hid behind F4's signature)
                    fail(f"handler {hid} (selected for the outstanding {outstanding}) was never called for it: its finished record "
                         f"survived the closing of the cycle it belongs to (last-handled was written with or after its success) "
                         f"and was taken for this change's",
                         {**rep, "record_at_first_pass_on_final_state": rec0, "first_pass": c0["i"]},
                         {"site": "process_changing_cause", "shape": "finished progress record survived the closing of its cycle: the handler is not called for the next change"},
                         about=("completion", hid))
                    out["class"] = "not-completed"
                elif rec0 and (rec0.get("success") or rec0.get("failure")):
                    fail(f"handler {hid} (selected for the outstanding {outstanding}) never ran against the final essential "
                         f"state: its result on an older state of the same open cycle was kept",
                         {**rep, "record_at_first_pass_on_final_state": rec0}, SIG_F4, tag="C03-F4")
                else:
                    fail(f"handler {hid} (selected for the outstanding {outstanding}) never completed against the final essential state",
                         {**rep, "first_pass": c0["i"]},
                         {"site": "process_changing_cause", "shape": "selected handler never completed against the final state"},
                         about=("completion", hid))
                    out["class"] = "not-completed"

    # every resuming handler the last incarnation selected for the object reached a final outcome (in this or an earlier
    # process: then its finished record was on the object when it was selected)
    if not f.blind:
        mine = [c for c in tr["cycles"] if c["uid"] == f.uid and c["inc"] == f.last_inc and c.get("pcc")
                and not c["body"]["metadata"].get("deletionTimestamp")]
        for h in _changing(sc):
            hid = kid(h)
            if h["kind"] != "resume" or not py_matches(h, f.final):
                continue
            sel = [c for c in mine if hid in c["pcc"]["selected"]]
            if not sel:
                continue
            done = any((c["pcc"].get("outcomes") or {}).get(hid, {}).get("final") for c in mine) or \
                any((own_record(c["body"], hid) or {}).get("success") or (own_record(c["body"], hid) or {}).get("failure") for c in sel)
            if not done:
                fail(f"resuming handler {hid} was selected after the operator's start (cycle {sel[0]['i']}) but never reached a final "
                     f"outcome, although the object is quiescent",
                     {**rep, "first_selected_in": sel[0]["i"], "last_selected_in": sel[-1]["i"]},
                     {"site": "process_changing_cause", "shape": "resuming handler selected after a start never completed"},
                     about=("completion", hid))
                out["class"] = "not-completed"

    accumulated(ctx, sc, tr, out)
    return out


def accumulated(ctx: Ctx, sc: dict, tr: dict, out: dict) -> None:
    """Edits made while no operator ran are delivered as ONE update cause: last-handled → state at start."""
    marks = tr["marks"]
    downs = [m for m in marks if m["what"] in ("stopped", "killed") and not m.get("final")]
    starts = [m for m in marks if m["what"] == "start"]
    hist = tr["history"].get(KEY, [])
    ext_times = sorted(m["t"] for m in marks if m["what"] == "op")
    for d in downs:
        up = next((s for s in starts if s["t"] >= d["t"] and s["inc"] > d["inc"]), None)
        if up is None:
            continue
        at_up = [v for v in hist if v["t"] <= up["t"]]
        if not at_up or at_up[-1]["event"] == "DELETED":
            continue
        b_up = at_up[-1]["body"]
        if b_up["metadata"].get("deletionTimestamp"):
            continue
        during = [v for v in hist if d["t"] < v["t"] <= up["t"]]
        if not during:
            continue
        base_up, ess_up = py_base(b_up), py_essence(b_up)
        uid = b_up["metadata"]["uid"]
        t_next = next((t for t in ext_times if t > up["t"]), float("inf"))
        passes = [c for c in tr["cycles"] if c["inc"] == up["inc"] and c["uid"] == uid and c.get("pcc") and c["t0"] < t_next]
        if not passes or py_essence(passes[0]["body"]) != ess_up:
            continue
        first = passes[0]
        if py_base(first["body"]) != base_up:
            continue        # a write of the previous incarnation landed in between: not this clause's case
        out["downtime_edits"] = out.get("downtime_edits", 0) + 1
        want = "create" if base_up is None else ("update" if base_up != ess_up else None)
        got = first["cause"]["reason"]
        if want is not None and got != want:
            ctx.oracle_fail(f"after a downtime with edits the first cause is {got}, expected {want}",
                            {"scenario": sc, "cycle": first["i"]}, {"site": "detect_changing_cause", "shape": "downtime edits not seen as one accumulated change"})
            continue
        if want != "update":
            continue
        exp = _canon_diff(py_diff(base_up, ess_up))
        for c in passes:
            if c["cause"]["reason"] != "update":
                break
            if _canon_diff(c["cause"]["diff"]) != exp:
                ctx.oracle_fail("after a downtime the update cause's diff is not last-handled → state at start",
                                {"scenario": sc, "cycle": c["i"], "diff": c["cause"]["diff"], "expected": exp},
                                {"site": "detect_changing_cause", "shape": "downtime edits not seen as one accumulated change"})
                break
            for call in _calls_of(tr, c, "update"):
                if True:
                    # a handler with a `field=` filter is given that field's old and new values (docs: kwargs old/new/diff)
                    fld = next((h.get("opts", {}).get("field") for h in sc["handlers"] if h["id"] == call["id"] and h["kind"] == "update"), None)
                    want_old, want_new = base_up, ess_up
                    if fld:
                        want_old, want_new = (None if v is _ABSENT else v for v in (py_field(base_up, fld), py_field(ess_up, fld)))
                    if call.get("old") != want_old or call.get("new") != want_new:
                        ctx.oracle_fail("update handler after a downtime did not get old=last-handled, new=state at start",
                                        {"scenario": sc, "call": {k: call.get(k) for k in ("id", "t", "old", "new")}},
                                        {"site": "detect_changing_cause", "shape": "downtime edits not seen as one accumulated change"})


# ---- the tie: silent tail vs. iterates of the Lean loopStep --------------------------------------------------

def _KEEPALIVE() -> float:
    from kopf._core.actions import application
    return float(application.WAITING_KEEPALIVE_INTERVAL)


def _keepalive_cap(ctx: Ctx) -> int:
    from kopf._core.actions import application
    return int(round(float(application.WAITING_KEEPALIVE_INTERVAL) * 64))


def py_records(body: dict, owned: list[str]) -> dict:
    """The stored progress records of the owned handlers, decoded independently of kopf, in the model's format."""
    from ..sim import observe
    out = {}
    for hid in owned:
        rec = own_record(body, hid)
        out[hid] = None if rec is None else {
            "started": observe.iso_to_ticks(rec.get("started")), "delayed": observe.iso_to_ticks(rec.get("delayed")),
            "purpose": rec.get("purpose") or None, "retries": int(rec.get("retries") or 0),
            "success": bool(rec.get("success")), "failure": bool(rec.get("failure")),
            "subrefs": sorted(rec.get("subrefs") or [])}
    return out


def abstract_tail(sc: dict, tr: dict, cap: int) -> tuple[list | None, Any]:
    f = Facts(sc, tr)
    if f.last_body is None:
        return None, "no-object"
    if f.final is None and not f.last_body["metadata"].get("deletionTimestamp"):
        return None, "deleted-at-once"      # no finalizer held it: the deletion itself ends the history
    if any(h["kind"] in ("timer", "daemon") for h in sc["handlers"]):
        # daemons/timers (their delays, the finalizer they require, the live body) are C09/C10's: `spawning = false` in the
        # model's finalizer decision; the oracle judges these histories
        return None, "spawning-handlers"
    def _fn(a: Any) -> bool:
        return isinstance(a, list) and bool(a) and a[0] == "fn"
    fn_users = [h for h in sc["handlers"] if any(_fn(a) for a in list(h.get("script", [])) + [h.get("default")])]
    idle_vals = None
    if fn_users:
        # patch functions of the handlers: compared only as the IDLE class — on.event handlers appending an idempotent
        # function of a constant, which yields no operation once the object carries the value: the patch is non-empty but
        # sends no request, which since /repo b7bf39c is the same as no patch (formerly C03-N1); anything else is
        # C08's transport (JSON-patch after merge-patch, conflicts, carried patches), outside the model
        if all(h["kind"] == "event" and not h.get("script") and _fn(h.get("default")) and not isinstance(h["default"][1], str)
               and (len(h["default"]) < 3 or h["default"][2] == "ok") for h in fn_users):
            idle_vals = [h["default"][1] for h in fn_users]
        elif any(h["kind"] == "event" for h in fn_users):
            return None, "user-patch-fns"
    const_patch = any(h["kind"] == "event" and isinstance(h.get("default"), list) and len(h["default"]) > 1 and h["default"][0] == "ok"
                      for h in sc["handlers"])
    every_patch = const_patch or idle_vals is not None      # every cycle's patch is non-empty (truthy) without changing anything
    if every_patch and any(isinstance(a, list) and a[0] == "temp" and len(a) > 1 and a[1] * 64 > cap
                           for h in sc["handlers"] for a in h.get("script", [])):
        # not modelled: with a non-empty no-op patch in every cycle (constant content, or functions without operations),
        # the cycle after a keepalive touch that wakes nobody gets the touch-dummy cleanup added to that patch (`if patch:
        # touch(value=None)`) — which does change the object: one more PATCH + echo
        return None, "const-patch+keepalive"
    if any(float(w["t1"]) >= f.t_for for w in sc.get("wfaults", [])):
        return None, "fault-window-in-tail"   # the closing edit of the window had no effect (e.g. the object was gone by then)
    if f.cross_uid:
        return None, "cross-uid-write"      # not silent: a write of the deleted predecessor's cycle landed on this object
    foreign = any(x != f.fin for x in (f.last_body["metadata"].get("finalizers") or []))
    blind = not any(py_matches(h, f.last_body) for h in _changing(sc))
    # the tail: the last incarnation's cycles on bodies that carry the last external write
    cycles = [c for c in tr["cycles"] if c["uid"] == f.uid and c["inc"] == f.last_inc and c["t0"] >= f.t_for
              and int(c["rv"]) >= f.rv_for and c["event_type"] != "DELETED"]

    def fin_turn(c: dict) -> str | None:
        fns = (c.get("apply") or {}).get("fns") or []
        if c.get("pcc") is None and "block_deletion" in fns:
            return "add-finalizer"
        if c.get("pcc") is None and "allow_deletion" in fns:
            return "remove-finalizer"
        return None

    def suppressed(c: dict) -> bool:       # the consistency barrier (C07) held the cycle back, or nothing was detected
        return c.get("pcc") is None and fin_turn(c) is None and \
            (c.get("consistency_time") is not None or c.get("cause") is None)

    def dummy(c: dict) -> bool:
        return (OWN_PREFIX + "touch-dummy") in ((c["body"].get("metadata") or {}).get("annotations") or {})

    # leading cycles the model has no turn for: held back by the barrier; a finalizer edit that also cleans the
    # touch-dummy is two requests with two echoes (C06/C08's subject)
    def stale(c: dict) -> bool:
        """The cycle works on a view older than what the server holds when it starts: an event that was still in
        flight when the environment fell silent (the echo of an earlier own write, or an older foreign one)."""
        cur = max((int(v["body"]["metadata"]["resourceVersion"]) for v in f.hist
                   if v["t"] <= c["t0"] and v["body"]["metadata"].get("uid") == f.uid and v["event"] != "DELETED"), default=0)
        return int(c["rv"]) < cur

    def held_nonempty(c: dict) -> bool:
        """ONE shape of a held-back cycle the model has a turn for (`loopStepI … true`): the barrier is up with the deadline
        ahead, a patch was accumulated before the state-dependent part, so the wait and the handlers were skipped; the patch
        changed nothing, and either `apply` slept the remaining waiting time and touched the object (since /repo 30557a0:
        the touch's echo is the next cycle), or nothing at all came of it and it is the object's last cycle (before
        30557a0: C03-N6 — the model's turn then differs)."""
        apl = c.get("apply") or {}
        ctl = c.get("consistency_time")
        if not (c.get("pcc") is None and fin_turn(c) is None and ctl is not None and c.get("cause") is not None
                and float(ctl) > float(c.get("loop_t0", ctl)) and (apl.get("patch") or apl.get("fns"))
                and not (c.get("mem_before") or {}).get("remaining_patch") and not apl.get("remaining_fns")):
            return False
        mine = [r for r in f.patches if r.get("cycle_i") == c["i"] and r.get("who") == f"op#{f.last_inc}"]
        touched = any(isinstance(r.get("payload"), dict)
                      and ((r["payload"].get("metadata") or {}).get("annotations") or {}).get(OWN_PREFIX + "touch-dummy")
                      for r in mine)
        k = next(i for i, x in enumerate(cycles) if x is c)
        t_next = cycles[k + 1]["t0"] if k + 1 < len(cycles) else float("inf")
        later = [v for v in f.hist if c["t0"] <= float(v["t"]) < t_next and v["body"]["metadata"].get("uid") == f.uid]
        if touched:      # nothing but the touch changed the object before the next cycle
            return len(later) == 1 and all(isinstance(r.get("response"), int) and r["response"] < 300 for r in mine)
        return c is cycles[-1] and not later and f.final is not None

    dropped_dummy = False
    dropped: dict[str, int] = {}
    inconsistent = None
    while cycles and (suppressed(cycles[0]) or stale(cycles[0])
                      or (fin_turn(cycles[0]) and (dummy(cycles[0]) or dropped_dummy))):
        if suppressed(cycles[0]) and not stale(cycles[0]) and not blind and held_nonempty(cycles[0]):
            cl = cycles[0]
            inconsistent = {"nonEmpty": True, "deadline": round(cl["t0"] * 64)
                            + round((float(cl["consistency_time"]) - float(cl["loop_t0"])) * 64)}
            break
        why = "suppressed" if suppressed(cycles[0]) else ("stale-view" if stale(cycles[0]) else "finalizer-turn+dummy")
        dropped[why] = dropped.get(why, 0) + 1
        dropped_dummy = dropped_dummy or bool(fin_turn(cycles[0]) and not stale(cycles[0]))
        cycles.pop(0)
    # inside the tail: the echo of the merge half of a two-request write (e.g. the release: purge + finalizer removal),
    # held back by the barrier (C07) — the model's turn is atomic over both requests
    for c in [c for c in cycles[1:-1] if suppressed(c) and not (inconsistent and c is cycles[0])]:
        if const_patch:
            # with a constant patch in every cycle the held-back cycle is not silent: it sends that patch (one more
            # request, one more round trip before the next pass) — the model's atomic turn has no place for it
            return None, "const-patch+mid-tail-echo"
        dropped["suppressed-mid-tail"] = dropped.get("suppressed-mid-tail", 0) + 1
        cycles.remove(c)
    # after the release of a deleted object: the echo of the merge half (held back by the barrier)
    gone = f.final is None
    t_trail = f.end + 1.0
    if gone:
        while cycles and suppressed(cycles[-1]):
            t_trail = cycles.pop()["t0"]
    if not cycles:
        return None, "no-tail-pass"
    # the object RE-LISTED as it is inside the tail (a `type=None` event that is not the incarnation's first): the model has
    # a turn for the one shape in which it matters (`loopStepR`): it falls into the sleep of the cycle before (which had
    # delays, ended right then before the earliest of them elapsed, and sent no touch). Any other re-listed event in the tail
    # (behind a write whose echo is still to come: a stale view; on a settled object: one more cycle) is skipped, counted
    relists = []
    for k, c in enumerate(cycles):
        if k == 0 or c["event_type"] is not None:
            continue
        pv = cycles[k - 1]
        ap = pv.get("apply") or {}
        sent = any(r.get("cycle_i") == pv["i"] for r in f.patches)
        if pv.get("pcc") is None or not ap.get("delays") or sent and not const_patch or ap.get("t_end") is None \
                or abs(float(ap["t_end"]) - float(c["t0"])) > 1e-9 or str(pv["rv"]) != str(c["rv"]) \
                or float(ap["t_end"]) >= float(ap["t"]) + min(min(float(d) for d in ap["delays"]), cap / 64.0):
            return None, "relist-in-tail-outside-a-sleep"
        relists.append(round(c["t0"] * 64))
    if every_patch and any(dummy(c) and not [i for i in c["invoked"] if (i.get("hid") or i["id"]) in [kid(h) for h in _changing(sc)]] for c in cycles):
        # not modelled (same gap as `const-patch+keepalive`): a cycle on a body that carries the touch-dummy (left by a
        # touch whose operator was killed, or by a keepalive round) in which no handler runs; the constant patch then
        # goes out together with the touch-dummy cleanup, which DOES change the object: one more PATCH + echo
        return None, "const-patch+dummy"
    c0 = cycles[0]
    if idle_vals is not None and not all(v in ((c0["body"].get("status") or {}).get("seen") or []) for v in idle_vals):
        return None, "user-patch-fns"       # the tail starts before the functions became idle
    carried = "none"
    if fn_users:
        # a handler's function inside the tail is C08's transport — except for ONE shape the model has a turn for
        # (`loopStepC`): the tail's FIRST cycle starts with a carried patch (how it got there is not modelled), skips the
        # handlers for that reason, and re-sends the functions (`ops`: one JSON-patch that is accepted) or has nothing to
        # send (`noop`: before /repo 608a57d that was the finding C03-N2 — nothing came of the cycle; since /repo 02af7ce (the rework of
        # 608a57d) the cycle returns a zero delay and `apply` touches the object); no function anywhere else in
        # the tail (other than the idle ones of on.event handlers, which are the same as no patch)
        ap0 = c0.get("apply") or {}
        sent = [r for r in f.patches if r.get("cycle_i") == c0["i"] and r.get("who") == f"op#{f.last_inc}"]
        has_carry = bool((c0.get("mem_before") or {}).get("remaining_patch"))
        def fn_effect(c: dict) -> bool:
            """A handler's function of this cycle yielded operations (a JSON-patch on the status went out) or was left over
            after a rejection: C08's transport. One that yields no operation sends no request: the same as no patch (b7bf39c)."""
            return bool((c.get("apply") or {}).get("remaining_fns")) or any(
                r.get("cycle_i") == c["i"] and "json-patch" in str(r.get("ctype"))
                and any(isinstance(op, dict) and str(op.get("path", "")).startswith("/status") for op in (r.get("payload") or []))
                for r in f.patches)
        later_fns = any("note_seen" in ((c.get("apply") or {}).get("fns") or []) and (not has_carry or fn_effect(c))
                        for c in cycles[1:])
        fn_ops0 = any("json-patch" in str(r.get("ctype")) and any(isinstance(op, dict) and str(op.get("path", "")).startswith("/status")
                                                                   for op in (r.get("payload") or [])) for r in sent)
        if has_carry and c0.get("pcc") is None and fin_turn(c0) is None and not ap0.get("remaining_fns") \
                and all(isinstance(r.get("response"), int) and r["response"] < 300 for r in sent) \
                and (idle_vals is not None or not later_fns):
            # `noop`: nothing is sent for the carried patch; the touch that follows (/repo 02af7ce) is among `sent`
            # (before 608a57d nothing followed at all — C03-N2: the model's turn then differs)
            carried = "ops" if any("json-patch" in str(r.get("ctype")) for r in sent) else "noop"
        elif has_carry and c0.get("pcc") is not None and not fn_ops0 and not ap0.get("remaining_fns") \
                and all(isinstance(r.get("response"), int) and r["response"] < 300 for r in sent) \
                and (idle_vals is not None or not later_fns):
            # the behaviour of /repo 608a57d BEFORE its rework 02af7ce: the carried functions were forgotten at the head of the cycle
            # and the handlers ran in it — the model's turn (handlers skipped, touch) then differs
            carried = "noop"
        elif has_carry or (idle_vals is None and (later_fns or "note_seen" in (ap0.get("fns") or []))):
            return None, "user-patch-fns"
    if gone:
        t_del = min((v["t"] for v in f.hist if v["event"] == "DELETED" and v["body"]["metadata"].get("uid") == f.uid), default=None)
        if t_del is not None and t_del <= c0["t0"]:
            return None, "gone-before-tail"     # only leftovers of events that were in flight when the object went away
    if any(c.get("error") for c in cycles):
        return None, "cycle-error"
    if any(call.get("t_end", call["t"]) > call["t"] for c in cycles for call in _calls_of(tr, c)):
        return None, "handler-takes-time"      # the model's pass has one clock reading (ASSUMPTIONS)
    # the framework's ids (a field filter is part of the id); the gates are those of the registering decorator
    byid = {h["id"]: kid(h) for h in sc["handlers"]}
    decls = [{**d, "id": byid.get(d["id"], d["id"])} for d in c14._decls(sc)]
    owned = [d["id"] for d in decls]
    who = f"op#{f.last_inc}"      # the session identity of the incarnation that lives through the tail
    ends = [c["t0"] for c in cycles[1:]] + [t_trail]
    change_req = any(h["kind"] == "delete" and not h.get("opts", {}).get("optional") and py_matches(h, f.last_body)
                     for h in _changing(sc))
    passes = []
    table: dict[str, dict[str, dict]] = {}
    prevP = py_records(c0["body"], owned)
    for c, t_next in zip(cycles, ends):
        p = c.get("pcc")
        ft = fin_turn(c)
        if p is not None and ("P_after" not in p or "error" in (p["P_after"] or {})):
            return None, "no-P_after"
        inv = [[i.get("hid") or i["id"], i["retry"]] for i in c["invoked"] if (i.get("hid") or i["id"]) in owned]
        if p is not None:
            for hid, r in inv:
                o = (p.get("outcomes") or {}).get(hid)
                if o is None:
                    return None, "invoked-without-outcome"
                row = {k: o[k] for k in ("final", "delay", "error", "subrefs")}
                if table.setdefault(hid, {}).setdefault(str(r), row) != row:
                    return None, "outcome-conflict"
            prevP = {k: v for k, v in p["P_after"].items() if k in owned}
        passes.append({
            "reason": ft or (c["cause"]["reason"] if p is not None else
                             ("inconsistent-nonempty" if c is c0 and inconsistent and not blind else
                              f"carried-{carried}" if c is c0 and carried != "none" and not blind else "blind")),
            "selected": p["selected"] if p is not None else None,
            "invoked": inv,
            "now": p["now"] if p is not None else round(c["t0"] * 64),
            "P": dict(prevP),
            "fullyHandled": bool((c.get("mem_after") or {}).get("fully_handled_once")),
            "writes": len([r for r in f.patches if r.get("who") == who and c["t0"] <= r["wall"] < t_next]),
        })
    n = len(passes)
    for k, c in enumerate(cycles):
        if c.get("pcc") is None:
            # a turn that does not reach `process_changing_cause` (blind, finalizer, held back, carried): what it left on the
            # object is read off the next cycle's body / the final object (a blind turn leaves everything: /repo ad4ec08)
            after = cycles[k + 1]["body"] if k + 1 < n else f.final
            if after is not None:
                passes[k]["P"] = py_records(after, owned)
        if k + 1 < n:
            nxt = cycles[k + 1]
            passes[k]["base"] = "none" if nxt["cause"]["old_absent"] else ("diff" if nxt["cause"]["diff"] else "same")
            passes[k]["blocked"] = f.fin in (nxt["body"]["metadata"].get("finalizers") or [])
            passes[k]["gone"] = False
            passes[k]["pending"] = True
        else:
            passes[k]["pending"] = False
            passes[k]["gone"] = gone
            if gone:
                # what the closing pass wrote is not observable on an object that is gone: take the model's word
                # for `base`/`P`, which the requests' count and the next comparisons do not depend on
                passes[k]["base"] = None
                passes[k]["blocked"] = False
            else:
                b = py_base(f.final)
                passes[k]["base"] = "none" if b is None else ("same" if b == py_essence(f.final) else "diff")
                passes[k]["blocked"] = f.fin in (f.final["metadata"].get("finalizers") or [])
    p0 = c0.get("pcc")
    mb = c0.get("mem_before")
    if p0 is None and not blind and fin_turn(c0) is None and carried == "none" and inconsistent is None:
        return None, "first-pass-suppressed"
    if c0.get("cause") is None:
        return None, "no-cause"
    # memory flags of cycles that do not reach the handlers stay what they were
    fh = bool(mb["fully_handled_once"]) if mb else False
    for p, c in zip(passes, cycles):
        if c.get("pcc") is None:
            p["fullyHandled"] = fh
        fh = p["fullyHandled"]
    pp = next((c["pcc"] for c in cycles if c.get("pcc")), None)
    req = ["C03.run", {
        "decls": pp["decls"] if pp else decls, "matched": pp["matched"] if pp else [], "subs": [],
        "lifecycle": sc.get("lifecycle") or "asap", "limits": pp["limits"] if pp else {},
        "P": py_records(c0["body"], owned),
        "outcomes": table,
        "base": "none" if c0["cause"]["old_absent"] else ("diff" if c0["cause"]["diff"] else "same"),
        "noticed": bool(mb["noticed_by_listing"]) if mb else c0["event_type"] is None,
        "fullyHandled": bool(mb["fully_handled_once"]) if mb else False,
        "marked": bool(c0["body"]["metadata"].get("deletionTimestamp")),
        "blocked": f.fin in (c0["body"]["metadata"].get("finalizers") or []),
        "changeReq": change_req, "foreignFins": foreign,
        "constPatch": const_patch, "carried": carried, "inconsistent": inconsistent,
        "resumed": sorted((mb or {}).get("resumed_handlers") or []),
        "prematch": not blind, "now": passes[0]["now"],
        "lat": 1 + round(float((sc.get("echo_delay") or {}).get("default", 0.0)) * 64), "cap": cap, "rtt": 1,
        "relists": relists,
        "fuel": n + 8, "universe": owned}]
    return req, {"passes": passes, "quiescent": True, "dropped": dropped, "foreign": foreign, "idle": idle_vals is not None,
                 "carried": carried, "inconsistent": bool(inconsistent), "relists": len(relists)}


def model_view(out: dict, impl: dict) -> dict:
    keys = ("reason", "selected", "invoked", "now", "P", "fullyHandled", "writes", "base", "blocked", "gone", "pending")
    rows = [{k: p[k] for k in keys} for p in out["passes"]]
    if rows and impl["passes"] and impl["passes"][-1].get("gone") and len(rows) == len(impl["passes"]):
        # the object is gone: its last records / last-handled annotation cannot be observed
        rows[-1]["base"] = None
        rows[-1]["P"] = impl["passes"][-1]["P"]
    return {"passes": rows, "quiescent": out["quiescent"]}


# ---- generator ------------------------------------------------------------------------------------------------

def gen_scenario(rng: Any, i: int) -> dict:
    nh = rng.choice([1, 2, 2, 3, 3, 4])
    handlers: list[dict] = []
    fail_time = 0.0
    long_delay = rng.random() < 0.04
    for k in range(nh):
        kind = rng.choice(["create", "create", "update", "update", "update", "resume", "delete"])
        opts: dict[str, Any] = {}
        if rng.random() < 0.35:
            opts["labels"] = {"l": "1"}
        if rng.random() < 0.2:
            opts["retries"] = rng.choice([1, 2, 3])
        if rng.random() < 0.12:
            opts["timeout"] = rng.choice([2.0, 4.0, 8.0])
        if rng.random() < 0.5:
            opts["backoff"] = rng.choice([0.5, 1.0, 2.0])
        if rng.random() < 0.25:
            opts["errors"] = rng.choice(["ignored", "temporary", "permanent"])
        if kind == "delete" and rng.random() < 0.4:
            opts["optional"] = True
        if kind == "resume" and rng.random() < 0.3:
            opts["deleted"] = True
        script: list = []
        for _ in range(rng.choice([0, 0, 1, 1, 2, 3, 5])):
            a = rng.choice(["temp", "temp", "temp", "arb", "arb", "perm"])
            if a == "temp":
                d = rng.choice([0.5, 1.0, 2.0, 3.0, 6.0])
                if long_delay:
                    d, long_delay = 640.0, False
                    fail_time += 700.0
                script.append(["temp", d])
                fail_time += d + 1.0
            else:
                script.append(a)
                fail_time += 3.0
        default: Any = "ok"
        if rng.random() < 0.08:
            # a handler that takes time (awaits inside): edits, kills and deletions can arrive while it runs
            d = rng.choice([0.25, 1.0, 3.0])
            if script and rng.random() < 0.5:
                script[-1] = ["sleep", d, script[-1]]
            else:
                default = ["sleep", d, "ok"]
            fail_time += d * (len(script) + 1)
        handlers.append({"kind": kind, "id": f"{kind[0]}{k}", "opts": opts, "script": script, "default": default, "record_body": True})
    if rng.random() < 0.1 and any(h["kind"] in ("create", "update") for h in handlers):
        # stacked registration: ONE id registered for two causes (e.g. @on.update + @on.delete on one function)
        h0 = rng.choice([h for h in handlers if h["kind"] in ("create", "update")])
        k2 = rng.choice(["delete", "delete", "update" if h0["kind"] == "create" else "create"])
        handlers.append({"kind": k2, "id": h0["id"], "opts": {kk: v for kk, v in h0["opts"].items() if kk != "optional"},
                         "script": list(h0["script"]), "default": h0["default"], "record_body": True})
    deletion = rng.random() < 0.18
    if deletion and not any(h["kind"] == "delete" and not h["opts"].get("optional") for h in handlers):
        # a history that ends with a deletion held by the framework's finalizer: a mandatory deletion handler
        script = [rng.choice([["temp", 1.0], ["temp", 3.0], "arb"]) for _ in range(rng.choice([0, 1, 2]))]
        fail_time += 4.0 * len(script)
        opts = {"backoff": 1.0}
        if rng.random() < 0.2:
            opts["labels"] = {"l": "1"}
        handlers.append({"kind": "delete", "id": f"d{len(handlers)}", "opts": opts, "script": script, "default": "ok", "record_body": True})
    if rng.random() < 0.08:
        # an on.event handler returning a constant: every cycle's patch carries content that changes nothing
        handlers.append({"kind": "event", "id": f"e{len(handlers)}", "script": [], "default": ["ok", {"v": 1}]})
    if rng.random() < 0.06:
        # an on.event handler appending an idempotent patch function of a constant: after the first cycle it yields no
        # operation, every cycle's patch is non-empty and produces no request
        handlers.append({"kind": "event", "id": f"e{len(handlers)}", "script": [], "default": ["fn", 7, "ok"]})
    user_fns = rng.random() < 0.1
    fn_const = user_fns and rng.random() < 0.4
    if user_fns:
        # a handler that uses patch.fns (JSON-patch transformations); an external edit will land between the merge-patch
        # and the JSON-patch of one of its cycles (422: the fns are carried to the next cycle), then more edits follow;
        # in the constant variant that edit also satisfies the function, which is then carried as a no-op
        k = rng.choice(["update", "update", "create"])
        handlers.append({"kind": k, "id": f"{k[0]}{len(handlers)}", "opts": {}, "script": [], "default": ["fn", 7 if fn_const else "x", "ok"],
                         "record_body": True})
    echo = rng.choice([0.0, 0.0, 0.0, 0.015625, 0.0625, 0.5])
    body0 = {"spec": {"x": 0}, "metadata": {"labels": {"l": rng.choice(["0", "1", "1"])}}}
    empty = rng.random() < 0.14
    if empty:
        # an object whose essential state is EMPTY ({}), or as good as: nothing but system metadata, an empty spec, or
        # a status only — its stored last-handled state is a falsy value that still means "handled"
        body0 = rng.choice([{}, {}, {"spec": {}}, {"status": {"s": 0}}])
    foreign = rng.random() < 0.07
    if foreign:
        # somebody else's finalizer holds the object: a deletion leaves it marked after the framework released it
        body0 = {**body0, "metadata": {**(body0.get("metadata") or {}), "finalizers": ["example.com/hold"]}}
    sc: dict[str, Any] = {"seed": i, "lifecycle": rng.choice(["asap", "one_by_one", "all_at_once"]), "handlers": handlers,
                          "settings": {"execution.default_backoff": rng.choice([1.0, 2.0]),
                                       "watching.server_timeout": 32.0 if rng.random() < 0.08 else 4096.0,
                                       "watching.reconnect_backoff": 0.125},
                          "echo_delay": {"default": echo}}
    tl: list[list] = []
    t = 1.0
    if rng.random() < 0.25:
        sc["objects"] = [{"name": "a", "body": body0}]
    else:
        tl.append([t, "create", "a", body0])
    x, xs, label, note = 0, [0], (body0.get("metadata") or {}).get("labels", {}).get("l", "0"), 0
    stat = 0
    down = False
    wfaults = []

    def step() -> float:
        return rng.choice([0.015625, 0.03125, 0.25, 1.0, 2.0, 3.5, 6.0, 12.0])

    for _ in range(rng.choice([0, 1, 2, 2, 3, 4, 6])):
        t += step()
        op = rng.choice(["edit", "edit", "edit", "revert", "flip", "flip", "note", "burst", "delete",
                         "stop", "kill", "killw", "killw", "fault", "status", "cut"])
        if empty and rng.random() < 0.8:     # mostly keep the essence empty: restarts and non-essential events only
            op = rng.choice(["status", "status", "stop", "kill", "killw"])
        if op == "status":
            stat += 1
            tl.append([t, "edit", "a", {"status": {"s": stat}}])
        elif op == "edit":
            x = max(xs) + 1
            xs.append(x)
            tl.append([t, "edit", "a", {"spec": {"x": x}}])
        elif op == "revert":
            x = xs[-2] if len(xs) > 1 else x
            xs.append(x)
            tl.append([t, "edit", "a", {"spec": {"x": x}}])
        elif op == "flip":
            label = "0" if label == "1" else "1"
            tl.append([t, "edit", "a", {"metadata": {"labels": {"l": label}}}])
        elif op == "note":
            note += 1
            tl.append([t, "edit", "a", {"metadata": {"annotations": {"example.com/note": str(note)}}}])
        elif op == "burst":
            for _b in range(rng.choice([2, 3])):
                x = max(xs) + 1
                xs.append(x)
                tl.append([t, "edit", "a", {"spec": {"x": x}}])
                t += rng.choice([0.0, 0.015625, 0.03125])
        elif op == "delete":
            tl.append([t, "delete", "a"])
            if rng.random() < 0.6:
                t += step()
                x, xs = 0, [0]
                tl.append([t, "create", "a", body0])
        elif op == "cut":
            # a foreign change, then the watch stream is cut at once: echoes not yet delivered are lost (the operator may be
            # waiting for the version of its own last write, which then never arrives); re-watch or re-list (410)
            x = max(xs) + 1
            xs.append(x)
            tl.append([t, "edit", "a", {"spec": {"x": x}}])
            tl.append([t, "cut"] + (["410"] if rng.random() < 0.6 else []))
        elif op == "fault":
            # lost requests / lost responses inside a window that closes with one more edit (never inside the tail)
            x = max(xs) + 1
            xs.append(x)
            tl.append([t, "edit", "a", {"spec": {"x": x}}])
            w = rng.choice([0.5, 2.0, 8.0])
            wfaults.append({"t0": t, "t1": t + w, "fault": rng.choice(["conn-before", "conn-after"]), "times": rng.choice([1, 2])})
            t += w + 0.015625
            note += 1
            tl.append([t, "edit", "a", {"metadata": {"annotations": {"example.com/note": str(note)}}}])
        elif not down:
            tl.append([t, op] + ([rng.choice(["before", "after"])] if op == "killw" else []))
            for _e in range(rng.choice([0, 1, 1, 2, 3])):     # edits while (going) down
                t += step()
                if empty and rng.random() < 0.8:
                    stat += 1
                    tl.append([t, "edit", "a", {"status": {"s": stat}}])
                elif rng.random() < 0.3:
                    label = "0" if label == "1" else "1"
                    tl.append([t, "edit", "a", {"metadata": {"labels": {"l": label}}}])
                else:
                    x = max(xs) + 1
                    xs.append(x)
                    tl.append([t, "edit", "a", {"spec": {"x": x}}])
            t += rng.choice([0.5, 2.0, 5.0, 20.0])
            tl.append([t, "start"])
    if user_fns and not empty:
        sc["slips"] = [{"method": "PATCH", "ctype": "json-patch", "nth": rng.choice([1, 1, 2, 3]),
                        "op": ["edit", "a", {"spec": {"x": 1000 + i % 7}, **({"status": {"seen": [7]}} if fn_const and rng.random() < 0.7 else {})}]}]
        for _u in range(rng.choice([2, 3])):       # make sure the handler runs, conflicts, and is needed again later
            t += rng.choice([1.0, 3.5, 6.0])
            x = max(xs) + 1
            xs.append(x)
            tl.append([t, "edit", "a", {"spec": {"x": x}}])
    if deletion:
        t += step()
        tl.append([t, "delete", "a"])
        if rng.random() < 0.3:        # the operator is killed in the middle of the deletion and comes back
            t += rng.choice([0.015625, 0.5, 2.0])
            tl.append([t, rng.choice(["kill", "killw", "stop"])] + ([rng.choice(["before", "after"])] if tl and False else []))
            if tl[-1][1] == "killw":
                tl[-1].append(rng.choice(["before", "after"]))
            t += rng.choice([0.5, 3.0])
            tl.append([t, "start"])
    if foreign and rng.random() < 0.5:
        t += step()
        tl.append([t, "fins", "a", []])       # the other party lets go (the framework's own finalizer stays in place)
    sc["timeline"] = tl
    if wfaults:
        sc["wfaults"] = wfaults
    t = max([e[0] for e in tl], default=0.0)
    sc["t_silence"] = t
    sc["tq"] = TQ
    sc["end"] = t + 48.0 + 1.5 * fail_time + 2 * TQ
    add_spawning(sc, i, 0.12)
    add_configured(sc, i, 0.1)
    add_relists(sc, i, 0.3)
    add_shapes(sc, i, 0.3)
    return sc


def add_configured(sc: dict, i: int, p: float) -> None:
    """Configurations (white-box review C03 m8; drawn from a generator of its own): `settings.persistence.finalizer` set to
    another name than kopf's default — in half of them the object also carries kopf's DEFAULT name as somebody else's
    finalizer (an operator that was renamed, a second operator): it holds the object after the framework's release."""
    import random
    r = random.Random(i * 104729 + 7)
    if r.random() >= p:
        return
    sc.setdefault("settings", {})["persistence.finalizer"] = OTHER_FINALIZER
    sc["family3"] = "configured-finalizer"
    if r.random() < 0.5:
        for e in list(sc.get("timeline", [])) + [[0, "create", o["name"], o.setdefault("body", {"spec": {"x": 0}})] for o in sc.get("objects", [])]:
            if e[1] == "create" and len(e) > 3 and isinstance(e[3], dict):
                md = e[3].setdefault("metadata", {})
                if FINALIZER not in (md.get("finalizers") or []):
                    md["finalizers"] = list(md.get("finalizers") or []) + [FINALIZER]
        sc["family3"] = "configured-finalizer+default-name-is-foreign"


def add_spawning(sc: dict, i: int, p: float) -> None:
    """Composition with the neighbouring mechanism (C09/C10's daemons and timers; white-box review C03 m2): with a daemon or
    a timer on the resource the framework keeps a LIVE body of the object in its memory, refreshed per event, and classifies
    the cycle from it instead of from the event's own body; the framework's finalizer is then required for every object.
    A timer that returns nothing and a daemon that obeys its stop flag write nothing to the object, so every clause of the
    oracle reads as before. Mostly followed by an edit whose event is lost with a cut of the watch stream (410: the
    re-listing has to bring the change to the cycle). Drawn from a generator of its own: the rest of the scenario is
    what it was without this family."""
    import random
    r = random.Random(i * 7919 + 13)
    if r.random() >= p:
        return
    n = len(sc["handlers"])
    if r.random() < 0.6:
        sc["handlers"].append({"kind": "timer", "id": f"t{n}", "opts": {"interval": r.choice([16.0, 4096.0])}, "script": [], "default": "ok"})
    else:
        sc["handlers"].append({"kind": "daemon", "id": f"m{n}", "opts": {}, "daemon": {"mode": "obey", "poll": 0.5}})
    sc["family2"] = "spawning"
    tl = sc["timeline"]
    restarts = any(e[1] in ("stop", "kill", "killw") for e in tl)
    deleted = any(e[1] == "delete" for e in tl)
    if r.random() < 0.75 and not deleted and (not restarts or sc.get("family") != "deselect"):
        t = max([e[0] for e in tl], default=1.0) + r.choice([0.5, 2.0, 6.0])
        tl.append([t, "edit", "a", {"spec": {"x": 500 + i % 11}}])
        tl.append([t, "cut"] + (["410"] if r.random() < 0.85 else []))
        dt = t - float(sc["t_silence"])
        sc["t_silence"] = t
        sc["end"] = float(sc["end"]) + dt


def add_relists(sc: dict, i: int, p: float) -> None:
    """Delivery timings (the property's quantifier: 'every delivery timing of watch events'; seed C03f): the watch stream is
    re-established and begins with a LISTING although nothing changed — every object is delivered again as it is (`type=None`,
    the very resource version the worker has processed last). On a real cluster: 410 Gone after some minutes without events of
    the kind, a connection lost in the listing phase, un-pausing. 1-4 re-listings (`[t, "relist", "410"|"http410"]`) at moments
    taken relative to the external operations and to the handlers' scripted delays — i.e. while the framework sleeps till a
    retry, while a handler runs, in the very tick of an edit / right after it, while the operator is down (no effect), in
    the silent tail while retries are still outstanding, and after everything has settled. Nothing else of the scenario changes
    (a generator of its own); the object's versions, `t_silence` and the essential history are what they were."""
    import random
    r = random.Random(i * 15485863 + 29)
    if r.random() >= p:
        return
    tl = sc["timeline"]
    anchors = sorted({float(e[0]) for e in tl} | {float(sc["t_silence"]), 1.0})
    delays = sorted({float(a[1]) for h in sc["handlers"] for a in h.get("script", []) if isinstance(a, list) and a[0] == "temp"}
                    | {float(h.get("opts", {}).get("backoff") or 0.0) for h in sc["handlers"] if h.get("script")}
                    | {float((sc.get("settings") or {}).get("execution.default_backoff") or 0.0)}) or [1.0]
    t_last = float(sc["end"]) - 3 * float(sc.get("tq", TQ)) - 8.0       # leave the end of the tail to the quiescence clause
    n = r.choice([1, 1, 2, 2, 3, 4])
    times = []
    for _ in range(n):
        a = r.choice(anchors + [float(sc["t_silence"])] * 2)
        d = r.choice([x for x in delays if x > 0] or [1.0])
        k = r.random()
        if k < 0.6:        # inside a sleep of length d that started around the anchor
            off = d * r.choice([0.125, 0.25, 0.5, 0.75, 0.875]) + r.choice([0.0, 0.015625, 0.03125, 0.0625])
        elif k < 0.8:      # around the anchor itself / at the moment the retry is due
            off = r.choice([0.0, 0.015625, 0.03125, d, d + 0.015625, d - 0.140625, d - 0.15625])
        else:              # any time later (incl. several retries later, or after everything has settled)
            off = r.choice([0.5, 2.0, 3.5, 5.0, 7.0, 12.0, 25.0])
        t = round(max(0.5, min(a + max(off, 0.0), t_last)) * 64) / 64
        times.append(t)
    if r.random() < 0.25 and times:      # two re-listings in a row: the second arrives while the first one's cycle sleeps again
        times.append(min(times[-1] + r.choice([0.25, 1.0, 6.0]), t_last))
    for t in sorted(set(times)):
        tl.append([t, "relist", "http410" if r.random() < 0.2 else "410"])
    sc["family4"] = "relist"


# ---- the KINDS of essential changes (seed C03h): structured values instead of scalar counters ------------------------------

SHAPE_KINDS = ["list-tail-append", "list-tail-drop", "list-filled", "list-emptied", "list-head-insert", "list-head-drop",
               "list-item-changed", "list-rotated", "nested-list-tail-append", "nested-list-tail-drop", "dict-key-added", "dict-key-removed",
               "nested-scalar-changed", "int-to-bool", "spec-key-added", "spec-key-removed", "spec-key-grown"]
# the kinds in which NOTHING but the length of one list differs, the shorter being a prefix of the longer
LENGTH_ONLY = {"list-tail-append", "list-tail-drop", "list-filled", "list-emptied", "nested-list-tail-append", "nested-list-tail-drop",
               "spec-key-grown"}


def _shape_item(r: Any, n: int) -> Any:
    k = r.random()
    if k < 0.3:
        return f"s{n}"
    if k < 0.45:
        return n % 2
    return {"name": f"n{n}", "ports": r.choice([[], [80], [80, 443]]), "env": r.choice([{}, {"a": "1"}])}


def _shape_step(r: Any, v: dict, n: int, kind: str) -> dict | None:
    """ONE essential change of kind `kind` applied to the structured value `v` = {"x": <list>, "w": <absent=None | list>}
    (`x` goes into the spec field itself, `w` into a sibling key of the spec that comes and goes); None = not applicable."""
    import copy
    v = copy.deepcopy(v)
    x = v["x"]
    dicts = [it for it in x if isinstance(it, dict)]
    if kind == "list-tail-append" and x:
        x.append(_shape_item(r, n))
    elif kind == "list-tail-drop" and len(x) >= 2:
        for _ in range(r.choice([1, 1, 2]) if len(x) >= 3 else 1):
            x.pop()
    elif kind == "list-filled" and not x:
        x.extend(_shape_item(r, n + k) for k in range(r.choice([1, 1, 2])))
    elif kind == "list-emptied" and x:
        del x[:]
    elif kind == "list-head-insert" and x:
        x.insert(0, _shape_item(r, n))
    elif kind == "list-head-drop" and len(x) >= 2:
        x.pop(0)
    elif kind == "list-item-changed" and x:
        x[r.randrange(len(x))] = f"c{n}"
    elif kind == "list-rotated" and len(x) >= 2 and py_json_differs(x[0], x[-1]):
        x.append(x.pop(0))        # the same items in another order
    elif kind == "nested-list-tail-append" and dicts:
        r.choice(dicts)["ports"].append(8000 + n)
    elif kind == "nested-list-tail-drop" and any(d["ports"] for d in dicts):
        r.choice([d for d in dicts if d["ports"]])["ports"].pop()
    elif kind == "dict-key-added" and dicts:
        r.choice(dicts)["env"][f"k{n}"] = "v"
    elif kind == "dict-key-removed" and any(d["env"] for d in dicts):
        d = r.choice([d for d in dicts if d["env"]])
        del d["env"][sorted(d["env"])[0]]
    elif kind == "nested-scalar-changed" and dicts:
        r.choice(dicts)["name"] = f"m{n}"
    elif kind == "int-to-bool" and any(isinstance(it, int) and not isinstance(it, bool) for it in x):
        k = next(k for k, it in enumerate(x) if isinstance(it, int) and not isinstance(it, bool))
        x[k] = bool(x[k])         # 0 -> False, 1 -> True: equal for Python's `==`, a change for JSON
    elif kind == "spec-key-added" and v["w"] is None:
        v["w"] = r.choice([[], [f"w{n}"]])
    elif kind == "spec-key-removed" and v["w"] is not None:
        v["w"] = None
    elif kind == "spec-key-grown" and v["w"] is not None:
        v["w"].append(f"w{n}")
    else:
        return None
    return v


def add_shapes(sc: dict, i: int, p: float) -> None:
    """WHICH KINDS of essential changes the external edits make (seed C03h; a generator of its own, the rest of the scenario is
    what it was): in the other families every spec edit replaces one integer by another. Here every integer value `n` of a
    spec field stands for a STRUCTURED value S(n) — a list of strings, numbers and mappings (with nested lists and mappings),
    plus a sibling key of the spec that comes and goes — and S(n) is made from the value the object holds at that moment by
    ONE change of a kind drawn from SHAPE_KINDS: a list grown / shrunk at its tail, filled / emptied, at its head, one item
    replaced, the same items in another order; the same one level down (a list inside a mapping inside the list); a key added to / removed from a nested
    mapping or the spec itself; a nested scalar changed; a number turned into the boolean that Python takes for equal. n ↦ S(n)
    is injective per field, so a revert is a revert (it undoes the change: the inverse kind), a field that a `field=` filter
    reads changes exactly when it did, and all timing / restart / fault structure is untouched. (null vs. absent is NOT
    generated: the open finding C04-F10.) Lists are replaced as a whole by a merge-patch, so every edit is self-contained."""
    import copy
    import random
    r = random.Random(i * 2654435761 + 41)
    if r.random() >= p:
        return
    table: dict[str, dict[int, dict]] = {}
    cur: dict[str, dict] = {}
    kinds_made: list[str] = []

    def value(f: str, n: int) -> dict:
        tb = table.setdefault(f, {})
        if n not in tb:
            if f not in cur:
                v = {"x": r.choice([[], ["a"], ["a", "b"], [{"name": "a", "ports": [80], "env": {}}], ["a", 1, {"name": "b", "ports": [], "env": {"a": "1"}}]]),
                     "w": r.choice([None, None, ["w"]])}
                kinds_made.append("initial")
            else:
                v = None
                for _ in range(24):
                    kind = r.choice(SHAPE_KINDS)
                    v = _shape_step(r, cur[f], n, kind)
                    if v is not None and all(v != o for o in tb.values()):
                        kinds_made.append(kind)
                        break
                    v = None
                if v is None:       # always applicable, always new (the item carries n)
                    v = copy.deepcopy(cur[f])
                    v["x"].append(f"u{n}")
                    kinds_made.append("list-tail-append" if len(v["x"]) > 1 else "list-filled")
            tb[n] = v
        else:
            kinds_made.append("revert")
        cur[f] = tb[n]
        return tb[n]

    def spec_of(spec: dict, create: bool) -> dict:
        out: dict[str, Any] = {}
        for f, n in spec.items():
            if isinstance(n, int) and not isinstance(n, bool):
                v = value(f, n)
                out[f] = copy.deepcopy(v["x"])
                if v["w"] is not None:
                    out[f + "w"] = copy.deepcopy(v["w"])
                elif not create:
                    out[f + "w"] = None        # merge-patch: the key goes away (or was not there)
            else:
                out[f] = n
        return out

    def body_of(body: dict, create: bool) -> dict:
        body = copy.deepcopy(body)
        if isinstance(body.get("spec"), dict):
            body["spec"] = spec_of(body["spec"], create)
        raw = ((body.get("metadata") or {}).get("annotations") or {}).get(LAST_HANDLED)
        if raw is not None:      # an object that comes with a last-handled state (handled by an earlier operator)
            lh = json.loads(raw)
            if isinstance(lh.get("spec"), dict):
                lh["spec"] = spec_of(lh["spec"], True)
            body["metadata"]["annotations"][LAST_HANDLED] = json.dumps(lh, separators=(",", ":")) + "\n"
        return body

    for o in sc.get("objects") or []:
        if isinstance(o.get("body"), dict):
            o["body"] = body_of(o["body"], True)
    for e in sorted(sc.get("timeline", []), key=lambda e: float(e[0])):
        if e[1] in ("create", "edit") and len(e) > 3 and isinstance(e[3], dict):
            e[3] = body_of(e[3], e[1] == "create")
    for s in sc.get("slips") or []:
        op = s.get("op")
        if isinstance(op, list) and op and op[0] == "edit" and isinstance(op[-1], dict):
            op[-1] = body_of(op[-1], False)
    sc["family5"] = "shapes"
    sc["shape_kinds"] = kinds_made


DESELECT_FIELDS = ["x", "y", "z"]


def gen_deselect(rng: Any, i: int) -> dict:
    """The SELECTED set changes inside an open cycle while the cause kind stays the same (seed C03d's class): update
    handlers with `field=` filters on different fields (the victim sometimes with a label filter instead). The victim
    fails (finitely often) and is retrying / sleeping — its unfinished record is on the object — when the next change
    reverts its field (flips its label) and changes another field: another handler of the SAME cause kind is selected,
    the victim is not. Around it: graceful stop / kill / kill right before or after the next PATCH, with the change
    made during the downtime or before / after it; 2 or 3 handlers; afterwards the other field changes again (the
    handler has to run AGAIN, against the final state), the victim's field changes again (selected again), both, or
    nothing; then silence."""
    n = rng.choice([2, 2, 3, 3])
    fields = DESELECT_FIELDS[:n]
    by_label = rng.random() < 0.2
    long_d = rng.choice([4.0, 8.0, 8.0, 64.0, 640.0])
    fail_time = 0.0
    handlers: list[dict] = []
    for k, f in enumerate(fields):
        opts: dict[str, Any] = {"field": f"spec.{f}"}
        if k == 0:
            if by_label:
                opts = {"labels": {"l": "1"}}
            script: list = []
            for _ in range(rng.choice([1, 1, 2, 3])):
                if rng.random() < 0.75:
                    script.append(["temp", long_d])
                    fail_time += long_d + 1.0 + (60.0 if long_d > 600 else 0.0)
                else:
                    script.append("arb")
                    opts["backoff"] = 8.0
                    fail_time += 9.0
        else:
            script = []
            for _ in range(rng.choice([0, 0, 1, 1, 2])):
                a = rng.choice([["temp", 0.5], ["temp", 1.0], ["temp", 2.0], "arb", "perm"])
                script.append(a)
                fail_time += 3.0
            if rng.random() < 0.2:
                opts["retries"] = rng.choice([1, 2])
            if rng.random() < 0.3:
                opts["backoff"] = rng.choice([0.5, 1.0])
        handlers.append({"kind": "update", "id": f"h{f}", "opts": opts, "script": script, "default": "ok", "record_body": True})
    if rng.random() < 0.15:
        handlers.append({"kind": "resume", "id": "r", "opts": {}, "script": [rng.choice(["ok", ["temp", 1.0]])], "default": "ok", "record_body": True})
        fail_time += 2.0
    deletion = rng.random() < 0.12
    if deletion:
        handlers.append({"kind": "delete", "id": "d", "opts": {"backoff": 1.0}, "script": [rng.choice([["temp", 1.0], "arb"]) for _ in range(rng.choice([0, 1]))],
                         "default": "ok", "record_body": True})
        fail_time += 4.0
    rng.shuffle(handlers)
    spec0 = {f: 0 for f in fields}
    body0: dict[str, Any] = {"spec": dict(spec0), "metadata": {"labels": {"l": "1"}}}
    sc: dict[str, Any] = {"seed": i, "lifecycle": rng.choice(["asap", "one_by_one", "all_at_once"]), "handlers": handlers,
                          "settings": {"execution.default_backoff": rng.choice([1.0, 2.0]), "watching.server_timeout": 4096.0,
                                       "watching.reconnect_backoff": 0.125},
                          "echo_delay": {"default": rng.choice([0.0, 0.0, 0.0, 0.015625, 0.0625])}, "family": "deselect"}
    tl: list[list] = []
    if rng.random() < 0.4:
        body0["metadata"]["annotations"] = {LAST_HANDLED: json.dumps({"spec": spec0, "metadata": {"labels": {"l": "1"}}}, separators=(",", ":")) + "\n"}
        sc["objects"] = [{"name": "a", "body": body0}]
        t = 1.0
    else:
        tl.append([1.0, "create", "a", body0])
        t = 2.0
    down = False

    def restart(at: float, back: float) -> None:
        how = rng.choice(["stop", "kill", "kill", "killw"])
        tl.append([at, how] + ([rng.choice(["before", "after"])] if how == "killw" else []))
        tl.append([back, "start"])

    # 1. the victim's field changes (sometimes another one with it): the victim is selected and fails
    first: dict[str, Any] = {"x": 1}
    if rng.random() < 0.25:
        first[rng.choice(fields[1:])] = 1
    t += rng.choice([0.5, 1.0])
    tl.append([t, "edit", "a", {"spec": dict(first)}])
    t1 = t
    # 2. before its retry: its field is reverted (its label flipped), other fields change
    t += rng.choice([0.25, 0.5, 1.0, 2.0, 3.0])
    others = [f for f in fields[1:] if rng.random() < 0.7] or [fields[1]]
    second: dict[str, Any] = {"spec": {"x": 0, **{f: 2 for f in others}}}
    if by_label:
        second = {"spec": {f: 2 for f in others}, "metadata": {"labels": {"l": "0"}}}
        if rng.random() < 0.5:
            second["spec"]["x"] = 0
    tl.append([t, "edit", "a", second])
    t2 = t
    r = rng.random()
    if r < 0.35:          # the change is made while the operator is down
        restart(t1 + 0.125, t2 + rng.choice([0.5, 2.0, 5.0, 20.0]))
        down = True
        t = tl[-1][0]
    elif r < 0.5:         # the operator goes away right after it (possibly in the middle of the closing write)
        ts = t2 + rng.choice([0.0, 0.015625, 0.03125, 0.5, 1.5])
        restart(ts, ts + rng.choice([0.5, 2.0, 5.0]))
        down = True
        t = tl[-1][0]
    # 3. afterwards
    for _ in range(rng.choice([0, 1, 1, 2])):
        t += rng.choice([0.015625, 0.5, 2.0, 4.0, 9.0])
        what = rng.choice(["other", "other", "other", "victim", "both", "label"])
        v = 3 + len(tl)
        if what == "other":
            tl.append([t, "edit", "a", {"spec": {rng.choice(fields[1:]): v}}])
        elif what == "victim":
            tl.append([t, "edit", "a", {"spec": {"x": v}, **({"metadata": {"labels": {"l": "1"}}} if by_label else {})}])
        elif what == "both":
            tl.append([t, "edit", "a", {"spec": {"x": v, rng.choice(fields[1:]): v}}])
        else:
            tl.append([t, "edit", "a", {"metadata": {"labels": {"l": rng.choice(["0", "1"])}}}])
    if not down and rng.random() < 0.2:
        ts = t + rng.choice([0.5, 3.0])
        restart(ts, ts + rng.choice([0.5, 5.0]))
        t = tl[-1][0]
    if deletion:
        t += rng.choice([0.5, 3.0, 6.0])
        tl.append([t, "delete", "a"])
    sc["timeline"] = tl
    t = max(e[0] for e in tl)
    sc["t_silence"] = t
    sc["tq"] = TQ
    sc["end"] = t + 48.0 + 1.5 * fail_time + 2 * TQ
    add_spawning(sc, i, 0.1)
    add_configured(sc, i, 0.08)
    add_relists(sc, i, 0.25)
    add_shapes(sc, i, 0.25)
    return sc


# ---- running ------------------------------------------------------------------------------------------------------

def _corpus() -> list[tuple[str, dict]]:
    return [(n, d["scenario"] if "scenario" in d else d) for n, d in load_corpus(ID) if not d.get("guard_witness")]


def guard_witnesses(ctx: Ctx) -> None:
    """Histories OUTSIDE the property's quantifier that show a guard is needed (corpus files marked `guard_witness`):
    a filter that reads what the framework itself writes. They are not judged by the oracle (the never-ending writes
    are the user's filter flipping on the framework's own finalizer, not a defect); the real operator's cycles are
    compared turn by turn with the Lean instance of `unstable_filters_witness` (`loopStepG envOfU`)."""
    items = [(n, d) for n, d in load_corpus(ID) if d.get("guard_witness")]
    if not items:
        return
    results = sim_c03.run_many([d["scenario"] for _, d in items], wall=40.0)
    turns = 12
    for (name, d), res in zip(items, results):
        if "trace" not in res or res["trace"].get("sim_error"):
            raise RuntimeError(f"guard witness {name}: simulation failed: {str(res)[:1500]}")
        tr = res["trace"]
        ctx.traces += 1
        cycles = [c for c in tr["cycles"] if c["event_type"] != "DELETED"][:turns]
        rows = []
        for k, c in enumerate(cycles):
            fns = (c.get("apply") or {}).get("fns") or []
            nxt = tr["cycles"][k + 1]["body"] if k + 1 < len(tr["cycles"]) else None
            rows.append({"reason": "add-finalizer" if "block_deletion" in fns else ("remove-finalizer" if "allow_deletion" in fns else "other"),
                         "blocked": bool(nxt is not None and FINALIZER in (nxt["metadata"].get("finalizers") or [])),
                         "invoked": len(c["invoked"]),
                         "writes": len([r for r in tr["requests"] if r["method"] == "PATCH" and OBJ in r["path"] and r.get("cycle_i") == c["i"]]),
                         "pending": nxt is not None})
        aborted = any(m["what"] == "aborted" for m in tr["marks"])
        try:
            out = ctx.driver.ask([["C03.unstable", {"turns": turns}]])[0]
        except leanio.LeanError as e:
            ctx.tie_fail(f"Lean driver failed: {e}", {"log": e.log})
            return
        if not out or out[0] != "ok":
            ctx.tie_fail("driver rejected the guard witness", {"answer": out})
            continue
        ctx.count("guard_witness", f"{d['guard_witness']}:{'never-settles' if aborted else 'settles'}")
        ctx.compare(f"C03 guard witness {name} (filter reads the framework's own finalizer)",
                    {"turns": rows, "never_settles": aborted}, {"turns": out[1]["turns"], "never_settles": True},
                    {"scenario": d["scenario"], "guard_witness": d["guard_witness"]})
        ctx.case(key={"guard_witness": d["guard_witness"], "never_settles": aborted}, nontrivial=True)


def _evaluate(ctx: Ctx, scenarios: list[dict], tie: bool = True) -> None:
    results = sim_c03.run_many(scenarios, wall=40.0)
    cap = _keepalive_cap(ctx)
    reqs, impls, where = [], [], []
    changes: dict[str, tuple] = {}      # (last-handled, essence) pairs the real cause detection classified: Lean `baseClass` on the same values
    for sc, res in zip(scenarios, results):
        if res.get("stall"):
            ctx.oracle_fail("the simulated operator did not finish within the wall-clock limit (a task spinning without suspending, or never settling)", {"scenario": sc, "stderr": res.get("stderr", "")[-3000:]},
                            {"site": "event loop", "shape": "simulation did not finish: operator task spinning or never settling"})
            continue
        if "trace" not in res:
            raise RuntimeError(f"simulation failed: {str(res)[:2000]}")
        tr = res["trace"]
        if tr.get("sim_error"):
            raise RuntimeError(f"simulation error: {tr['sim_error']}")
        ctx.traces += 1
        o = oracle(ctx, sc, tr)
        if tie and not any(h["kind"] in ("timer", "daemon") for h in sc["handlers"]):
            for cyc in tr["cycles"]:
                cs, b = cyc.get("cause"), cyc.get("body") or {}
                if cs and cyc["event_type"] != "DELETED" and isinstance(b.get("metadata"), dict):
                    pair = [py_base(b), py_essence(b)]
                    got = "none" if cs.get("old_absent") else ("diff" if cs.get("diff") else "same")
                    changes.setdefault(leanio.canon(pair + [got]), (pair, got, sc, cyc["i"]))
        kinds = sorted({e[1] + (":" + e[2] if e[1] == "killw" else "") for e in sc.get("timeline", []) if e[1] in ("stop", "kill", "killw")})
        how = sorted({m.get("how") for m in tr["marks"] if m["what"] == "killed"} - {None})
        ctx.count("class", o["class"])
        ctx.count("outstanding", o.get("outstanding"))
        if sc.get("family"):
            ctx.count("family_class", f"{sc['family']}:{o['class']}")
        if sc.get("family3"):
            ctx.count("family_class", f"{sc['family3']}:{o['class']}")
        if sc.get("family4"):
            ctx.count("family_class", f"relist:{o['class']}")
            # where the re-listed object found the worker: in a cycle that was sleeping till a retry (the cycle ended right then,
            # before its delay elapsed and without a touch), in a cycle otherwise busy, or idle
            for c in tr["cycles"]:
                if c["event_type"] is None and c["i"] > 0 and c["uid"] is not None:
                    prev = next((x for x in reversed(tr["cycles"][:c["i"]]) if x["uid"] == c["uid"] and x["inc"] == c["inc"]), None)
                    if prev is None:
                        ctx.count("relisted_event", "first event of the incarnation (initial listing)")
                        continue
                    ap = prev.get("apply") or {}
                    same = str(prev.get("rv")) == str(c.get("rv"))
                    cut = bool(ap.get("delays")) and ap.get("t_end") is not None and abs(float(ap["t_end"]) - float(c["t0"])) < 1e-9 \
                        and float(ap["t_end"]) < float(ap["t"]) + min(float(d) for d in ap["delays"])
                    ctx.count("relisted_event", f"{'same version as the last processed' if same else 'newer version'}, "
                              f"{'interrupts the sleep till a retry' if cut else 'worker not sleeping for a retry'}")
        if sc.get("family5"):
            ctx.count("family_class", f"shapes:{o['class']}")
            for kd in sc.get("shape_kinds") or []:
                ctx.count("essential_change_kind", kd + (" (length of one list only)" if kd in LENGTH_ONLY else ""))
        for kd, k in (o.get("outstanding_kinds") or {}).items():
            ctx.count("outstanding_change_seen_by_a_cycle", kd, k)
        if sc.get("family2"):
            sp = next((h for h in sc["handlers"] if h["kind"] in ("timer", "daemon")), {})
            relist = any(e[1] == "cut" and len(e) > 2 for e in sc.get("timeline", []))
            ctx.count("family_class", f"spawning({sp.get('kind')}{', change brought by a re-listing' if relist else ''}):{o['class']}")
        # passes in which the object carries the UNFINISHED record, same purpose, of a handler that is not selected (any more)
        for c in tr["cycles"]:
            p = c.get("pcc")
            if p and p["reason"] in KINDS and p["selected"] and p.get("outcomes") is not None:
                stale = [h for h in p["owned"] if h not in p["selected"] and p["P"].get(h) and not (p["P"][h]["success"] or p["P"][h]["failure"])
                         and p["P"][h].get("purpose") in (None, p["reason"])]
                if stale:
                    ctx.count("unselected_unfinished_same_purpose", f"{p['reason']}: closed={bool(p.get('closed'))}")
                # passes in which a selected handler that is declared for the cause finds its NAMESAKE's record under its id
                # (one id registered for several causes): not taken over since /repo f7d6401
                for d in p.get("decls") or []:
                    r0 = p["P"].get(d["id"])
                    if d["id"] in p["selected"] and d["gate"].get("reason") == p["reason"] and r0 and r0.get("purpose") not in (None, p["reason"]):
                        ctx.count("namesake_record_not_inherited", f"{r0.get('purpose')} -> {p['reason']}: "
                                  f"{'finished' if r0['success'] or r0['failure'] else 'unfinished'}")
        if o.get("field_selected"):
            ctx.count("field_handlers_selected_for_the_outstanding_change", o["field_selected"])
        for k in kinds:
            ctx.count("restart_kind", k)
        for h in how:
            ctx.count("kill_fired", h)
        for fd in o["findings"]:
            ctx.count("finding", fd)
        ctx.count("downtime_with_edits", o.get("downtime_edits", 0))
        if o.get("hung_stop"):
            ctx.count("graceful_stop", "hung-then-killed")
        ctx.count("ops", len(sc.get("timeline", [])))
        ctx.count("echo_delay", (sc.get("echo_delay") or {}).get("default", 0))
        b0 = next((e[3] for e in sc.get("timeline", []) if e[1] == "create" and len(e) > 3), None) or (sc.get("objects") or [{}])[0].get("body")
        ctx.count("initial_essence", "empty" if b0 is not None and not py_essence(b0) else ("empty-spec" if b0 is not None and py_essence(b0) == {"spec": {}} else "non-empty"))
        shape: dict[str, Any] = {"class": o["class"], "outstanding": o.get("outstanding"), "restarts": kinds, "fired": how,
                                 "findings": sorted(set(o["findings"]))}
        nontrivial = bool(kinds)
        sample = None
        if tie:
            req, impl = abstract_tail(sc, tr, cap)
            if req is None:
                ctx.count("tie", f"skipped:{impl}")
            else:
                ctx.count("tie", "compared")
                for why, k in impl.pop("dropped").items():
                    ctx.count("tail_leading_cycles_dropped", why, k)
                if impl.pop("foreign"):
                    ctx.count("tail_with", "foreign-finalizer")
                if impl.pop("idle"):
                    ctx.count("tail_with", "idle-patch-fns")
                nr = impl.pop("relists")
                if nr:
                    ctx.count("tail_with", "sleep interrupted by the object re-listed as it is", nr)
                if impl.pop("inconsistent"):
                    ctx.count("tail_with", "held-back-nonempty-patch")
                cr = impl.pop("carried")
                if cr != "none":
                    ctx.count("tail_with", f"carried-patch-{cr}")
                if req[1]["constPatch"]:
                    ctx.count("tail_with", "const-patch")
                if req[1]["resumed"]:
                    ctx.count("tail_with", "resumed-handlers-in-memory")
                for p in impl["passes"]:
                    ctx.count("tail_turn", p["reason"])
                ctx.count("tail_end", "gone" if impl["passes"][-1].get("gone") else "live")
                ctx.count("tail_passes", len(impl["passes"]))
                shape["tail"] = [(p["reason"], len(p["invoked"]), p["writes"]) for p in impl["passes"]]
                shape["lc"] = sc.get("lifecycle")
                nontrivial = nontrivial or any(p["reason"] in KINDS for p in impl["passes"])
                reqs.append(req)
                impls.append(impl)
                where.append({"scenario": sc})
                if len(impl["passes"]) >= 3:
                    sample = {"scenario_seed": sc.get("seed"), "request": req[1], "impl": impl}
        ctx.case(key=shape, nontrivial=nontrivial, sample=sample)
    if changes:
        items = list(changes.values())
        try:
            outs = ctx.driver.ask([["C03.change", pair[0], pair[1]] for pair, _, _, _ in items])
        except leanio.LeanError as e:
            ctx.tie_fail(f"Lean driver failed: {e}", {"log": e.log})
            return
        for (pair, got, sc, ci), out in zip(items, outs):
            if not out or out[0] != "ok":
                ctx.count("tie_change", "skipped: values outside the model's JSON (e.g. non-integer numbers)")
                continue
            ctx.count("tie_change", f"{got}" + ("; the prefix variant of the comparison would say same" if got == "diff" and out[1]["variantPfx"] == "same" else ""))
            ctx.compare("C03 class of (last-handled, essence) at a cycle: kopf's cause detection vs Lean baseClass", got, out[1]["base"],
                        {"scenario": sc, "cycle": ci, "last_handled": pair[0], "essence": pair[1]})
    if not reqs:
        return
    try:
        outs = ctx.driver.ask(reqs)
    except leanio.LeanError as e:
        ctx.tie_fail(f"Lean driver failed: {e}", {"log": e.log})
        return
    for req, impl, out, wh in zip(reqs, impls, outs, where):
        if not out or out[0] != "ok":
            ctx.tie_fail("driver rejected a tail", {"request": req, "answer": out, **wh})
            continue
        ctx.compare("C03 silent tail", impl, model_view(out[1], impl), wh)


def run(ctx: Ctx) -> None:
    n = ctx.budget(150, 5000)
    scenarios = [sc for _, sc in _corpus()]
    scenarios += [gen_scenario(ctx.rng, ctx.seed * 100000 + i) for i in range(n)]
    ctx.count("scenarios", "corpus", len(scenarios) - n)
    ctx.count("scenarios", "generated", n)
    nd = max(40, n // 4)
    scenarios += [gen_deselect(ctx.rng, 80_000_000 + ctx.seed * 100000 + i) for i in range(nd)]
    ctx.count("scenarios", "generated-deselect", nd)
    chunk = 1000
    for k in range(0, len(scenarios), chunk):
        _evaluate(ctx, scenarios[k:k + chunk])
    guard_witnesses(ctx)
    # composition tie: whole-operator histories with late echoes and foreign writes, replayed iteration by iteration
    # through the composed Lean step X01.work (versions generated by the model, never fed)
    x01_reactor.run_reactor(ctx, n=ctx.budget(24, 600))


def search(ctx: Ctx, broken: list) -> None:
    """A proof/tie is broken: look for a concrete failing history with the oracle at a larger budget."""
    scenarios = []
    for b in broken[:10]:
        inp = (b.replay or {}).get("input", {}) if isinstance(b.replay, dict) else {}
        sc = inp.get("scenario")
        # (a guard witness is a history OUTSIDE the quantifier — it never settles by design — and is never judged by the
        # oracle: a broken tie on it must not come back from the search as a "failing input"; white-box review C03 m4)
        if sc and not inp.get("guard_witness"):
            scenarios.append(sc)
    n = ctx.budget(1200, 8000)
    scenarios += [gen_deselect(ctx.rng, 83_000_000 + ctx.seed * 100000 + i) for i in range(n // 4)]
    scenarios += [gen_scenario(ctx.rng, 3_000_000 + ctx.seed * 100000 + i) for i in range(n)]
    _evaluate(ctx, scenarios, tie=False)


def replay(ctx: Ctx, data: dict) -> None:
    rep = data.get("replay", data)
    sc = rep.get("scenario") or rep.get("input", {}).get("scenario")
    _evaluate(ctx, [sc], tie=False)
