"""C02 — recorded handler progress governs invocation (no re-run of finished handlers).

Theorems: lean/Kopf/Props/C02.lean over the model lean/Kopf/Model/C02_Cycle.lean (one pass of
`process_changing_cause` as a function of the persisted records). Tie (S): every handling pass of
closed-loop simulations of the real operator is replayed through the model: same invocations (with
the same `retry`), same resulting records, same closing decision, same delays.
"""
from __future__ import annotations

import json
import random
from typing import Any

import ast

from .. import leanio, pyextract
from ..core import Ctx, ExtractError
from ..sim import pool
from . import sim_c02

ID = "C02"
LEVEL = "proof"
STRENGTH = "partial"
ENGINES = ["lean-model", "pyextract", "kopfsim"]
TIE = "T (HandlerState booleans, with_outcome flags, lifecycles re-extracted and re-proved) + S: step refinement — each real handling pass (closed-loop simulation incl. restarts/kills) replayed through the Lean `cycle`"
LEVEL_TEXT = ("Lean theorems for all stored-record maps, outcome scripts, lifecycles (one_by_one/all_at_once/asap) and clocks. "
              "ONE ID, SEVERAL REGISTRATIONS (/repo f7d6401, formerly C03-N3): the whole pass is `cycleB cfg bound P` — the records of selected "
              "handlers that are declared for the cause (`bound`) but carry another cause's purpose (their namesake's: one function stacked "
              "under one id for several causes) are left out of the loaded state; pass_is_cycle_over_taken: cycleB = `cycle` over the records "
              "TAKEN OVER (`taken`, characterised by taken_iff) — invocations, closing decision, delays and every record afterwards, also at the "
              "namesakes' ids; hence every theorem about `cycle` below is a theorem about the code's pass read over `taken cfg bound P`. Stated "
              "for the whole pass: no_rerun_own (a finished record of the handler's OWN — no purpose / this cause's / a mix-in handler — is not "
              "re-run), retry_kwarg_taken, invoked_selected_awake_taken, namesake_starts_from_scratch (every lifecycle: invoked only with retry 0, "
              "whatever its namesake's record says), namesake_not_inherited (all-at-once: it IS invoked in this pass), "
              "closed_iff_all_finished_taken, closed_purges_whole, namesake_record_overwritten, final_outcome_recorded_whole, "
              "finished_never_invoked_whole / once_per_cycle_whole (inside one cycle nothing is left out: invokedSeqB_eq), composed with sub-passes: "
              "composed_pass_is_cycle2_over_taken, cycle2B_child_no_rerun, cycle2B_closed_purges_children; free_pass_purges (the cause FREE, "
              "/repo 40d09eb: `cycleB` invokes nothing, closes nothing, removes every owned record present and, by their subrefs, their "
              "sub-handlers', touches nothing else — `cycle`, over which C14/C15's lemmas are stated, keeps the no-op purge only); "
              "namesake_not_inherited_regression "
              "(the N3 history: before nothing invoked & closed; now `h` invoked with retry 0). NEGATIVE, with witnesses replayed on the real "
              "operator: namesake_subrefs_dropped_witness (OPEN C02-F2 = C03-N7, brought in by f7d6401: the namesake's record is left out with "
              "its subrefs, its children's records survive the closing purge), namesake_children_inherit_witness (OPEN C03-N8 = C11-F6: the "
              "sub-pass leaves nothing out, the children of the handler that starts from scratch inherit its namesake's children's records). "
              "Single pass, unguarded: no_rerun, retry_kwarg, invoked_selected_awake, closed_iff_all_finished, closed_purges(+skip, "
              "+subrefs), final_outcome_recorded, due_invoked_all_at_once (the converse for all-at-once only). 'Exactly when every "
              "SELECTED handler has finished' also over objects that carry UNFINISHED records, same purpose, of handlers that are "
              "no longer selected (field reverted / label flipped while retrying): closed_ignores_unselected_records (two objects "
              "that agree on the selected handlers' records get the same invocations and the same closing decision, whatever else "
              "they carry; no NoExtras-like hypothesis), closed_despite_unselected_unfinished; the seeded variant `done := not "
              "counts.running` (seed C03d) is refuted on the seed's own history: counts_running_variant_never_closes(_witness). Across passes "
              "(any placement of restarts and foreign events that keep the cause; selection/limits/lifecycle may change per pass): "
              "finished_persists, finished_never_invoked(_varying), once_per_cycle(_varying) — GUARDED by `NoExtras` (no cause "
              "supersedes the open cycle in between); the guard is needed: superseding_cause_reruns_witness; the environments "
              "the property itself excludes: stale_view_reruns. Sub-handlers: the sub-pass (sub_no_rerun, sub_retry_kwarg, "
              "parent_final_iff_subs_finished, sub_records_covered, sub_writes_only_known) and the pass COMPOSED with the "
              "sub-passes of its parents on one store (`cycle2`: cycle2_refines_cycle, cycle2_closed_purges_children, "
              "cycle2_child_no_rerun, cycle2_keeps_untouched); 'a sub-handler … is never invoked again across intervening events' "
              "WAS false of the code (finding C02-F1, repaired by /repo 88a8bee: the purge is selective) and is now the regression "
              "theorem sub_not_rerun_after_supersede_regression. None of the sub-handler theorems has a hypothesis on the cause: they "
              "hold for the sub-handlers of deletion handlers verbatim (delete_parent_runs_its_children_regression, the model-side "
              "regression of /repo 345a874→17e5c42). The SELECTION side of a sub-registry is an INPUT of the model: `subCfgOf` takes "
              "the sub-handlers the parent registered as the selected ones (sub_selection_is_registration states it); under it, "
              "cycle2_closed_children_finished ('not before' for children, every cause) and cycle2_due_child_invoked_all_at_once "
              "(a due registered child IS invoked) are theorems; the input is compared with what `subhandling.execute` really "
              "selects on every parent invocation (tie 'C02 sub-registry selection') and the oracle requires it of the real "
              "operator (a registered, still due sub-handler is invoked; parent/cycle not finished before the children); the gate "
              "that decides it in the code (`ChangingRegistry.iter_handlers`) is modelled in C15 (`Kopf.C15.gate`) and C05 "
              "(`Kopf.C05.gate`). 'Last-handled state written exactly when closed': the "
              "model has the closing decision (`closed`), compared with the code on every pass; the write itself is an oracle "
              "clause. Ties: T (HandlerState booleans, outcome flags, lifecycles), S per pass (invocations, every top-level "
              "record, purged children both ways, closing decision, delays), S per sub-pass, S per whole pass with its sub-passes. "
              "WHITE-BOX REVIEW (review/wb/C02; model `Kopf.Model.C02_Nested`, theorems `Kopf.Props.C02_Nested`): (1) sub-handlers BELOW the "
              "first level — `subPassN` (the parent's outcome references the keys of its own sub-pass and whatever the sub-handlers it "
              "invoked report: the accumulator stack of `invoke_handler`), `execDeep` (any depth): subPassN_same_pass (every `subPass` theorem "
              "carries over), subN_records_covered, subN_reports_covered, below_covered (ALL LEVELS DEEP, induction over the levels, no "
              "bound), reported_purged_on_close + nested_records_purged_on_close ('progress records removed' for sub-handlers of any "
              "depth), nested_accumulator_regression; (2) a parent whose OWN function fails AFTER its children ran in the same invocation "
              "— `parentOutcome`: parentOutcome_subrefs / _open / _own, failing_parent_children_purged_on_close (whatever the ending: every "
              "`return Outcome(…)` of `execute_handler_once` is generated); (3) the RESUMED FILTER between the registry's selection and the "
              "handlers the pass is given (/repo 6c4463d; the mechanism is C14's) — `selectResumed`, `resumedAfter`: left_out_is_resumed, "
              "resumed_run_all_final, left_out_had_finished ('every SELECTED handler has finished' is not weakened by the filter: whoever "
              "is left out reached a final outcome in an earlier pass of this process), closing_empties_resumed. Ties added: the sub-pass "
              "tie runs at EVERY depth with `subPassN`; the selection after the filter and the in-memory set after the pass are compared "
              "per pass. Oracle clauses added: a handler is invoked at most once per pass; a handler the registry selects is left out only "
              "as a resuming one that reached a final outcome in this process (judged from the observed outcomes); a sub-handler's record "
              "is referenced by EVERY record it is nested in; at most one success per cycle also at the function level; every clause "
              "reads the records wherever the configured storage keeps them (annotations under any prefix, status, both). "
              "A FINISHED HANDLER THAT LEAVES THE SELECTION INSIDE AN OPEN CYCLE AND COMES BACK (seed C02f's class: a labels= / annotations= / "
              "field= filter that stops matching and matches again; an @on.resume handler left out by the in-process memory and selected again "
              "after a restart): finished_kept_while_unselected (the pass in which it is not selected keeps its record as it is), "
              "finished_never_invoked_resumed (whatever the in-process memory of finished resuming handlers holds at each pass — emptied by "
              "restarts — a handler recorded as finished is not invoked while the cycle is open; corollary of finished_never_invoked_varying); "
              "the seeded variant `cycleUnselPurgeVariant` (the purge of fallen records extended to records of the current purpose whose "
              "handler is not active) is indistinguishable from the code in one pass (unselected_purge_variant_same_pass), forgets the record "
              "(unselected_purge_variant_forgets, every cfg / script / clock) and re-invokes the handler with retry 0 on the seed's histories "
              "(unselected_purge_variant_reruns_witness: after a success and after a permanent failure). Oracle clause added (oracle_recorded): "
              "the property's first sentence over the HISTORY of the object — once a pass of the cycle was given the object with the handler's "
              "(or sub-handler's) own success / permanent failure on it, no later pass of that cycle invokes it: whatever the view given later "
              "carries, whether or not it was selected in between, across graceful stops AND kills; the end of the cycle is judged from the "
              "property text (every selected handler finished / nothing selected / another or no cause). "
              "THE VIEW A PASS IS GIVEN AFTER THE OPERATOR'S OWN PROGRESS-STORING WRITE (seed C02h's class; model Kopf.Model.C02_View: the worker's "
              "one test `m seen expected` on the version of its own patch as a parameter, versions in the server's order): for EVERY test that "
              "accepts no older version (kopf's equality: mEq_sound) and every queue of older foreign views, the pass admitted before the "
              "consistency timeout runs on the records the own write stored (admitted_view_carries_own_write), hence "
              "no_rerun_after_own_write / retry_kwarg_after_own_write; the string order of the seeded change is unsound "
              "(string_order_unsound_witness: '99' >= '100') and on the history 98 -> foreign 99 -> own 100 re-invokes the finished handler and "
              "restarts the retry number (string_order_reruns_witness). Oracle clause added (oracle_own_write): 'recorded on the object' read over "
              "the object as the SERVER holds it after the operator's own acknowledged PATCH (request log + version history of the fake server), "
              "not over the view the pass is given: a pass of the same operator process on an older view (server's order of versions) within the "
              "consistency timeout must not invoke a handler that write records as finished, must pass `retry` = the attempts it records, and "
              "must not start a cycle over that the write closed. The server's numbering of its versions (width boundaries, gaps, 1-19 digits) "
              "is part of every generated history (histograms rv_plan, handlers_run_on_a_view_older_than_the_own_write, views_older_than_the_own_write).")
THEOREMS = [("Kopf.Props.C02", "Kopf.C02." + n) for n in [
    "no_rerun", "retry_kwarg", "invoked_selected_awake", "closed_iff_all_finished", "closed_ignores_unselected_records",
    "closed_despite_unselected_unfinished", "counts_running_variant_never_closes", "counts_running_variant_never_closes_witness",
    "closed_purges", "closed_purges_skip", "closed_purges_subrefs", "finished_persists", "final_outcome_recorded", "noExtras_preserved",
    "finished_never_invoked", "once_per_cycle", "finished_never_invoked_varying", "once_per_cycle_varying", "stale_view_reruns",
    "due_invoked_all_at_once", "sub_no_rerun", "sub_retry_kwarg", "parent_final_iff_subs_finished", "sub_records_covered", "sub_writes_only_known",
    "sub_records_purged_on_close", "superseding_cause_reruns_witness",
    "cycle2_refines_cycle", "cycle2_closed_purges_children", "cycle2_child_no_rerun", "sub_not_rerun_after_supersede_regression", "cycle2_keeps_untouched",
    "sub_selection_is_registration", "cycle2_closed_children_finished", "cycle2_due_child_invoked_all_at_once",
    "delete_parent_runs_its_children_regression",
    "pass_is_cycle_over_taken", "free_pass_purges", "taken_iff", "no_rerun_own", "retry_kwarg_taken", "invoked_selected_awake_taken",
    "namesake_starts_from_scratch", "namesake_not_inherited", "closed_iff_all_finished_taken", "closed_purges_whole",
    "namesake_record_overwritten", "final_outcome_recorded_whole", "invokedSeqB_eq", "finished_never_invoked_whole",
    "once_per_cycle_whole", "namesake_not_inherited_regression", "namesake_subrefs_dropped_witness",
    "composed_pass_is_cycle2_over_taken", "cycle2B_child_no_rerun", "cycle2B_closed_purges_children",
    "namesake_children_inherit_witness",
    "finished_kept_while_unselected", "unselected_purge_variant_same_pass", "unselected_purge_variant_forgets",
    "unselected_purge_variant_reruns_witness"]] + [("Kopf.Props.C02_Nested", "Kopf.C02." + n) for n in [
    "subPassN_same_pass", "subPassN_eq_subPass_of_leaves", "subN_records_covered", "subN_reports_covered", "below_covered",
    "reported_purged_on_close", "nested_records_purged_on_close", "nested_accumulator_regression",
    "parentOutcome_subrefs", "parentOutcome_open", "parentOutcome_own", "failing_parent_children_purged_on_close",
    "left_out_is_resumed", "selectResumed_sub", "resumedAfter_mem", "closing_empties_resumed", "resumed_run_all_final",
    "left_out_had_finished", "finished_never_invoked_resumed"]] + [("Kopf.Props.C02_View", "Kopf.C02." + n) for n in [
    "mEq_sound", "admitted_view_carries_own_write", "no_rerun_after_own_write", "retry_kwarg_after_own_write",
    "string_order_unsound_witness", "string_order_reruns_witness"]]
TIE_THEOREMS = [("Kopf.Tie.C02", "Kopf.C02.Tie." + n) for n in [
    "finished_eq", "sleeping_eq", "awakened_eq", "success_eq", "failure_eq", "one_by_one_eq", "all_at_once_eq"]]
RULE = ("seeded scenarios: 1-4 change handlers (create/update/delete/resume, optional sub-handlers), outcome scripts over "
        "ok/temporary(delay)/permanent/arbitrary, retries/timeout/backoff/errors settings, three lifecycles, object edits, deletion, "
        "graceful stops and kills with restarts at random dyadic times; a sub-handler family (gen_subs): parents of every kind "
        "(create/update/delete/resume/field) with 1-3 children registered by @kopf.subhandler (implicit run or argument-less "
        "kopf.execute()), kopf.register, or kopf.execute(fns=…), scripts for children and parents, objects existing before the "
        "start or created later, deletion requested while the children of an update/field/resume parent are retrying, restarts "
        "in between (histograms sub_parent_kind*, sub_registration, sub_pass_shape, sub_selection); a de-selection family (gen_deselect): "
        "2-3 update handlers with field= filters on different fields (the victim sometimes label-filtered or an @on.field handler, "
        "sometimes an unfiltered sibling, a delete/resume handler), the victim retrying/sleeping when the next change reverts its "
        "field and changes another one (another handler of the SAME cause kind is selected), stop/kill + restart before, around "
        "(downtime holding the change) or after it, later changes of the other field, of the victim's field (selected again), of "
        "both (histogram unselected_unfinished_same_purpose); a stacked-registration family (gen_stacked): ONE function registered under ONE id "
        "for update+delete / create+delete / create+update / all three, with the same filters and limits, the record under the shared id "
        "finished, failed for good, retrying or sleeping (or a sibling keeps the cycle open) when the superseding cause — the deletion, an "
        "edit, a label flip — arrives, early or after the first cycle closed, stop / kill + restart in between, a foreign finalizer that keeps "
        "the object after the release, a resuming sibling (mix-in), sub-handlers under the first registration only or under both (histogram "
        "namesake_record_not_inherited); a RE-SELECTION family (gen_reselect): a handler reaches a final outcome (success, permanent failure, success "
        "after a retry, failure by retries=) that is recorded, a sibling keeps the cycle open, then the finished handler is NOT selected in some "
        "pass(es) and SELECTED AGAIN in the same cycle — by a label or annotation (value / presence) flipped away and back, by its field= being "
        "reverted and changed again, as a finished @on.resume handler left out by the in-process memory and selected again after stop / kill + "
        "restart (one or two), or both; causes create / update (found at the start or made on the timeline) / resume / delete; histograms "
        "reselect_way, reselect_final, finished_handler_unselected_in_open_cycle, finished_handler_selected_again_in_open_cycle (measured by the "
        "oracle); a FREE family (gen_free): the object marked for deletion, not (or no longer) held by the "
        "framework's finalizer, kept alive by somebody else's, carrying the records of create / update / resume handlers (some with "
        "sub-handlers) that were retrying when the deletion came — no deletion handler, an optional one, one whose label filter fails, or "
        "a mandatory one that is run and released first — then foreign edits, the other party letting go, stop / kill + restart "
        "(histogram free_pass); a NESTED family (gen_nested, harness/props/sim_c02.py): sub-handlers two and three levels deep, each "
        "level registered any of the four ways; parents (top-level or nested) whose own function ends AFTER their children ran — one "
        "scenario per `return Outcome(…)` of execute_handler_once in every run (temporary / permanent / arbitrary error x errors= mode x "
        "retries / timeout look-ahead; histogram parent_ending_after_its_children) — or raises right after registering them; parents "
        "whose SET of sub-handlers changes between invocations (histograms sub_nesting, sub_parent_fails_after); a LEGACY family "
        "(gen_legacy): objects that carry records WITHOUT a purpose, with or without retries/stopped/message, some in "
        "status.kopf.progress, while an update / the creation is outstanding; a STACKED-RESUME family (gen_stacked_resume): ONE "
        "function object under `@on.resume` + `@on.update|create|delete` in either order of registration (kopf keeps the first "
        "registered where both match); half of gen_stacked with ONE function object (`same_fn`); a sample of every family re-run under "
        "another `settings.persistence.progress_storage` (annotations under another prefix, status.<name>.progress, both; histogram "
        "progress_storage); a STALE-VIEW family (gen_stale_view): somebody else's writes between the event a pass works on and the pass's own "
        "progress-storing PATCH (while a handler sleeps, or slipped in right before the n-th PATCH), one or two handlers finishing in that pass "
        "(success / permanent failure / retries=), a sibling retrying after 0.125-1 s, all causes and lifecycles, echoes within the consistency "
        "timeout; the server's version numbering as part of EVERY scenario of every family (gen_rv_plan: the counter starts below a power of ten "
        "or a round number, leaps to the next decimal width right before the n-th own PATCH, gaps, magnitudes up to 2^62; histogram rv_plan); "
        "one case = one handling pass; distinct & non-trivial = "
        "distinct abstracted (reason, stored-record shape, outcomes, closing) tuples with at least one handler selected")
TRUSTED = ["harness/sim (virtual-time loop, fake API server, scripted handlers, attribute-level observation of kopf)",
           "abstraction of a pass: records decoded with kopf's own progress storage (C16's subject)",
           "the closing decision of a pass is observed through `memory.fully_handled_once` (reset around the call, restored after)",
           "harness/props/sim_c02.py (scripted parents with nested sub-handlers / own endings / changing sets; one function object for "
           "stacked registrations; progress storage from the scenario; observation of the registry's selection, the executed handlers, "
           "memory.resumed_handlers and the sub-passes below the first level)"]
ASSUMPTIONS = ["randomized/shuffled lifecycles are not modelled (they draw from `random`); generators use the three deterministic ones",
               "one id registered for several causes (one function, stacked decorators) = several handlers with one record: which selected "
               "handlers are declared for the cause (`bound`: on.create/update/delete, as opposed to resuming/field) is an input of the model, read "
               "off the decorators' gates as the implementation reports them; generated with the same filters/limits for all registrations of "
               "the id; an id registered with AND without a reason (on.resume + on.update/create/delete on ONE function object) is generated by "
               "gen_stacked_resume: `bound` is then read off the gates of the SELECTED handlers (kopf keeps the first registered of the two "
               "where both match). The oracle reads a "
               "record of another cause's purpose under the id of a handler declared for the cause as NOT that handler's (the property's "
               "'a handler whose success is recorded': the registration for this cause has recorded nothing)",
               "the multi-pass theorems chain every pass from what the previous one wrote (the honest reading of 'absent crashes, lost "
               "responses, late echoes') and assume no pass of another reason (a superseding cause, incl. a no-op that purges) in between",
               "`cycle2` composes one level of sub-handlers on one clock; nested sub-handlers (generated since the white-box review), "
               "parents that fail after their sub-pass, and passes in which time advances between the handlers (sleeping handlers) are "
               "compared per sub-pass — at every depth, with `subPassN` — but not as one composed pass (histogram whole_pass_skipped); "
               "`subPassN` takes what a nested sub-handler reports from that sub-handler's OUTCOME (for the code, the accumulator it was "
               "given): the two differ only if an `except` branch drops the references — then the tie of the enclosing pass breaks",
               "the error policy that turns the parent's own exception into final/error/delay is C11's: for a parent that raised after "
               "its sub-pass the tie compares the sub-pass and the references of the outcome, the oracle the records",
               "sync handlers run inline (no real threads)",
               "which sub-handlers a sub-registry yields for the cause is an input of the model (`subCfgOf`: the registered children are "
               "the selected ones — sub-handlers without criteria of their own); the gate in the code (`ChangingRegistry.iter_handlers`: "
               "reason/initial/deleted/field_needs_change) is modelled in C15 (`Kopf.C15.gate`) and C05 (`Kopf.C05.gate`); here the input is "
               "compared with the code per parent invocation and required by the oracle, for every cause incl. deletion",
               "sub-handlers with criteria or limits of their own (labels/when/field/retries/timeout on @kopf.subhandler), and "
               "`kopf.execute(handlers=…)` / `(registry=…)`, are not generated",
               "progress storages: the oracle decodes annotations `<prefix>/<id with / as .>` (short ids) and `status.<name>.progress`; "
               "ids long enough to be hashed into the annotation name are C16's subject and not generated here",
               "WHICH handlers a labels= / field= filter selects for a cause is C15's subject: oracle and model take the selection the "
               "implementation computed for the pass (`get_handlers(cause)`) as given; what is judged here is what the pass does with "
               "it — in particular that records of handlers OUTSIDE the selection (finished or not, same purpose or not) neither keep "
               "the cycle open nor survive its closing"]

OWN_PREFIX = "kopf.zalando.org/"
OWN_FINALIZER = "kopf.zalando.org/KopfFinalizerMarker"
KINDS = ["create", "update", "delete", "resume"]


REC_VOCAB = {
    "self.success": "r.success", "self.failure": "r.failure", "self.finished": "(Rec.finished r)",
    "self.sleeping": "(Rec.sleeping r now)", "self.delayed is not None": "r.delayed.isSome",
    "self.delayed > now": "(match r.delayed with | some d => decide (d > now) | none => false)",
}
OUT_VOCAB = {"outcome.final": "o.final", "outcome.exception is None": "(!o.error)", "outcome.exception is not None": "o.error"}


def _unbool(e: ast.expr) -> ast.expr:
    if isinstance(e, ast.Call) and pyextract.norm(e.func) == "bool" and len(e.args) == 1 and not e.keywords:
        return e.args[0]
    return e


def _property_expr(cls: ast.ClassDef, name: str) -> ast.expr:
    fn = pyextract.find_def(cls, name)
    body = [st for st in pyextract.body_without_docstring(fn)
            if not (isinstance(st, ast.Assign) and pyextract.norm(st.targets[0]) == "now")]
    if len(body) != 1 or not isinstance(body[0], ast.Return) or body[0].value is None:
        raise ExtractError(f"HandlerState.{name} is no longer a single boolean return")
    return _unbool(body[0].value)


def extract(ctx: Ctx) -> None:
    """T-tie for the boolean definitions the pass depends on: HandlerState.finished/sleeping/awakened,
    the success/failure flags of `with_outcome`, and the two list-slicing lifecycles."""
    tree = pyextract.parse_file(ctx.repo / "kopf/_core/actions/progression.py")
    cls = pyextract.find_def(tree, "HandlerState")
    tr = pyextract.BoolTranslator(REC_VOCAB)
    fin = tr.tr(_property_expr(cls, "finished"))
    slp = tr.tr(_property_expr(cls, "sleeping"))
    awk = tr.tr(_property_expr(cls, "awakened"))
    wo = pyextract.find_def(cls, "with_outcome")
    rets = [st for st in wo.body if isinstance(st, ast.Return)]
    if len(rets) != 1 or not isinstance(rets[0].value, ast.Call):
        raise ExtractError("with_outcome no longer returns a single constructor call")
    kws = {k.arg: k.value for k in rets[0].value.keywords}
    otr = pyextract.BoolTranslator(OUT_VOCAB)
    try:
        succ = otr.tr(_unbool(kws["success"]))
        fail = otr.tr(_unbool(kws["failure"]))
        retr = pyextract.norm(kws["retries"])
        dly = pyextract.norm(kws["delayed"])
    except KeyError as e:
        raise ExtractError(f"with_outcome lost the keyword {e}")
    if retr != "(self.retries if self.retries is not None else 0) + 1":
        raise ExtractError(f"with_outcome.retries changed: `{retr}`")
    if dly != "now + datetime.timedelta(seconds=outcome.delay) if outcome.delay is not None else None":
        raise ExtractError(f"with_outcome.delayed changed: `{dly}`")
    ltree = pyextract.parse_file(ctx.repo / "kopf/_core/actions/lifecycles.py")
    lc = {}
    for name in ("all_at_once", "one_by_one"):
        fn = pyextract.find_def(ltree, name)
        body = pyextract.body_without_docstring(fn)
        if len(body) != 1 or not isinstance(body[0], ast.Return):
            raise ExtractError(f"lifecycle {name} is no longer a single return")
        lc[name] = pyextract.norm(body[0].value)
    lean_lc = {"handlers": "todo", "handlers[:1]": "todo.take 1"}
    for name, text in lc.items():
        if text not in lean_lc:
            raise ExtractError(f"lifecycle {name} returns `{text}`, outside the accepted shapes")
    asap = pyextract.find_def(ltree, "asap")
    asap_ret = [pyextract.norm(st.value) for st in asap.body if isinstance(st, ast.Return)]
    if asap_ret != ["sorted(handlers, key=keyfn)[:1]"]:
        raise ExtractError(f"lifecycle asap changed: {asap_ret}")
    out = pyextract.HEADER.format(src="kopf/_core/actions/progression.py, lifecycles.py")
    out += "import Kopf.Model.C02_Cycle\nnamespace Kopf.C02.Extracted\nopen Kopf.C02\n\n"
    out += f"def finished (r : Rec) : Bool := {fin}\n"
    out += f"def sleeping (r : Rec) (now : Tick) : Bool := {slp}\n"
    out += f"def awakened (r : Rec) (now : Tick) : Bool := {awk}\n"
    out += f"def success (o : Outcome) : Bool := {succ}\n"
    out += f"def failure (o : Outcome) : Bool := {fail}\n"
    out += f"def allAtOnce (todo : List Id) : List Id := {lean_lc[lc['all_at_once']]}\n"
    out += f"def oneByOne (todo : List Id) : List Id := {lean_lc[lc['one_by_one']]}\n"
    out += "\nend Kopf.C02.Extracted\n"
    leanio.write_generated("Kopf/Extracted/C02.lean", out)


def gen_scenario(rng: Any, i: int) -> dict:
    nh = rng.choice([1, 2, 2, 3, 4])
    handlers = []
    for k in range(nh):
        kind = rng.choice(["create", "create", "update", "update", "delete", "resume"])
        opts: dict[str, Any] = {}
        if rng.random() < 0.3:
            opts["retries"] = rng.choice([1, 2, 3])
        if rng.random() < 0.2:
            opts["timeout"] = rng.choice([2.0, 4.0, 8.0])
        if rng.random() < 0.5:
            opts["backoff"] = rng.choice([0.5, 1.0, 2.0])
        if rng.random() < 0.3:
            opts["errors"] = rng.choice(["ignored", "temporary", "permanent"])
        if rng.random() < 0.3:
            opts["labels"] = {"l": "1"}     # deselected/reselected by label flips in the timeline
        if kind == "delete" and rng.random() < 0.3:
            opts["optional"] = True
        if kind == "resume" and rng.random() < 0.5:
            opts["deleted"] = True
        script = []
        for _ in range(rng.choice([0, 1, 1, 2, 3])):
            a = rng.choice(["ok", "temp", "temp", "perm", "arb", "arb"])
            script.append(["temp", rng.choice([0.5, 1.0, 2.0, 3.0])] if a == "temp" else a)
        h: dict[str, Any] = {"kind": kind, "id": f"{kind[0]}{k}", "opts": opts, "script": script, "default": "ok"}
        if kind in ("create", "update") and rng.random() < 0.35:
            h["sub"] = [{"id": f"s{j}", "script": [rng.choice(["ok", ["temp", 1.0], ["temp", 0.5], "perm"])
                                                   for _ in range(rng.choice([1, 1, 2]))]} for j in range(rng.choice([1, 2, 3]))]
            # the parent runs its children on "ok"; a later perm/temp/arb pass does not reach them
            h["script"] = ["ok"] * rng.choice([0, 1, 2, 3]) + [rng.choice(["ok", "perm", "arb", ["temp", 1.0]])]
        handlers.append(h)
    t = 1.0
    timeline: list[list] = [[t, "create", "a", {"spec": {"x": 0}, "metadata": {"labels": {"l": rng.choice(["0", "1", "1"])}}}]]
    for n in range(rng.choice([0, 1, 2, 3, 4])):
        t += rng.choice([0.25, 1.0, 2.5, 4.0, 7.0, 12.0])
        if rng.random() < 0.35:
            timeline.append([t, "edit", "a", {"metadata": {"labels": {"l": rng.choice(["0", "1"])}}}])
        else:
            # small value set: a change is sometimes reverted to the last-handled state while handlers retry
            timeline.append([t, "edit", "a", {"spec": {"x": rng.choice([0, 1, 2, n + 1])}}])
    if rng.random() < 0.5:
        t += rng.choice([0.5, 3.0, 9.0])
        timeline.append([t, "delete", "a"])
    end = t + 30.0
    # restarts: graceful stops and kills at random moments, restart shortly after
    for _ in range(rng.choice([0, 0, 1, 1, 2])):
        ts = rng.randrange(32, int(end * 64)) / 64.0
        kind = rng.choice(["stop", "kill"])
        timeline.append([ts, kind])
        timeline.append([ts + rng.choice([0.5, 2.0, 5.0]), "start"])
    sc = {"seed": i, "lifecycle": rng.choice(["asap", "one_by_one", "all_at_once"]), "handlers": handlers,
          "timeline": timeline, "settings": {"execution.default_backoff": rng.choice([1.0, 2.0])}, "end": end}
    if rng.random() < 0.3:
        sc["status_subresource"] = True
    return sc


NON_PROGRESS_KEYS = {"last-handled-configuration", "touch-dummy", "kopf-managed"}


def _progress_records(body: dict, sc: dict) -> dict[str, Any]:
    """Every progress record the object carries, WHEREVER the configured storage keeps it — independent decoding, from
    the documented layouts (docs/configuration.rst): annotations `<prefix>/<id with / as .>` holding JSON, and/or
    `status.<name>.progress.<id>`. Keys: the id in its annotation form (`p.c.g`); values: the decoded record, or None
    for one that does not decode. The annotation wins where both exist (the order in which the storages are asked)."""
    spec = sc.get("progress_storage") or {}
    kind = spec.get("kind", "smart")
    prefix = spec.get("prefix", "kopf.zalando.org") + "/"
    name = spec.get("name", "kopf")
    out: dict[str, Any] = {}
    if kind in ("annotations", "multi", "smart"):
        for k, raw in ((body.get("metadata") or {}).get("annotations") or {}).items():
            if k.startswith(prefix) and k[len(prefix):] not in NON_PROGRESS_KEYS:
                try:
                    out[k[len(prefix):]] = json.loads(raw)
                except (ValueError, TypeError):
                    out[k[len(prefix):]] = None
    if kind in ("status", "multi", "smart"):      # the default storage reads the status too (it never writes there)
        st = ((body.get("status") or {}).get(name) or {})
        for hid, rec in ((st.get("progress") if isinstance(st, dict) else None) or {}).items():
            out.setdefault(str(hid).replace("/", "."), rec if isinstance(rec, dict) else None)
    return out


def _body_after(cyc: dict) -> dict | None:
    """The object after this cycle's merge-patch (independent RFC 7386 application)."""
    ap = cyc.get("apply")
    if not ap:
        return None
    from .. import rfc
    return rfc.merge_patch(cyc["body"], ap["patch"])


def gen_supersede(rng: Any, i: int) -> dict:
    """A cause superseding an open cycle: resume handlers (one still retrying) mixed into an update or a
    deletion that arrives before the resume cycle is closed; spec flips back and forth."""
    handlers = [
        {"kind": "resume", "id": "r0", "opts": {"deleted": rng.random() < 0.5}, "script": [rng.choice(["ok", "ok", "perm"])], "default": "ok"},
        {"kind": "resume", "id": "r1", "opts": {"deleted": rng.random() < 0.5, "backoff": 1.0},
         "script": [["temp", rng.choice([2.0, 4.0, 6.0])] for _ in range(rng.choice([1, 2, 3]))], "default": "ok"},
        {"kind": "update", "id": "u0", "script": [rng.choice(["ok", ["temp", 1.0]])], "default": "ok"},
    ]
    if rng.random() < 0.4:
        handlers.append({"kind": "delete", "id": "d0", "opts": {"optional": rng.random() < 0.5}})
    rng.shuffle(handlers)
    essence = {"spec": {"x": 1}, "metadata": {"labels": {"l": "1"}}}
    obj = {"name": "a", "body": {"spec": {"x": 1}, "metadata": {"labels": {"l": "1"}, "annotations": {
        OWN_PREFIX + "last-handled-configuration": json.dumps(essence, separators=(",", ":")) + "\n"}}}}
    t = rng.choice([0.5, 1.0, 2.0, 3.0])
    tl: list[list] = []
    for _ in range(rng.choice([1, 2, 3])):
        op = rng.choice(["spec", "spec", "back", "delete"])
        if op == "spec":
            tl.append([t, "edit", "a", {"spec": {"x": rng.choice([2, 3])}}])
        elif op == "back":
            tl.append([t, "edit", "a", {"spec": {"x": 1}}])
        else:
            tl.append([t, "delete", "a"])
        t += rng.choice([0.5, 1.0, 2.0, 5.0])
    return {"seed": i, "lifecycle": rng.choice(["asap", "one_by_one", "all_at_once"]), "handlers": handlers,
            "objects": [obj], "timeline": tl, "settings": {"execution.default_backoff": 1.0}, "end": t + 30.0}


def gen_restart_supersede(rng: Any, i: int) -> dict:
    """A cycle left open by a previous operator process (one resume handler finished, a sibling still retrying) is
    superseded at the restart: the object was edited while the operator was down, so the new process sees an
    update cause with the resuming handlers mixed in — the finished handler's record comes from the OTHER process."""
    handlers = [
        {"kind": "resume", "id": "r0", "opts": {}, "script": [rng.choice(["ok", "ok", "perm"])], "default": "ok"},
        {"kind": "resume", "id": "r1", "opts": {"backoff": 1.0},
         "script": [["temp", rng.choice([4.0, 6.0, 8.0])] for _ in range(rng.choice([2, 3]))], "default": "ok"},
        {"kind": "update", "id": "u0", "script": [rng.choice(["ok", ["temp", 1.0]])], "default": "ok"},
    ]
    rng.shuffle(handlers)
    essence = {"spec": {"x": 1}, "metadata": {"labels": {"l": "1"}}}
    obj = {"name": "a", "body": {"spec": {"x": 1}, "metadata": {"labels": {"l": "1"}, "annotations": {
        OWN_PREFIX + "last-handled-configuration": json.dumps(essence, separators=(",", ":")) + "\n"}}}}
    t = rng.choice([1.0, 2.0, 3.0])
    tl: list[list] = [[t, rng.choice(["stop", "kill"])],
                      [t + 0.25, "edit", "a", rng.choice([{"spec": {"x": 2}}, {"metadata": {"labels": {"z": "1"}}}])],
                      [t + rng.choice([0.5, 1.0, 2.0]), "start"]]
    if rng.random() < 0.4:
        tl.append([t + 4.0, "edit", "a", {"spec": {"x": 3}}])
    return {"seed": i, "lifecycle": rng.choice(["asap", "one_by_one", "all_at_once"]), "handlers": handlers,
            "objects": [obj], "timeline": tl, "settings": {"execution.default_backoff": 1.0}, "end": t + 40.0}


def gen_foreign_burst(rng: Any, i: int) -> dict:
    """Several foreign events of the object queued between the event kopf works on and the echo of its own
    progress patch (another actor edits labels/status while a handler runs, or the echo is slow but well
    within the consistency timeout): the views they carry lack the progress just recorded."""
    kind = rng.choice(["create", "update"])
    n = rng.choice([2, 2, 3])
    handlers = []
    for k in range(n):
        script: list = []
        if k == 0 or rng.random() < 0.4:
            script.append(["sleep", rng.choice([0.5, 1.0, 1.5]), rng.choice(["ok", "ok", ["temp", 1.0]])])
        handlers.append({"kind": kind, "id": f"{kind[0]}{k}", "opts": {}, "script": script, "default": "ok"})
    t0 = 1.0
    timeline: list[list] = [[t0, "create", "a", {"spec": {"x": 0}, "metadata": {"labels": {"l": "1"}}}]]
    t = t0
    if kind == "update":
        t = t0 + 3.0
        timeline.append([t, "edit", "a", {"spec": {"x": 1}}])
    for j in range(rng.choice([2, 2, 3, 4])):
        t += rng.choice([0.125, 0.25, 0.25, 0.5])
        what = rng.choice(["label", "label", "status"])
        timeline.append([t, "edit", "a", {"metadata": {"labels": {f"z{j % 2}": str(j)}}} if what == "label"
                         else {"status": {"foreign": j}}])
    return {"seed": i, "lifecycle": rng.choice(["one_by_one", "asap", "all_at_once"]), "handlers": handlers,
            "timeline": timeline, "settings": {"execution.default_backoff": 1.0},
            "echo_delay": {"default": rng.choice([0.0, 0.0, 0.25, 0.5, 1.0])}, "end": t + 30.0}


def gen_rv_plan(rng: Any) -> dict | None:
    """How the server numbers its versions (the environment's part of every history; the plan language and the classes are
    C07's `gen_rv_plan`, copied). To a client a resourceVersion is an opaque string. The fake server's own numbering (101,
    102, …) keeps ONE decimal width, consecutive and small numbers for a whole history; a real server's counter is shared by
    all objects (gaps), grows through every power of ten, and is a 64-bit number. Classes: the counter starts shortly below a
    power of ten (widths 1-19) or another round number d·10^k; it leaps to the end of its width right before the n-th PATCH
    of the operator (the operator's own write gets the first version one digit longer than a foreign write made just before
    it); magnitudes around 2^31, 2^53, 10^18, 2^62; gaps between versions."""
    mode = rng.choice(["default", "near", "near", "near", "jump", "jump", "jump", "big", "random"])
    if mode == "default":
        return None
    strides = rng.choice([[1], [1], [1], [1, 1, 2], [1, 3, 1, 7], [2], [11, 1, 1], [1, 1, 1, 90]])
    k = rng.choice([1, 2, 2, 3, 3, 4, 5, 6, 8, 9, 12, 16, 18])
    plan: dict = {"strides": strides, "mode": mode}
    if mode == "near":
        plan["start"] = max(1, rng.choice([1, 1, 1, 2, 7]) * 10 ** k
                            - rng.randrange(3, 3 + rng.choice([6, 12, 25, 40]) * max(1, sum(strides) // len(strides))))
    elif mode == "big":
        plan["start"] = rng.choice([2 ** 31, 2 ** 53, 2 ** 53, 10 ** 18, 2 ** 62]) + rng.randrange(-20, 60)
    elif mode == "random":
        plan["start"] = rng.randrange(10 ** (k - 1), 10 ** k)
    else:
        if rng.random() < 0.6:
            plan["start"] = rng.choice([1, 5, 40, 470, 5000, 123456, 10 ** 8 + 7, 2 ** 53 + 11, 10 ** 18 + 3])
        plan["jumps"] = [{"nth": n} for n in sorted(set(rng.choice([1, 1, 2, 2, 3, 3, 4, 5, 7]) for _ in range(rng.choice([1, 1, 2, 3]))))]
    return plan


def gen_stale_view(rng: Any, i: int) -> dict:
    """VIEWS OLDER THAN THE OPERATOR'S OWN PROGRESS-STORING WRITE, queued behind it (seed C02h's class): somebody else writes
    to the object between the event a pass works on and the PATCH with which that pass records its handlers' progress — while
    a handler runs (it sleeps; edits on the timeline land in that window), or right before the n-th PATCH of the operator
    (`slips`) — so that the stream delivers the foreign version(s) first (they carry no trace of the progress just recorded)
    and the patched version after them; nothing is lost, nothing crashes, every echo arrives well within the consistency
    timeout. The handlers: one or two that finish in that pass (success / permanent failure / by retries=), a sibling that
    fails temporarily with a short delay (its next attempt falls INTO the window in which the stale views are queued) or an
    arbitrary error, sometimes all successful (then the stale view must not start the closed cycle over); causes create /
    update / resume / delete; three lifecycles. The server's numbering of its versions is part of the history (`rv`): the own
    write's version one digit longer than the stale views' (the counter leaps right before that PATCH, or starts just below a
    power of ten and the slip / the burst of edits carries it across), gaps, 1-19 digits, beside the fake server's default."""
    cause = rng.choice(["create", "create", "update", "update", "resume", "delete"])
    lifecycle = rng.choice(["all_at_once", "all_at_once", "asap", "one_by_one"])
    finals = [rng.choice(["ok", "ok", "perm", "retries"]) for _ in range(rng.choice([1, 1, 2]))]
    handlers: list[dict] = []
    sleeper = rng.random() < 0.6
    for k, f in enumerate(finals):
        script: list = {"ok": [], "perm": ["perm"], "retries": ["arb"]}[f]
        opts: dict[str, Any] = {"retries": 1} if f == "retries" else {}
        if sleeper and k == 0:
            d = rng.choice([0.25, 0.5, 1.0])
            script = [["sleep", d, script[0] if script else "ok"]]
        handlers.append({"kind": cause, "id": f"f{k}", "opts": opts, "script": script, "default": "ok"})
    if rng.random() < 0.85:
        n_fail = rng.choice([1, 1, 2, 3])
        handlers.append({"kind": cause, "id": "w", "opts": {"backoff": rng.choice([0.25, 0.5, 1.0])}, "default": rng.choice(["ok", "ok", "perm"]),
                         "script": [rng.choice([["temp", 0.125], ["temp", 0.25], ["temp", 0.5], ["temp", 1.0], "arb"]) for _ in range(n_fail)]})
    if cause != "delete" and rng.random() < 0.15:
        handlers.append({"kind": "delete", "id": "d", "opts": {"optional": rng.random() < 0.5}, "script": [], "default": "ok"})
    if lifecycle != "one_by_one" or rng.random() < 0.3:
        rng.shuffle(handlers)
    body0: dict[str, Any] = {"spec": {"x": 0}, "metadata": {"labels": {"l": "1"}, "annotations": {}}}
    essence0 = {"spec": {"x": 0}, "metadata": {"labels": {"l": "1"}}}
    sc: dict[str, Any] = {"seed": i, "lifecycle": lifecycle, "handlers": handlers, "family": "stale-view",
                          "settings": {"execution.default_backoff": 1.0}}
    if rng.random() < 0.3:
        sc["settings"]["persistence.consistency_timeout"] = rng.choice([2.0, 8.0])
    timeline: list[list] = []
    if cause == "create" or rng.random() < 0.4:
        timeline.append([1.0, "create", "a", body0])
        t0 = 1.0
        if cause in ("update", "delete"):
            t0 = 4.0
            timeline.append([t0, "edit", "a", {"spec": {"x": 1}}] if cause == "update" else [t0, "delete", "a"])
        elif cause == "resume":
            t0 = 4.0
            timeline += [[3.0, "stop"], [t0, "start"]]
    else:
        body0["metadata"]["annotations"][OWN_PREFIX + "last-handled-configuration"] = json.dumps(essence0, separators=(",", ":")) + "\n"
        if cause == "delete":
            body0["metadata"]["finalizers"] = [OWN_FINALIZER]
        sc["objects"] = [{"name": "a", "body": body0}]
        t0 = 0.0
        if cause in ("update", "delete"):
            t0 = rng.choice([1.0, 2.0])
            timeline.append([t0, "edit", "a", {"spec": {"x": 1}}] if cause == "update" else [t0, "delete", "a"])
    # foreign writes that do not touch what the handlers are about (labels nobody filters on, the status, a foreign annotation)
    def foreign(j: int) -> dict:
        return rng.choice([{"metadata": {"labels": {f"z{j % 2}": str(j)}}}, {"metadata": {"labels": {f"z{j % 2}": str(j)}}},
                           {"status": {"foreign": j}}, {"metadata": {"annotations": {"example.com/seen": str(j)}}}])
    slips: list[dict] = []
    if not sleeper or rng.random() < 0.5:
        for n in sorted(set(rng.choice([1, 1, 2, 2, 3]) for _ in range(rng.choice([1, 1, 2])))):
            slips.append({"nth": n, "op": ["edit", "a", foreign(10 + n)]})
    if sleeper:
        # while the first finishing handler sleeps (it starts a few ticks after t0: the API latency)
        t = t0 + 0.0625
        for j in range(rng.choice([1, 1, 2, 3])):
            t += rng.choice([0.03125, 0.0625, 0.125])
            if t < t0 + 0.25:
                timeline.append([t, "edit", "a", foreign(j)])
    if slips:
        sc["slips"] = slips
    # the server's numbering: mostly a width boundary at one of the first own writes
    r = rng.random()
    if r < 0.55:
        plan: dict[str, Any] = {"mode": "jump", "strides": rng.choice([[1], [1], [1, 2], [3, 1]]),
                                "jumps": [{"nth": n} for n in sorted({s["nth"] for s in slips} or {rng.choice([1, 2])})]}
        if rng.random() < 0.6:
            plan["start"] = rng.choice([1, 5, 40, 470, 5000, 123456, 10 ** 8 + 7, 2 ** 53 + 11, 10 ** 18 + 3])
        sc["rv"] = plan
    elif r < 0.8:
        k = rng.choice([1, 2, 2, 3, 3, 4, 6, 9, 12, 18])
        sc["rv"] = {"mode": "near", "strides": [1], "start": max(1, 10 ** k - rng.randrange(2, 9))}
    else:
        rvp = gen_rv_plan(rng)
        if rvp is not None:
            sc["rv"] = rvp
    if rng.random() < 0.3:
        sc["echo_delay"] = {"default": rng.choice([0.125, 0.25, 0.5])}
    if rng.random() < 0.2:
        ts = t0 + rng.choice([3.0, 6.0])
        timeline += [[ts, rng.choice(["stop", "kill"])], [ts + 1.0, "start"]]
    if rng.random() < 0.15:
        sc["status_subresource"] = True
    sc["timeline"] = timeline
    sc["end"] = t0 + 30.0
    return sc


DESELECT_FIELDS = ["x", "y", "z"]


def gen_deselect(rng: Any, i: int) -> dict:
    """The SELECTED set changes inside an open cycle while the PURPOSE stays the same (seed C03d's class): update
    handlers with `field=` filters on different fields (`@on.update(field='spec.x')` …; one of them sometimes a label
    filter or an `@on.field` handler instead, sometimes an unfiltered sibling). The victim handler fails temporarily
    (or with an arbitrary error) and is retrying / sleeping — its unfinished record, purpose=update, is on the object —
    when the next change REVERTS its field (or flips its label) and changes another field: the victim is no longer
    selected, another handler of the SAME cause kind is. That handler finishes (at once, or after retries of its own):
    the cycle must close there — every record purged, the victim's included, last-handled written. Then: the other
    field changes again, the victim's field changes again (selected again: a fresh series), both, or nothing; a stop /
    kill + restart before, around (downtime holding the change) or after the de-selecting change; 2 or 3 handlers."""
    n = rng.choice([2, 2, 3, 3])
    fields = DESELECT_FIELDS[:n]
    victim_how = rng.choice(["field", "field", "field", "label", "on.field"])
    long_d = rng.choice([4.0, 8.0, 64.0, 3600.0])
    handlers: list[dict] = []
    for k, f in enumerate(fields):
        opts: dict[str, Any] = {"field": f"spec.{f}"}
        kind = "update"
        if k == 0:
            if victim_how == "label":
                opts = {"labels": {"l": "1"}}
            elif victim_how == "on.field":
                kind = "field"
            script: list = [rng.choice([["temp", long_d], ["temp", long_d], "arb"]) for _ in range(rng.choice([1, 1, 2, 3]))]
            if rng.random() < 0.3:
                opts["backoff"] = rng.choice([8.0, 16.0])
        else:
            script = [rng.choice([["temp", 0.5], ["temp", 1.0], ["temp", 2.0], "perm", "arb"]) for _ in range(rng.choice([0, 0, 1, 1, 2]))]
            if rng.random() < 0.2:
                opts["retries"] = rng.choice([1, 2])
            if rng.random() < 0.2:
                opts["backoff"] = rng.choice([0.5, 1.0])
        handlers.append({"kind": kind, "id": f"h{f}", "opts": opts, "script": script, "default": "ok"})
    if rng.random() < 0.25:      # an unfiltered sibling: selected for every update
        handlers.append({"kind": "update", "id": "u", "opts": {}, "default": "ok",
                         "script": [rng.choice([["temp", 1.0], ["temp", 2.0]]) for _ in range(rng.choice([0, 1, 2]))]})
    if rng.random() < 0.2:
        handlers.append({"kind": "delete", "id": "d", "opts": {"optional": rng.random() < 0.3}, "script": [], "default": "ok"})
    if rng.random() < 0.15:
        handlers.append({"kind": "resume", "id": "r", "opts": {}, "script": [rng.choice(["ok", ["temp", 1.0]])], "default": "ok"})
    rng.shuffle(handlers)
    spec0 = {f: 0 for f in fields}
    body0: dict[str, Any] = {"spec": dict(spec0), "metadata": {"labels": {"l": "1"}}}
    timeline: list[list] = []
    sc: dict[str, Any] = {"seed": i, "lifecycle": rng.choice(["asap", "one_by_one", "all_at_once"]), "handlers": handlers,
                          "settings": {"execution.default_backoff": rng.choice([4.0, 8.0])}}
    if rng.random() < 0.5:
        body0["metadata"]["annotations"] = {OWN_PREFIX + "last-handled-configuration":
                                            json.dumps({"spec": spec0, "metadata": {"labels": {"l": "1"}}}, separators=(",", ":")) + "\n"}
        sc["objects"] = [{"name": "a", "body": body0}]
        t = 1.0
    else:
        timeline.append([1.0, "create", "a", body0])
        t = 2.0
    # 1. the victim's field changes (sometimes another one with it): the victim is selected and fails
    first: dict[str, Any] = {"x": 1}
    if rng.random() < 0.25:
        first[rng.choice(fields[1:])] = 1
    t += rng.choice([0.5, 1.0])
    timeline.append([t, "edit", "a", {"spec": dict(first)}])
    t1 = t
    # 2. before its retry: the victim's field is reverted (its label flipped), other fields change
    t += rng.choice([0.25, 0.5, 1.0, 2.0, 3.0])
    others = [f for f in fields[1:] if rng.random() < 0.7] or [fields[1]]
    second: dict[str, Any] = {"spec": {"x": 0, **{f: 2 for f in others}}}
    if victim_how == "label":
        second = {"spec": {f: 2 for f in others}, "metadata": {"labels": {"l": "0"}}}
        if rng.random() < 0.5:
            second["spec"]["x"] = 0
    timeline.append([t, "edit", "a", second])
    t2 = t
    # 3. afterwards
    for _ in range(rng.choice([0, 1, 1, 2])):
        t += rng.choice([0.5, 2.0, 4.0, 9.0])
        what = rng.choice(["other", "other", "victim", "both", "label"])
        v = 3 + len(timeline)
        if what == "other":
            timeline.append([t, "edit", "a", {"spec": {rng.choice(fields[1:]): v}}])
        elif what == "victim":
            timeline.append([t, "edit", "a", {"spec": {"x": v}, **({"metadata": {"labels": {"l": "1"}}} if victim_how == "label" else {})}])
        elif what == "both":
            timeline.append([t, "edit", "a", {"spec": {"x": v, rng.choice(fields[1:]): v}}])
        else:
            timeline.append([t, "edit", "a", {"metadata": {"labels": {"l": rng.choice(["0", "1"])}}}])
    if any(h["kind"] == "delete" for h in handlers) and rng.random() < 0.6:
        t += rng.choice([0.5, 3.0])
        timeline.append([t, "delete", "a"])
    # restarts: before / around / after the de-selecting change
    r = rng.random()
    if r < 0.3:
        ts = t1 + rng.choice([0.125, 0.25]) if t2 - t1 > 0.25 else t1 + 0.125
        timeline.append([ts, rng.choice(["stop", "kill"])])
        timeline.append([t2 + rng.choice([0.5, 2.0, 5.0]), "start"])       # the change arrives while the operator is down
    elif r < 0.45:
        ts = t2 + rng.choice([0.015625, 0.03125, 0.5, 1.5])
        timeline.append([ts, rng.choice(["stop", "kill"])])
        timeline.append([ts + rng.choice([0.5, 2.0]), "start"])
    elif r < 0.55:
        ts = rng.randrange(64, int((t + 4.0) * 64)) / 64.0
        timeline.append([ts, rng.choice(["stop", "kill"])])
        timeline.append([ts + rng.choice([0.5, 2.0, 5.0]), "start"])
    sc["timeline"] = timeline
    sc["end"] = t + 40.0
    sc["family"] = "deselect"
    if rng.random() < 0.15:
        sc["status_subresource"] = True
    return sc


RESELECT_WAYS = ["label", "label", "annotation", "field", "resumed", "resumed", "resumed+label"]


def gen_reselect(rng: Any, i: int) -> dict:
    """The SELECTED set changes inside an open cycle AND CHANGES BACK, over a FINISHED record (seed C02f's class; the
    counterpart of gen_deselect, whose victim is unfinished and stays out): a handler reaches a final outcome — success,
    permanent failure, success after a retry, failure by its retries= limit — and that is recorded on the object; a
    sibling of the same cause keeps the cycle open (temporary failures with long delays); then the finished handler is
    NOT selected in one or more passes of the still open cycle and is SELECTED AGAIN later in the same cycle. Every
    way out of and back into the selection that the decorators and the framework offer:
      label / annotation — a labels= / annotations= filter (a value, or presence) and somebody flipping the label /
        annotation away and back (once or twice) while the sibling sleeps;
      field — an update handler with field='spec.x' beside one on 'spec.y' (or an unfiltered one): x is reverted to its
        last-handled value (not selected: no change of x) and changed again (selected again), y stays changed;
      resumed — an @on.resume handler mixed into the update / the creation / the plain resuming found at the start: once
        finished it is left out by the in-process memory (`memory.resumed_handlers`), a stop / kill + restart inside the
        open cycle loses that memory and the listing selects it again (one or two restarts);
      resumed+label — both.
    Causes: create, update (the object changed while no operator ran, or is edited on the timeline), resume, delete (the
    object is held by the framework's finalizer while the deletion handlers retry); three lifecycles (under one-by-one
    the victim is registered first, else it would not run before the sibling has finished); stop / kill + restart at
    random moments besides; a later edit of the spec (an update over an open update: the same cause goes on), a
    deletion at the end; a second finished sibling that stays selected throughout (control)."""
    way = rng.choice(RESELECT_WAYS)
    cause = rng.choice(["create", "update", "update", "delete"]) if way in ("label", "annotation") else \
        "update" if way == "field" else rng.choice(["update", "update", "create", "resume"])
    long_d = rng.choice([4.0, 4.0, 8.0, 16.0])
    n_sib = rng.choice([2, 2, 3])
    final = rng.choice(["ok", "ok", "ok", "perm", "perm", "late-ok", "retries"])
    v_script: list = {"ok": [], "perm": ["perm"], "late-ok": [["temp", 0.5]], "retries": [["temp", 0.25], ["temp", 0.25]]}[final]
    v_opts: dict[str, Any] = {"retries": 2} if final == "retries" else {}
    if rng.random() < 0.3:
        v_opts["backoff"] = rng.choice([0.5, 1.0])
    v_kind = cause
    if way == "label":
        v_opts["labels"] = {"l": rng.choice(["1", "1", "__PRESENT__"])}
    elif way == "annotation":
        v_opts["annotations"] = {"example.com/a": rng.choice(["1", "__PRESENT__"])}
    elif way == "field":
        v_opts["field"] = "spec.x"
        if rng.random() < 0.25:
            v_kind = "field"
    else:
        v_kind = "resume"
        if way == "resumed+label":
            v_opts["labels"] = {"l": "1"}
    if cause == "resume":
        v_kind = "resume"
    victim = {"kind": v_kind, "id": "v", "opts": v_opts, "script": v_script, "default": "ok"}
    s_kind = cause if cause != "resume" else "resume"
    s_opts: dict[str, Any] = {"field": "spec.y"} if way == "field" and rng.random() < 0.6 else {}
    if rng.random() < 0.3:
        s_opts["backoff"] = rng.choice([1.0, 2.0])
    sibling = {"kind": s_kind, "id": "s", "opts": s_opts, "default": rng.choice(["ok", "ok", "perm"]),
               "script": [rng.choice([["temp", long_d], ["temp", long_d], "arb" if long_d <= 4.0 else ["temp", long_d]]) for _ in range(n_sib)]}
    handlers = [victim, sibling]
    if rng.random() < 0.3:       # control: finished too, selected throughout
        handlers.append({"kind": s_kind, "id": "k", "opts": {}, "script": [rng.choice(["ok", "perm"])], "default": "ok"})
    if cause != "delete" and rng.random() < 0.25:
        handlers.append({"kind": "delete", "id": "d", "opts": {"optional": rng.random() < 0.3}, "script": [], "default": "ok"})
    lifecycle = rng.choice(["asap", "one_by_one", "all_at_once", "all_at_once"])
    if lifecycle != "one_by_one" or rng.random() < 0.2:
        rng.shuffle(handlers)
    labels0 = {"l": "1"}
    ann0: dict[str, str] = {"example.com/a": "1"} if way == "annotation" else {}
    spec0 = {"x": 0, "y": 0}
    body0: dict[str, Any] = {"spec": dict(spec0), "metadata": {"labels": dict(labels0), "annotations": dict(ann0)}}
    essence0: dict[str, Any] = {"spec": dict(spec0), "metadata": {"labels": dict(labels0)}}
    if ann0:
        essence0["metadata"]["annotations"] = dict(ann0)
    sc: dict[str, Any] = {"seed": i, "lifecycle": lifecycle, "handlers": handlers, "family": "reselect", "reselect_way": f"{way}/{cause}/{final}",
                          "settings": {"execution.default_backoff": rng.choice([4.0, 8.0]) if long_d > 4.0 else 4.0}}
    timeline: list[list] = []
    change = {"spec": {"x": 1, "y": 1}}
    pre = way.startswith("resumed") or (cause in ("update", "delete") and rng.random() < 0.5)
    if pre:
        # the object exists when the operator starts: handled before (update / resume / delete) or never (create)
        if cause != "create":
            body0["metadata"]["annotations"][OWN_PREFIX + "last-handled-configuration"] = json.dumps(essence0, separators=(",", ":")) + "\n"
        if cause == "delete":
            body0["metadata"]["finalizers"] = [OWN_FINALIZER]
        if cause == "update" and (way.startswith("resumed") and rng.random() < 0.7):
            body0["spec"] = {"x": 1, "y": 1}        # changed while no operator ran: the update is found by the listing
            t0 = 0.0
        elif cause == "update":
            t0 = rng.choice([1.0, 2.0])
            timeline.append([t0, "edit", "a", change])
        elif cause == "delete":
            t0 = rng.choice([1.0, 2.0])
            timeline.append([t0, "delete", "a"])
        else:
            t0 = 0.0
        sc["objects"] = [{"name": "a", "body": body0}]
    else:
        timeline.append([1.0, "create", "a", body0])
        t0 = 1.0
        if cause == "update":
            t0 = 3.0
            timeline.append([t0, "edit", "a", change])
        elif cause == "delete":
            t0 = 3.0
            timeline.append([t0, "delete", "a"])
    # the victim has finished by t0 + 1 (late-ok / retries: two short waits); out of the selection, and back
    t = t0 + rng.choice([1.0, 1.5, 2.0])
    rounds = rng.choice([1, 1, 1, 2])
    for _ in range(rounds):
        gap = rng.choice([0.25, 0.5, 1.0, 2.0])
        if way in ("label", "resumed+label"):
            timeline.append([t, "edit", "a", {"metadata": {"labels": {"l": rng.choice(["0", None]) if v_opts.get("labels", {}).get("l") != "__PRESENT__" else None}}}])
            back = [t + gap, "edit", "a", {"metadata": {"labels": {"l": "1"}}}]
        elif way == "annotation":
            timeline.append([t, "edit", "a", {"metadata": {"annotations": {"example.com/a": rng.choice(["0", None]) if v_opts["annotations"]["example.com/a"] != "__PRESENT__" else None}}}])
            back = [t + gap, "edit", "a", {"metadata": {"annotations": {"example.com/a": "1"}}}]
        elif way == "field":
            timeline.append([t, "edit", "a", {"spec": {"x": 0}}])
            back = [t + gap, "edit", "a", {"spec": {"x": 2 + len(timeline)}}]
        else:
            back = None
        if way.startswith("resumed"):
            # the memory of the finished resuming handlers goes with the process
            ts = t + (rng.choice([0.125, 0.25]) if back else 0.0)
            timeline.append([ts, rng.choice(["stop", "kill"])])
            timeline.append([ts + rng.choice([0.25, 0.5, 1.0]), "start"])
            if back:
                back[0] = max(back[0], ts + rng.choice([0.125, 1.5]))
        if back:
            timeline.append(back)
        t = max(t + gap, timeline[-1][0] if isinstance(timeline[-1][0], float) else t) + rng.choice([0.5, 1.0, 2.0])
    if not way.startswith("resumed") and rng.random() < 0.35:
        ts = rng.randrange(int((t0 + 0.5) * 64), int((t + 2.0) * 64)) / 64.0
        timeline.append([ts, rng.choice(["stop", "kill"])])
        timeline.append([ts + rng.choice([0.25, 0.5, 2.0]), "start"])
    if cause in ("update", "create") and rng.random() < 0.2:
        t += rng.choice([0.5, 2.0])
        timeline.append([t, "edit", "a", {"spec": {"y": 7}}])
    if cause != "delete" and any(h["kind"] == "delete" for h in handlers) and rng.random() < 0.5:
        t += rng.choice([2.0, 3 * long_d + 4.0])
        timeline.append([t, "delete", "a"])
    sc["timeline"] = timeline
    sc["end"] = t + (n_sib + 1) * long_d + 30.0
    if rng.random() < 0.15:
        sc["status_subresource"] = True
    return sc


def gen_stacked(rng: Any, i: int) -> dict:
    """ONE function registered under ONE id for several causes (stacked decorators: `@kopf.on.update` + `@kopf.on.delete`,
    `@kopf.on.create` + `@kopf.on.delete`, `@kopf.on.create` + `@kopf.on.update`, sometimes all three): several handlers,
    one progress record. A sibling of the first cause keeps that cycle open (temporary failures with long delays, or the
    stacked handler itself is retrying / sleeping) when the SUPERSEDING cause arrives — the deletion, mostly — so that the
    record under the shared id carries the other cause's purpose: finished, failed for good, unfinished, sleeping. The
    handler declared for the new cause must start from scratch (retry 0, its own limits) and must be invoked before the
    cycle closes / the object is released (/repo f7d6401, formerly C03-N3). Variants: the deletion arrives after the first
    cycle closed (control: nothing under the id), stop / kill + restart between the two causes (the namesake's record was
    written by another process), a label flip that de-selects both registrations, a foreign finalizer that keeps the object
    after the release (later FREE purges), limits (retries / timeout / backoff) on the stacked function, a resuming sibling
    (mix-in: re-purposed as before), sub-handlers under the first registration only (their records are referenced by the
    namesake's record alone) or under both (same children ids)."""
    first = rng.choice(["update", "update", "update", "create", "create"])
    kinds = [first, "delete"]
    r = rng.random()
    if r < 0.15:
        kinds = ["create", "update"]
    elif r < 0.3:
        kinds = ["create", "update", "delete"]
        first = rng.choice(["create", "update"])
    opts: dict[str, Any] = {}
    if rng.random() < 0.25:
        opts["retries"] = rng.choice([1, 2, 3])
    if rng.random() < 0.15:
        opts["timeout"] = rng.choice([2.0, 4.0, 8.0])
    if rng.random() < 0.4:
        opts["backoff"] = rng.choice([0.5, 1.0, 2.0])
    if rng.random() < 0.2:
        opts["labels"] = {"l": "1"}
    how = rng.choice(["ok", "ok", "ok", "perm", "retrying", "sleeping"])      # the namesake's record when the next cause comes
    long_d = rng.choice([4.0, 8.0, 16.0])
    subs_on = rng.choice(["none", "none", "none", "none", "first", "both"])
    handlers: list[dict] = []
    for k in kinds:
        if k == first or (k != "delete" and "delete" in kinds):
            script: list = {"ok": [], "perm": ["perm"], "retrying": [["temp", 0.5], ["temp", 0.5]], "sleeping": [["temp", long_d]]}[how]
        else:
            script = []
        h: dict[str, Any] = {"kind": k, "id": "h", "opts": dict(opts), "script": list(script), "default": "ok"}
        if subs_on != "none" and how == "ok" and (k == first or subs_on == "both"):
            h["sub"] = [{"id": f"s{j}", "default": "ok",
                         "script": [rng.choice(["ok", ["temp", long_d], "perm"])] if rng.random() < 0.4 else []}
                        for j in range(rng.choice([1, 2]))]
            h["sub_mode"] = rng.choice(SUB_MODES)
        handlers.append(h)
    # the sibling that keeps the first cycle open
    if how in ("ok", "perm") or rng.random() < 0.5:
        handlers.append({"kind": first, "id": "g", "opts": {"backoff": 1.0} if rng.random() < 0.3 else {}, "default": "ok",
                         "script": [["temp", long_d] for _ in range(rng.choice([1, 1, 2]))]})
    if rng.random() < 0.3:
        handlers.append({"kind": "delete", "id": "d", "opts": {"optional": rng.random() < 0.3}, "default": "ok",
                         "script": [rng.choice(["ok", ["temp", 1.0]])]})
    if rng.random() < 0.2:
        handlers.append({"kind": "resume", "id": "r", "opts": {"deleted": rng.random() < 0.5}, "default": "ok",
                         "script": [rng.choice(["ok", ["temp", long_d]])]})
    rng.shuffle(handlers)
    body0: dict[str, Any] = {"spec": {"x": 0}, "metadata": {"labels": {"l": "1"}}}
    if rng.random() < 0.25:
        body0["metadata"]["finalizers"] = ["example.com/hold"]
    timeline: list[list] = []
    sc: dict[str, Any] = {"seed": i, "lifecycle": rng.choice(["asap", "one_by_one", "all_at_once"]), "handlers": handlers,
                          "settings": {"execution.default_backoff": rng.choice([1.0, 2.0])}, "family": "stacked"}
    if first == "update" and rng.random() < 0.5:
        body0["metadata"]["annotations"] = {OWN_PREFIX + "last-handled-configuration":
                                            json.dumps({"spec": {"x": 0}, "metadata": {"labels": {"l": "1"}}}, separators=(",", ":")) + "\n"}
        sc["objects"] = [{"name": "a", "body": body0}]
        t = 1.0
    else:
        timeline.append([1.0, "create", "a", body0])
        t = 1.0 if first == "create" else 3.0
    if first == "update":
        timeline.append([t, "edit", "a", {"spec": {"x": 1}}])
    t1 = t
    # the superseding cause, while the first cycle is open (or, control, after it closed)
    late = rng.random() < 0.15
    t += rng.choice([0.25, 0.5, 1.0, 2.0, 3.0]) if not late else 3 * long_d + 8.0
    what = rng.choice(["delete", "delete", "delete", "edit", "flip"]) if "delete" in kinds else rng.choice(["edit", "edit", "flip"])
    if what == "delete":
        timeline.append([t, "delete", "a"])
    elif what == "edit":
        timeline.append([t, "edit", "a", {"spec": {"x": 2}}])
    else:
        timeline.append([t, "edit", "a", {"metadata": {"labels": {"l": "0"}}}])
    t2 = t
    for _ in range(rng.choice([0, 0, 1, 2])):
        t += rng.choice([0.5, 2.0, 5.0])
        nxt = rng.choice(["edit", "flip", "delete"])
        if nxt == "delete" and "delete" in kinds:
            timeline.append([t, "delete", "a"])
            break
        if nxt == "flip":
            timeline.append([t, "edit", "a", {"metadata": {"labels": {"l": rng.choice(["0", "1"])}}}])
        else:
            timeline.append([t, "edit", "a", {"spec": {"x": 3 + len(timeline)}}])
    rr = rng.random()
    if rr < 0.2:        # the superseding cause arrives while the operator is down
        ts = t1 + 0.125 if t2 - t1 > 0.25 else t1 + 0.0625
        timeline.append([ts, rng.choice(["stop", "kill"])])
        timeline.append([t2 + rng.choice([0.5, 2.0]), "start"])
    elif rr < 0.3:
        ts = t2 + rng.choice([0.015625, 0.5])
        timeline.append([ts, rng.choice(["stop", "kill"])])
        timeline.append([ts + rng.choice([0.5, 2.0]), "start"])
    if body0["metadata"].get("finalizers") and rng.random() < 0.4:
        timeline.append([t + 20.0, "fins", "a", []])
    sc["timeline"] = timeline
    sc["end"] = t + 6 * long_d + 30.0
    if rng.random() < 0.15:
        sc["status_subresource"] = True
    if rng.random() < 0.5:
        # literally ONE function object under the stacked decorators (kopf de-duplicates by function & id: the OWNED handlers
        # keep the first registration only, the selected one is the cause's own); else one function per registration
        sc["same_fn"] = True
    return sc


def gen_stacked_resume(rng: Any, i: int) -> dict:
    """ONE function under ONE id registered WITH and WITHOUT a reason: `@kopf.on.resume` stacked with `@kopf.on.update` /
    `@kopf.on.create` / `@kopf.on.delete` (the example in the docstring of `registries._deduplicated`), in either order
    of registration. On a cause that both registrations match (an update / a creation / a deletion at first sight) kopf
    keeps the FIRST registered: the resuming one is a mix-in (its record is carried over and re-purposed; once it has
    finished in this process it is left out), the cause's own one is declared for the cause (a record of another cause
    under its id is its namesake's: it starts from scratch). A resuming sibling keeps the first cycle open (or the
    stacked handler itself is retrying) when the change / the deletion arrives; stop / kill + restart in between.
    Always with ONE function object (`same_fn`): with two functions both would be selected under one id."""
    other = rng.choice(["update", "update", "create", "delete"])
    order = ["resume", other] if rng.random() < 0.5 else [other, "resume"]
    how = rng.choice(["ok", "ok", "perm", "retrying", "sleeping"])
    long_d = rng.choice([4.0, 8.0, 16.0])
    script: list = {"ok": [], "perm": ["perm"], "retrying": [["temp", 0.5], ["temp", 0.5]], "sleeping": [["temp", long_d]]}[how]
    opts: dict[str, Any] = {}
    if rng.random() < 0.25:
        opts["retries"] = rng.choice([2, 3])
    if rng.random() < 0.3:
        opts["backoff"] = rng.choice([0.5, 1.0])
    handlers: list[dict] = []
    for k in order:
        o = dict(opts)
        if k == "resume" and (other == "delete" or rng.random() < 0.3):
            o["deleted"] = True
        handlers.append({"kind": k, "id": "h", "opts": o, "script": list(script), "default": "ok"})
    if how in ("ok", "perm") or rng.random() < 0.5:
        handlers.append({"kind": "resume", "id": "g", "opts": {"deleted": rng.random() < 0.5}, "default": "ok",
                         "script": [["temp", long_d] for _ in range(rng.choice([1, 1, 2]))]})
    if rng.random() < 0.4:
        handlers.append({"kind": other, "id": "o", "opts": {}, "default": "ok", "script": [rng.choice(["ok", ["temp", 1.0]])]})
    if other != "delete" and rng.random() < 0.3:
        handlers.append({"kind": "delete", "id": "d", "opts": {"optional": rng.random() < 0.3}, "default": "ok", "script": []})
    # (the relative order of the two registrations of `h` is the point: shuffle the others around them)
    rest = [h for h in handlers if h["id"] != "h"]
    rng.shuffle(rest)
    cut = rng.randrange(len(rest) + 1)
    handlers = rest[:cut] + [h for h in handlers if h["id"] == "h"] + rest[cut:]
    body0: dict[str, Any] = {"spec": {"x": 0}, "metadata": {"labels": {"l": "1"}}}
    if other != "create" or rng.random() < 0.5:
        body0["metadata"]["annotations"] = {OWN_PREFIX + "last-handled-configuration": json.dumps(ESSENCE0, separators=(",", ":")) + "\n"}
    if other == "delete" and rng.random() < 0.3:
        body0["metadata"]["finalizers"] = ["example.com/hold"]
    t = rng.choice([0.5, 1.0, 2.0, 3.0])
    timeline: list[list] = []
    for _ in range(rng.choice([1, 1, 2, 3])):
        what = rng.choice(["edit", "edit", "back", "delete"]) if other != "delete" else rng.choice(["delete", "delete", "edit"])
        if what == "edit":
            timeline.append([t, "edit", "a", {"spec": {"x": 1 + len(timeline)}}])
        elif what == "back":
            timeline.append([t, "edit", "a", {"spec": {"x": 0}}])
        else:
            timeline.append([t, "delete", "a"])
            break
        t += rng.choice([0.5, 1.0, 2.0, 5.0])
    if rng.random() < 0.35:
        ts = rng.randrange(16, int((t + 4.0) * 64)) / 64.0
        timeline.append([ts, rng.choice(["stop", "kill"])])
        timeline.append([ts + rng.choice([0.5, 2.0]), "start"])
    sc: dict[str, Any] = {"seed": i, "lifecycle": rng.choice(["asap", "one_by_one", "all_at_once"]), "handlers": handlers,
                          "objects": [{"name": "a", "body": body0}], "timeline": timeline, "same_fn": True,
                          "settings": {"execution.default_backoff": rng.choice([1.0, 2.0])}, "end": t + 6 * long_d + 20.0,
                          "family": "stacked-resume"}
    return sc


def gen_free(rng: Any, i: int) -> dict:
    """Passes of the cause FREE over LEFTOVER records (/repo 40d09eb, formerly C03-N4): the object is marked for deletion,
    the framework's own finalizer is not on it (no mandatory deletion handler matches: none declared, only optional ones,
    or its label filter fails; or the framework has just released it), somebody else's finalizer keeps it alive — and
    it carries the progress records of handlers that were retrying / sleeping when the deletion came (create, update,
    resume handlers, some with sub-handlers whose records the parents' `subrefs` reference), or, after a release,
    whatever a stacked registration left. The FREE pass invokes nothing and purges the owned records present and their
    sub-handlers'. Then: nothing, a foreign edit, the other party lets go (the object goes), a stop / kill + restart on
    the object in that state (it is listed again: FREE again, nothing left to purge)."""
    handlers: list[dict] = []
    long_d = rng.choice([8.0, 16.0, 64.0])
    for k in range(rng.choice([1, 2, 2, 3])):
        kind = rng.choice(["update", "update", "create", "resume"])
        h: dict[str, Any] = {"kind": kind, "id": f"{kind[0]}{k}", "opts": {}, "default": "ok",
                             "script": [rng.choice([["temp", long_d], ["temp", long_d], "arb"]) for _ in range(rng.choice([1, 1, 2]))]}
        if rng.random() < 0.3:
            h["opts"]["backoff"] = rng.choice([8.0, 16.0])
        if kind in ("update", "create") and rng.random() < 0.3:
            # the parent's own function succeeds, a child retries: the children's records are referenced by its subrefs
            h["script"] = []
            h["sub"] = [{"id": f"s{j}", "default": "ok", "script": [rng.choice(["ok", ["temp", long_d]])] if j else [["temp", long_d]]}
                        for j in range(rng.choice([1, 2]))]
            h["sub_mode"] = rng.choice(["execute", "decorator", "register", "decorator_execute"])
        if kind == "resume" and rng.random() < 0.5:
            h["opts"]["deleted"] = True
        handlers.append(h)
    r = rng.random()
    if r < 0.3:
        handlers.append({"kind": "delete", "id": "d", "opts": {"optional": True}, "script": [], "default": "ok"})
    elif r < 0.45:
        handlers.append({"kind": "delete", "id": "d", "opts": {"labels": {"l": "nope"}}, "script": [], "default": "ok"})
    elif r < 0.6:     # a mandatory deletion handler: the object is held, released, and only then FREE
        handlers.append({"kind": "delete", "id": "d", "opts": {}, "default": "ok",
                         "script": [rng.choice(["ok", ["temp", 1.0]])]})
    rng.shuffle(handlers)
    body0: dict[str, Any] = {"spec": {"x": 0}, "metadata": {"labels": {"l": "1"}, "finalizers": ["example.com/hold"]}}
    sc: dict[str, Any] = {"seed": i, "lifecycle": rng.choice(["asap", "one_by_one", "all_at_once"]), "handlers": handlers,
                          "settings": {"execution.default_backoff": rng.choice([4.0, 8.0])}, "family": "free"}
    timeline: list[list] = []
    if any(h["kind"] == "resume" for h in handlers) and rng.random() < 0.6:
        body0["metadata"]["annotations"] = {OWN_PREFIX + "last-handled-configuration":
                                            json.dumps({"spec": {"x": 0}, "metadata": {"labels": {"l": "1"}}}, separators=(",", ":")) + "\n"}
        sc["objects"] = [{"name": "a", "body": body0}]
        t = 1.0
    else:
        timeline.append([1.0, "create", "a", body0])
        t = 2.0
    if any(h["kind"] == "update" for h in handlers):
        t += rng.choice([0.5, 1.0])
        timeline.append([t, "edit", "a", {"spec": {"x": 1}}])
    t += rng.choice([0.25, 0.5, 1.0, 2.0])        # … while the handlers are retrying / sleeping
    timeline.append([t, "delete", "a"])
    t_del = t
    for _ in range(rng.choice([0, 0, 1, 2])):
        t += rng.choice([0.5, 2.0, 5.0])
        timeline.append([t, "edit", "a", rng.choice([{"metadata": {"labels": {"z": str(len(timeline))}}},
                                                      {"status": {"foreign": len(timeline)}}, {"spec": {"x": 5 + len(timeline)}}])])
    rr = rng.random()
    if rr < 0.25:
        ts = t_del + rng.choice([0.015625, 0.5, 2.0])
        timeline.append([ts, rng.choice(["stop", "kill"])])
        timeline.append([ts + rng.choice([0.5, 2.0]), "start"])
    elif rr < 0.35:      # the deletion arrives while the operator is down
        timeline.append([t_del - 0.125, rng.choice(["stop", "kill"])])
        timeline.append([t_del + rng.choice([0.5, 2.0]), "start"])
    if rng.random() < 0.4:
        timeline.append([t + rng.choice([4.0, 12.0]), "fins", "a", []])
    sc["timeline"] = timeline
    sc["end"] = t + 30.0
    if rng.random() < 0.15:
        sc["status_subresource"] = True
    return sc


SUB_MODES = ["execute", "decorator", "register", "decorator_execute"]
ESSENCE0 = {"spec": {"x": 0}, "metadata": {"labels": {"l": "1"}}}


def gen_subs(rng: Any, i: int) -> dict:
    """Sub-handlers under parents of EVERY kind — create, update, delete, resume and field handlers: 1-3 children per
    parent, registered by `@kopf.subhandler` inside the parent (run implicitly, or by an argument-less `kopf.execute()`),
    by `kopf.register`, or passed to `kopf.execute(fns=…)`; outcome scripts for the children and for the parent's own
    function; the object exists before the operator starts (resume / creation with resuming handlers mixed in) or is
    created later; spec edits (update + field causes), deletion requested shortly after (while the children of the
    previous cause are still retrying: their parent falls out of the purpose, or is re-purposed — resume handlers with
    deleted=True), graceful stops and kills with restarts in between."""
    kinds = [rng.choice(["create", "update", "update", "delete", "delete", "resume", "field"]) for _ in range(rng.choice([1, 2, 2, 3]))]
    if "delete" not in kinds and rng.random() < 0.5:
        kinds.append("delete")
    handlers = []
    for k, kind in enumerate(kinds):
        opts: dict[str, Any] = {}
        if kind == "field":
            opts["field"] = "spec.x"
        if kind == "delete" and rng.random() < 0.2:
            opts["optional"] = True
        if kind == "resume" and rng.random() < 0.6:
            opts["deleted"] = True
        if rng.random() < 0.25:
            opts["backoff"] = rng.choice([0.5, 1.0, 2.0])
        if rng.random() < 0.15:
            opts["retries"] = rng.choice([2, 3])      # children-retries use up the parent's attempts
        if rng.random() < 0.1:
            opts["timeout"] = rng.choice([2.0, 4.0])
        if rng.random() < 0.15:
            opts["errors"] = rng.choice(["ignored", "temporary", "permanent"])
        subs = []
        for j in range(rng.choice([1, 2, 2, 3])):
            subs.append({"id": f"s{j}", "default": "ok",
                         "script": [rng.choice(["ok", ["temp", 0.5], ["temp", 1.0], ["temp", 2.0], "perm", "arb"])
                                    for _ in range(rng.choice([0, 1, 1, 2, 3]))]})
        r = rng.random()
        if r < 0.6:
            script: list = []
        elif r < 0.8:       # the parent's own function fails first: no children are registered in that pass
            script = [rng.choice([["temp", 1.0], ["temp", 0.5], "arb"])]
        else:               # … or fails later, between the passes of its children
            script = ["ok"] * rng.choice([1, 2, 3]) + [rng.choice(["perm", "arb", ["temp", 1.0]])]
        handlers.append({"kind": kind, "id": f"{kind[0]}{k}", "opts": opts, "script": script, "default": "ok",
                         "sub": subs, "sub_mode": rng.choice(SUB_MODES)})
    for k in range(rng.choice([0, 0, 1, 2])):       # siblings without children
        kind = rng.choice(["create", "update", "delete", "resume"])
        handlers.append({"kind": kind, "id": f"p{kind[0]}{k}", "default": "ok",
                         "opts": {"deleted": True} if kind == "resume" and rng.random() < 0.5 else {},
                         "script": [rng.choice(["ok", ["temp", 1.0], "perm"]) for _ in range(rng.choice([0, 1, 2]))]})
    rng.shuffle(handlers)
    timeline: list[list] = []
    objects: list[dict] = []
    if rng.random() < 0.4:
        body: dict[str, Any] = {"spec": {"x": 0}, "metadata": {"labels": {"l": "1"}}}
        if rng.random() < 0.7:
            body["metadata"]["annotations"] = {OWN_PREFIX + "last-handled-configuration": json.dumps(ESSENCE0, separators=(",", ":")) + "\n"}
        objects.append({"name": "a", "body": body})
        t = 0.5
    else:
        t = 1.0
        timeline.append([t, "create", "a", {"spec": {"x": 0}, "metadata": {"labels": {"l": "1"}}}])
    for n in range(rng.choice([0, 1, 1, 2, 3])):
        t += rng.choice([0.25, 0.5, 1.0, 1.5, 3.0, 6.0])
        timeline.append([t, "edit", "a", {"spec": {"x": rng.choice([0, 1, 2, n + 1])}}])
    if rng.random() < 0.75:
        t += rng.choice([0.25, 0.5, 0.75, 1.0, 1.5, 2.5, 6.0])
        timeline.append([t, "delete", "a"])
    end = t + 30.0
    for _ in range(rng.choice([0, 0, 1, 1, 2])):
        ts = rng.randrange(32, int((t + 8.0) * 64)) / 64.0
        timeline.append([ts, rng.choice(["stop", "kill"])])
        timeline.append([ts + rng.choice([0.5, 2.0, 5.0]), "start"])
    sc = {"seed": i, "lifecycle": rng.choice(["asap", "one_by_one", "all_at_once"]), "handlers": handlers,
          "timeline": timeline, "settings": {"execution.default_backoff": rng.choice([1.0, 2.0])}, "end": end}
    if objects:
        sc["objects"] = objects
    if rng.random() < 0.2:
        sc["status_subresource"] = True
    return sc


def _iso(t: float) -> str:
    """A stored timestamp the way kopf writes it (`isoformat(timespec='microseconds')`), `t` seconds after the simulation's epoch."""
    import datetime
    from ..sim import simloop
    return (simloop.EPOCH + datetime.timedelta(seconds=t)).isoformat(timespec="microseconds")


def _leaf_script(rng: Any) -> list:
    return [rng.choice(["ok", ["temp", 0.5], ["temp", 1.0], ["temp", 2.0], "perm", "arb"]) for _ in range(rng.choice([0, 0, 1, 1, 2]))]


def _after_list(rng: Any) -> list:
    """The parent's own ending after its sub-handlers, per invocation: nothing for some invocations, then a failure."""
    return [None] * rng.choice([0, 0, 1, 2, 3]) + [rng.choice(["perm", "perm", "arb", ["temp", 1.0], ["temp", 0.5]])] \
        + ([None] * 2 + [rng.choice(["perm", "arb"])] if rng.random() < 0.3 else [])


def _sub_tree(rng: Any, depth: int, width: list[int], p_nest: float, p_after: float, p_sets: float) -> list[dict]:
    subs = []
    for j in range(rng.choice(width)):
        s: dict[str, Any] = {"id": f"s{j}", "default": "ok", "script": _leaf_script(rng)}
        if depth > 0 and rng.random() < p_nest:
            # a sub-handler that is a parent itself: its own function goes through (mostly), its children are scripted
            s["script"] = [] if rng.random() < 0.7 else [rng.choice([["temp", 0.5], "arb"])]
            s["sub"] = _sub_tree(rng, depth - 1, [1, 1, 2], p_nest * 0.6, p_after, p_sets)
            s["sub_mode"] = rng.choice(SUB_MODES)
            if rng.random() < p_after:
                s["after"] = _after_list(rng)
            if len(s["sub"]) > 1 and rng.random() < p_sets:
                s["sub_sets"] = _sub_sets(rng, [x["id"] for x in s["sub"]])
        subs.append(s)
    return subs


def _sub_sets(rng: Any, ids: list[str]) -> list:
    """The sub-handlers a parent registers per invocation: the set shrinks, grows, changes."""
    out: list = []
    for _ in range(rng.choice([1, 2, 3])):
        k = rng.choice([None, None, 1, 1, len(ids) - 1])
        out.append(None if k is None else sorted(rng.sample(ids, max(1, k))))
    return out


# (the parent's own ending after its children, its options): one per `return Outcome(...)` of `execute_handler_once` that can
# follow a sub-pass — TemporaryError: plain / would exceed the retries / would time out; PermanentError; an arbitrary error
# under errors=IGNORED / TEMPORARY (plain, retries, timeout) / PERMANENT
AFTER_ENDINGS: list[tuple[Any, dict]] = [
    (["temp", 1.0], {}), (["temp", 1.0], {"retries": 1}), (["temp", 2.0], {"timeout": 1.0}),
    ("perm", {}),
    ("arb", {"errors": "ignored"}), ("arb", {"errors": "temporary", "backoff": 1.0}), ("arb", {"errors": "temporary", "retries": 1}),
    ("arb", {"errors": "temporary", "timeout": 1.0, "backoff": 2.0}), ("arb", {"errors": "permanent"}),
    ("arb", {}), ("perm", {"errors": "ignored"}),
]


def gen_nested(rng: Any, i: int) -> dict:
    """What the scripted parents of `gen_subs` could not do (white-box review m1, m4, m6, m7): sub-handlers BELOW the first level
    (a sub-handler that registers sub-handlers of its own, two or three levels, each level by any of the four ways);
    a parent — top-level or nested — whose OWN function fails (permanently, arbitrarily, temporarily) AFTER its
    sub-handlers ran in the same invocation (explicit `kopf.execute`), or right after registering them (implicit run:
    they never start); a parent whose SET of sub-handlers changes from one invocation to the next. Parents of every kind,
    limits on the parents (children-retries use up their attempts), deletion / edits while the tree is retrying,
    stop / kill + restart in between."""
    kinds = [rng.choice(["create", "create", "update", "update", "delete", "resume", "field"]) for _ in range(rng.choice([1, 1, 2]))]
    if "delete" not in kinds and rng.random() < 0.35:
        kinds.append("delete")
    flavour = rng.choice(["nested", "nested", "after", "after", "sets", "mixed"])
    forced = (i % 100000) < 2 * len(AFTER_ENDINGS)        # the first scenarios of every run: each ending twice
    if forced:
        flavour = "after"
    p_nest = {"nested": 0.7, "after": 0.15, "sets": 0.1, "mixed": 0.5}[flavour]
    p_after = {"nested": 0.1, "after": 0.0, "sets": 0.0, "mixed": 0.3}[flavour]
    p_sets = {"nested": 0.1, "after": 0.0, "sets": 0.3, "mixed": 0.3}[flavour]
    handlers = []
    # the SHARP variant of "after" (stratified over the scenario index, so that every ending is produced in every run): the
    # children all finish in the parent's FIRST invocation and the parent's own function ends that very invocation in one
    # of the ways `execute_handler_once` tells apart — the references to the children's records are carried by that one
    # outcome only (no earlier children-retry outcome has stored them)
    sharp = AFTER_ENDINGS[i % len(AFTER_ENDINGS)] if flavour == "after" and (rng.random() < 0.7 or forced) else None
    for k, kind in enumerate(kinds):
        opts: dict[str, Any] = {}
        if kind == "field":
            opts["field"] = "spec.x"
        if kind == "resume" and rng.random() < 0.6:
            opts["deleted"] = True
        if rng.random() < 0.25:
            opts["backoff"] = rng.choice([0.5, 1.0, 2.0])
        if rng.random() < 0.12:
            opts["retries"] = rng.choice([3, 4, 6])
        if rng.random() < 0.15:
            opts["errors"] = rng.choice(["ignored", "temporary", "permanent"])
        h: dict[str, Any] = {"kind": kind, "id": f"{kind[0]}{k}", "opts": opts, "default": "ok",
                             "script": [] if rng.random() < 0.75 else [rng.choice([["temp", 1.0], ["temp", 0.5], "arb"])],
                             "sub": _sub_tree(rng, 2, [1, 2, 2, 3], p_nest, p_after, p_sets), "sub_mode": rng.choice(SUB_MODES)}
        if sharp is not None and k == 0:
            action, more = sharp
            h["script"] = []
            h["sub"] = [{"id": f"s{j}", "default": "ok", "script": []} for j in range(rng.choice([1, 2]))]
            h["sub_mode"] = rng.choice(["execute", "decorator_execute"])
            h["after"] = [action]
            h["opts"] = {kk: v for kk, v in opts.items() if kk in ("field", "deleted")}
            h["opts"].update(more)
            handlers.append(h)
            continue
        if flavour in ("after", "mixed") and (flavour == "after" or rng.random() < 0.5):
            h["after"] = _after_list(rng)
            if rng.random() < 0.7:
                h["sub_mode"] = rng.choice(["execute", "decorator_execute"])     # the children RUN, then the parent fails
        if flavour in ("sets", "mixed") and len(h["sub"]) > 1 and (flavour == "sets" or rng.random() < 0.5):
            h["sub_sets"] = _sub_sets(rng, [x["id"] for x in h["sub"]])
        handlers.append(h)
    for k in range(rng.choice([0, 0, 1])):
        kind = rng.choice(["create", "update", "delete", "resume"])
        handlers.append({"kind": kind, "id": f"q{kind[0]}{k}", "default": "ok", "opts": {},
                         "script": [rng.choice(["ok", ["temp", 1.0], "perm"]) for _ in range(rng.choice([0, 1, 2]))]})
    rng.shuffle(handlers)
    timeline: list[list] = []
    objects: list[dict] = []
    if rng.random() < 0.4:
        body: dict[str, Any] = {"spec": {"x": 0}, "metadata": {"labels": {"l": "1"}}}
        if rng.random() < 0.7:
            body["metadata"]["annotations"] = {OWN_PREFIX + "last-handled-configuration": json.dumps(ESSENCE0, separators=(",", ":")) + "\n"}
        objects.append({"name": "a", "body": body})
        t = 0.5
    else:
        t = 1.0
        timeline.append([t, "create", "a", {"spec": {"x": 0}, "metadata": {"labels": {"l": "1"}}}])
    for n in range(rng.choice([0, 1, 1, 2])):
        t += rng.choice([0.5, 1.0, 1.5, 3.0, 6.0])
        timeline.append([t, "edit", "a", {"spec": {"x": rng.choice([1, 2, n + 3])}}])
    if rng.random() < 0.6:
        t += rng.choice([0.5, 1.0, 2.5, 6.0, 12.0])
        timeline.append([t, "delete", "a"])
    end = t + 40.0
    for _ in range(rng.choice([0, 0, 1, 1])):
        ts = rng.randrange(32, int((t + 8.0) * 64)) / 64.0
        timeline.append([ts, rng.choice(["stop", "kill"])])
        timeline.append([ts + rng.choice([0.5, 2.0, 5.0]), "start"])
    sc = {"seed": i, "lifecycle": rng.choice(["asap", "one_by_one", "all_at_once", "all_at_once"]), "handlers": handlers,
          "timeline": timeline, "settings": {"execution.default_backoff": rng.choice([1.0, 2.0])}, "end": end, "family": "nested"}
    if sharp is not None:
        sc["lifecycle"] = "all_at_once"
        ending = f"{sharp[0][0] if isinstance(sharp[0], list) else sharp[0]}/" + ",".join(f"{k}={v}" for k, v in sorted(sharp[1].items()))
        sc["after_ending"] = ending
    if objects:
        sc["objects"] = objects
    if rng.random() < 0.2:
        sc["status_subresource"] = True
    return sc


def gen_legacy(rng: Any, i: int) -> dict:
    """Records the framework reads but did not write in this form (white-box review m3): the object exists before the operator
    starts, an update (or the creation) is outstanding, and it carries progress records WITHOUT a `purpose` (written by a
    version that had none: `HandlerState.purpose` — "None is a catch-all marker for upgrades/rollbacks"), with or
    without `retries` / `stopped` / `message`: finished (success, failure), retrying with a delay in the past or in the
    future, attempts at or beyond the handler's `retries=`. A record without a purpose is the handler's own for every
    cause: a finished one is not run again, an unfinished one continues with `retry` = its recorded attempts. Some
    objects also carry such records in `status.kopf.progress` (where the versions before annotations kept them; the
    default storage still reads and purges them). Then edits, deletion, stop / kill + restart."""
    n = rng.choice([2, 2, 3])
    created = rng.random() < 0.25           # no last-handled state at all: the outstanding cause is the creation
    kind = "create" if created else "update"
    handlers: list[dict] = []
    ann: dict[str, str] = {}
    st_progress: dict[str, dict] = {}
    for k in range(n):
        hid = f"{kind[0]}{k}"
        opts: dict[str, Any] = {}
        if rng.random() < 0.3:
            opts["retries"] = rng.choice([2, 3])
        if rng.random() < 0.3:
            opts["backoff"] = rng.choice([0.5, 1.0])
        handlers.append({"kind": kind, "id": hid, "opts": opts, "default": "ok",
                         "script": [rng.choice(["ok", ["temp", 1.0], "perm", "arb"]) for _ in range(rng.choice([0, 0, 1, 2]))]})
        shape = rng.choice(["none", "success", "success", "failure", "retrying-past", "retrying-future", "bare", "own-purpose"])
        if shape == "none":
            continue
        rec: dict[str, Any] = {"started": _iso(-rng.choice([4.0, 16.0, 64.0]))}
        if shape in ("success", "failure"):
            rec.update({"stopped": _iso(-2.0), "retries": rng.choice([1, 1, 2, 3]), shape: True})
            if shape == "failure" and rng.random() < 0.5:
                rec["message"] = "it failed"
        elif shape.startswith("retrying"):
            rec.update({"retries": rng.choice([1, 2, 3]), "delayed": _iso(-1.0 if shape.endswith("past") else rng.choice([2.0, 4.0, 8.0]))})
            if rng.random() < 0.5:
                rec["message"] = "try again"
        elif shape == "own-purpose":
            rec.update({"purpose": kind, "retries": 1, "success": rng.random() < 0.5})
            if not rec["success"]:
                rec["delayed"] = _iso(rng.choice([-1.0, 3.0]))
        if rng.random() < 0.25 and shape != "own-purpose":
            st_progress[hid] = rec          # the pre-annotation layout
        else:
            ann[OWN_PREFIX + hid] = json.dumps(rec, separators=(",", ":"))
    if rng.random() < 0.3:
        handlers.append({"kind": "delete", "id": "d", "opts": {"optional": rng.random() < 0.3}, "script": [], "default": "ok"})
    if rng.random() < 0.2:
        handlers.append({"kind": "resume", "id": "r", "opts": {}, "script": [rng.choice(["ok", ["temp", 1.0]])], "default": "ok"})
    rng.shuffle(handlers)
    body: dict[str, Any] = {"spec": {"x": 1}, "metadata": {"labels": {"l": "1"}, "annotations": ann}}
    if not created:
        ann[OWN_PREFIX + "last-handled-configuration"] = json.dumps(ESSENCE0, separators=(",", ":")) + "\n"
    if st_progress:
        body["status"] = {"kopf": {"progress": st_progress}}
    t = rng.choice([2.0, 4.0, 10.0])
    timeline: list[list] = []
    for _ in range(rng.choice([0, 0, 1, 2])):
        timeline.append([t, "edit", "a", rng.choice([{"spec": {"x": 2 + len(timeline)}}, {"metadata": {"labels": {"z": str(len(timeline))}}}])])
        t += rng.choice([0.5, 2.0, 6.0])
    if any(h["kind"] == "delete" for h in handlers) and rng.random() < 0.5:
        timeline.append([t, "delete", "a"])
    if rng.random() < 0.4:
        ts = rng.randrange(16, int((t + 4.0) * 64)) / 64.0
        timeline.append([ts, rng.choice(["stop", "kill"])])
        timeline.append([ts + rng.choice([0.5, 2.0]), "start"])
    sc = {"seed": i, "lifecycle": rng.choice(["asap", "one_by_one", "all_at_once"]), "handlers": handlers,
          "objects": [{"name": "a", "body": body}], "timeline": timeline,
          "settings": {"execution.default_backoff": rng.choice([1.0, 2.0])}, "end": t + 30.0, "family": "legacy"}
    if rng.random() < 0.2:
        sc["status_subresource"] = True
    return sc


STORAGES = [{"kind": "annotations", "prefix": "progress.example.com"}, {"kind": "status"}, {"kind": "status", "name": "myop"},
            {"kind": "multi"}, {"kind": "multi", "prefix": "progress.example.com", "name": "myop"}, {"kind": "annotations"}]


def with_storage(rng: Any, sc: dict) -> dict:
    """The same history under another `settings.persistence.progress_storage`: annotations under another prefix, the
    status stanza (`status.<name>.progress`), both at once (kopf's default of 2020, still documented)."""
    sc = dict(sc)
    sc["progress_storage"] = dict(rng.choice(STORAGES))
    sc["family"] = (sc.get("family") or "base") + "+storage"
    if sc["progress_storage"]["kind"] in ("status", "multi") and rng.random() < 0.5:
        sc["status_subresource"] = True
    return sc


def _with_runner(sc: dict) -> dict:
    """Every scenario goes through C02's own runner (the shared one plus what it observes in addition)."""
    return sc if sc.get("runner") else {**sc, "runner": sim_c02.RUNNER}


def _bound(p: dict) -> list[str]:
    """The selected handlers that are declared for the cause of this pass (`handler.reason is not None`: on.create /
    on.update / on.delete — as opposed to the mix-in handlers, resuming and field, which have no reason of their own),
    read off the decorators' gates as the implementation reports them. (A handler with a reason is selected only for
    that reason, so `reason == the cause's` is the same as `is not None` for a selected one.)"""
    if p.get("selected_gates") is not None:
        # the gates of the handlers the registry SELECTED (one function stacked under one id: the owned handlers, de-duplicated
        # by function & id, keep the first registration only — the selected one is the registration for this cause)
        return sorted({g["id"] for g in p["selected_gates"] if g["id"] in p["selected"] and g.get("reason") == p["reason"]})
    return sorted({d["id"] for d in p.get("decls") or [] if d["id"] in p["selected"] and d["gate"].get("reason") == p["reason"]})


def _own(p: dict, hid: str, rec: dict | None) -> dict | None:
    """The record as far as it is the handler's OWN progress: the record of another cause (purpose neither empty nor
    this cause's) under the id of a handler that is declared for this cause is its NAMESAKE's — one function & id
    registered for several causes are several handlers — and says nothing about this handler."""
    if rec is not None and hid in _bound(p) and rec.get("purpose") not in (None, p["reason"]):
        return None
    return rec


def _hid(inv: dict) -> str:
    """kopf's own id of an invoked handler (the scenario id of a field handler `f0` is `f0/spec.x` in kopf)."""
    return inv.get("hid") or inv["id"]


def _own_record(body: dict, hid: str, sc: dict | None = None) -> dict | None:
    """Independent decoding of the progress record of one handler (short ids only), wherever the storage keeps it."""
    return _progress_records(body, sc or {}).get(hid.replace("/", "."))


SIG_F2 = {"site": "process_changing_cause", "shape": "namesake's record left out with its subrefs: the records of its sub-handlers survive the closing purge"}


def _namesake_child(sc: dict, key: str) -> bool:
    """The record (id in its annotation form) is that of a sub-handler whose parent id stands for several registrations
    (one function stacked under one id for several causes) — read off the scenario's declarations."""
    hid = key[len(OWN_PREFIX):] if key.startswith(OWN_PREFIX) else key
    if "." not in hid and "/" not in hid:
        return False
    parent = hid.replace("/", ".").rsplit(".", 1)[0]
    return len({h["kind"] for h in sc.get("handlers", []) if h["id"].replace("/", ".") == parent and h["kind"] in KINDS}) > 1


def oracle(ctx: Ctx, sc: dict, tr: dict) -> None:
    """From the property statement, over implementation-level observations only."""
    dead_times = [m["t"] for m in tr["marks"] if m["what"] == "killed"]
    calls = tr["calls"]
    finals_seen: dict[tuple, set] = {}      # (incarnation, uid) -> handlers that reached a final outcome in that process
    for cyc in tr["cycles"]:
        body = cyc["body"]
        pc = cyc.get("pcc") or {}
        # one handling pass invokes a handler or sub-handler at most once: what the first invocation yields is not on
        # the object yet (it travels in the pass's own patch), so a second one is governed by no recorded progress —
        # it repeats the `retry` number, and repeats a success ("every handler succeeds at most once per cycle")
        once: dict[str, Any] = {}
        for inv in cyc["invoked"]:
            hid_, out_ = _hid(inv), (calls[inv["call"]].get("outcome") if "call" in inv else None)
            if hid_ in once:
                ctx.oracle_fail(f"handler {hid_} is invoked twice in ONE handling pass (first: {once[hid_]}, again: {out_}, "
                                f"both with retry={inv['retry']})",
                                {"scenario": sc, "cycle": cyc["i"], "invoked": [[_hid(i), i["retry"]] for i in cyc["invoked"]]},
                                {"site": "execute_handlers_once", "shape": "handler invoked twice in one pass"})
            once.setdefault(hid_, out_)
        # "closed exactly when every SELECTED handler has finished": the handlers the registry selects for the cause are
        # the selected ones; the pass may leave one out only as a resuming handler that HAS reached a final outcome for
        # this object in this process (/repo 6c4463d) — judged from the outcomes observed so far, not from kopf's memory
        key_io = (cyc["inc"], cyc["uid"])
        if pc.get("reason") in KINDS and pc.get("raw_selected") is not None and not cyc.get("error") and "closed" in pc:
            actual = pc["actual_selected"] if pc.get("actual_selected") is not None else []
            resuming = {g["id"] for g in pc.get("selected_gates") or [] if g.get("initial")}
            for h in pc["raw_selected"]:
                if h not in actual and h not in resuming:
                    ctx.oracle_fail(f"handler {h} is selected for the {pc['reason']} cause but left out of the pass, and it is not a resuming "
                                    f"handler (only those are left out, once they have finished in this process)",
                                    {"scenario": sc, "cycle": cyc["i"], "selected_by_registry": pc["raw_selected"], "executed": actual},
                                    {"site": "process_changing_cause", "shape": "selected non-resuming handler left out"})
                elif h not in actual and h not in finals_seen.get(key_io, set()):
                    ctx.oracle_fail(f"handler {h} is selected for the {pc['reason']} cause but left out of the pass although it has "
                                    f"not reached a final outcome in this process (the pass {'closes' if pc.get('closed') else 'does not close'} the cycle)",
                                    {"scenario": sc, "cycle": cyc["i"], "selected_by_registry": pc["raw_selected"], "executed": actual,
                                     "finished_in_this_process": sorted(finals_seen.get(key_io, set()))},
                                    {"site": "process_changing_cause", "shape": "selected handler left out although it has not finished"})
                    ctx.count("resumed_filter", "left out UNFINISHED")
                elif h not in actual:
                    ctx.count("resumed_filter", "left out, finished earlier in this process")
        for hid_, o_ in (pc.get("outcomes") or {}).items():
            if o_["final"]:
                finals_seen.setdefault(key_io, set()).add(hid_)
        for inv in cyc["invoked"]:
            rec = _own_record(body, _hid(inv), sc)
            if rec is not None and pc.get("reason") in KINDS and _hid(inv) in (pc.get("selected") or []):
                if _own(pc, _hid(inv), rec) is None:
                    ctx.count("namesake_record_not_inherited", f"{rec.get('purpose')} -> {pc['reason']}: "
                              f"{'finished' if rec.get('success') or rec.get('failure') else 'unfinished'}")
                rec = _own(pc, _hid(inv), rec)
            if rec is not None and (rec.get("success") or rec.get("failure")):
                ctx.oracle_fail(f"handler {_hid(inv)} invoked although its success/failure is recorded on the object it was given",
                                {"scenario": sc, "cycle": cyc["i"], "record": rec},
                                {"site": "process_changing_cause", "shape": "finished handler re-invoked"})
            want = int((rec or {}).get("retries") or 0)
            if inv["retry"] != want:
                ctx.oracle_fail(f"handler {_hid(inv)} invoked with retry={inv['retry']} but {want} attempts are recorded",
                                {"scenario": sc, "cycle": cyc["i"], "record": rec},
                                {"site": "execute_handler_once", "shape": "retry kwarg != recorded retries"})
        p = cyc.get("pcc")
        if p and p["reason"] in KINDS and not p["selected"] and "P_after" in p:
            # the cycle is closed because nothing is selected for the cause any more: no record may remain
            after_body = _body_after(cyc)
            prog = sorted(_progress_records(after_body, sc)) if after_body is not None else []
            if prog:
                ctx.oracle_fail(f"the handling cycle is closed (no handler selected any more) but progress records remain: {prog}",
                                {"scenario": sc, "cycle": cyc["i"]},
                                {"site": "process_changing_cause", "shape": "progress annotations left after closing by skip"})
        # "closed (progress records removed, last-handled state written) exactly when …": the converse of
        # "not before" — a pass that closes the cycle writes the last-handled state when it differs
        cz = cyc.get("cause") or {}
        if p and p["reason"] in KINDS and p.get("closed") and "diffbase_in_patch" in p and cz.get("new") is not None \
                and (cz.get("old_absent") or cz.get("diff")) and not p["diffbase_in_patch"]:
            ctx.oracle_fail("the handling cycle is closed but the last-handled state was not written although it differs",
                            {"scenario": sc, "cycle": cyc["i"]}, {"site": "process_changing_cause", "shape": "closed without last-handled"})
        if not p or p["reason"] not in KINDS or not p["selected"] or p.get("outcomes") is None or "P_after" not in p:
            continue
        fin_after = {}
        for hid in p["selected"]:
            before = _own(p, hid, p["P"].get(hid))
            o = p["outcomes"].get(hid)
            fin_after[hid] = bool((before and (before["success"] or before["failure"])) or (o and o["final"]))
        all_fin = all(fin_after.values())
        left = [h for h in p["owned"] if p["P_after"].get(h) is not None]
        after_body = _body_after(cyc)
        if after_body is not None:
            recs_after = _progress_records(after_body, sc)
            prog = sorted(recs_after)
            if all_fin and prog:
                ctx.oracle_fail(f"the handling cycle is closed but progress records remain on the object: {prog}",
                                {"scenario": sc, "cycle": cyc["i"]},
                                SIG_F2 if all(_namesake_child(sc, k) for k in prog) else
                                {"site": "process_changing_cause", "shape": "progress annotations left after closing"})
            if not all_fin:
                # the closing purge reads the references of the TOP-LEVEL records: the record of a sub-handler of any
                # depth must be referenced by the record of EVERY handler it is nested in (its parent, its parent's
                # parent, …), else it survives the closing of the cycle
                for hid in prog:
                    parts = hid.split(".")
                    for cut in range(len(parts) - 1, 0, -1):
                        anc = ".".join(parts[:cut])
                        prec = recs_after.get(anc)
                        if not isinstance(prec, dict):
                            continue        # no such handler (a dotted id), or nothing recorded for it
                        subrefs = prec.get("subrefs") or []
                        if hid not in [str(x).replace("/", ".") for x in subrefs]:
                            ctx.oracle_fail(f"sub-handler record {hid} is not referenced by the record of {anc}, which it is nested in "
                                            f"(it would survive the closing purge)",
                                            {"scenario": sc, "cycle": cyc["i"], "ancestor": anc, "ancestor_subrefs": subrefs},
                                            SIG_F2 if _namesake_child(sc, hid) else
                                            {"site": "execute_handler_once", "shape": "sub-handler record not covered by parent subrefs"})
                            break
        if all_fin and left:
            ctx.oracle_fail(f"all selected handlers finished but progress records remain: {left}",
                            {"scenario": sc, "cycle": cyc["i"]}, {"site": "process_changing_cause", "shape": "closed without purge"})
        # "… closed EXACTLY WHEN every selected handler has finished": the direction "closes when all the SELECTED ones
        # have finished" — judged from what the pass did, not from the implementation's own `done` flag (`p["closed"]`):
        # whatever other records the object carries (e.g. the unfinished record, same purpose, of a handler that is no
        # longer selected) the pass that finishes the last selected handler writes the last-handled state when it
        # differs, and — on a deletion held by the framework's finalizer — releases the object
        unsel_open = sorted(h for h in p["owned"] if h not in p["selected"] and p["P"].get(h) and not _finished(p["P"][h])
                            and p["P"][h].get("purpose") in (None, p["reason"]))
        if unsel_open:
            ctx.count("unselected_unfinished_same_purpose", f"{p['reason']}: all selected finished={all_fin} closed={bool(p.get('closed'))}")
        if all_fin and "diffbase_in_patch" in p and cz.get("new") is not None and (cz.get("old_absent") or cz.get("diff")) \
                and not p["diffbase_in_patch"]:
            ctx.oracle_fail(f"all selected handlers {p['selected']} have finished but the last-handled state was not written although it "
                            f"differs (records of handlers that are not selected: {unsel_open})",
                            {"scenario": sc, "cycle": cyc["i"], "finished": fin_after, "unselected_unfinished": unsel_open},
                            {"site": "process_changing_cause", "shape": "all selected finished but the cycle is not closed"})
        meta = body.get("metadata") or {}
        if all_fin and p["reason"] == "delete" and meta.get("deletionTimestamp") and OWN_FINALIZER in (meta.get("finalizers") or []) \
                and cyc.get("apply") and not cyc.get("error") and "allow_deletion" not in (cyc["apply"].get("fns") or []):
            ctx.oracle_fail(f"all selected deletion handlers {p['selected']} have finished but the object was not released in that pass",
                            {"scenario": sc, "cycle": cyc["i"], "finished": fin_after, "unselected_unfinished": unsel_open},
                            {"site": "process_resource_causes", "shape": "all selected finished but the deletion is not released"})
        if not all_fin:
            if p.get("diffbase_in_patch"):
                ctx.oracle_fail("last-handled state written although a selected handler has not finished",
                                {"scenario": sc, "cycle": cyc["i"], "finished": fin_after},
                                {"site": "process_changing_cause", "shape": "closed early"})
            if p["reason"] == "delete" and "allow_deletion" in ((cyc.get("apply") or {}).get("fns") or []) and not cyc.get("error"):
                # "… and not before": the deletion cycle is closed by releasing the object
                never = sorted(h for h, fin in fin_after.items() if not fin)
                ctx.oracle_fail(f"the object is released although the selected deletion handler(s) {never} have not finished "
                                f"(a record of another cause under a handler's id is its namesake's, not its own)",
                                {"scenario": sc, "cycle": cyc["i"], "finished": fin_after, "records": {h: p["P"].get(h) for h in never}},
                                {"site": "process_resource_causes", "shape": "released before every selected deletion handler finished"})
            for hid, fin in fin_after.items():
                if fin and p["P_after"].get(hid) is None:
                    ctx.oracle_fail(f"record of finished handler {hid} dropped while the cycle is still open",
                                    {"scenario": sc, "cycle": cyc["i"]}, {"site": "State.store", "shape": "finished record lost"})
    # a sub-handler whose success is recorded is not invoked again while its parent continues the SAME retry series
    # (the parent's record — same `started` — is still there): audit A2 NEW-1
    sub_ok: dict[tuple, Any] = {}
    for cyc in tr["cycles"]:
        p = cyc.get("pcc")
        if not p:
            continue
        for inv in cyc["invoked"]:
            if "/" not in _hid(inv):
                continue
            parent = _hid(inv).rsplit("/", 1)[0]
            prec = (p.get("P") or {}).get(parent)
            key = (cyc["inc"], cyc["uid"], _hid(inv))
            if key in sub_ok and prec and prec.get("started") == sub_ok[key] and inv["retry"] == 0 and not dead_times and not sc.get("faults"):
                ctx.oracle_fail(f"sub-handler {_hid(inv)} is invoked from scratch although it succeeded earlier in the same retry series of its parent {parent}",
                                {"scenario": sc, "cycle": cyc["i"], "parent_record": prec},
                                {"site": "process_changing_cause", "shape": "finished sub-handler re-run after the superseded progress (children's records) was purged while the parent was re-purposed"})
        for sp in p.get("subpasses") or []:
            if "error" in sp or not sp.get("outcomes"):
                continue
            prec = (p.get("P") or {}).get(sp["parent"])
            started = prec.get("started") if prec else p.get("now")
            for sid, o in sp["outcomes"].items():
                if o["final"] and not o["error"]:
                    sub_ok[(cyc["inc"], cyc["uid"], sid)] = started
    # at most one success per handler per handling cycle, absent the excluded environments
    if not dead_times and not sc.get("faults"):
        succ: dict[tuple, int] = {}
        last_reason: dict[Any, str] = {}
        parents_with_subs = {h["id"] for h in sc.get("handlers", []) if h.get("sub")}
        for cyc in tr["cycles"]:
            p = cyc.get("pcc")
            if p and p["reason"] in KINDS and last_reason.get(cyc["uid"]) not in (None, p["reason"]):
                # another cause has superseded the open one (e.g. the change was reverted and re-made):
                # the handlers start over for the new outstanding change; what must never happen —
                # an invocation while the success is recorded on the object — is checked above per call
                for key in [k for k in succ if k[0] == cyc["uid"]]:
                    succ.pop(key)
            if p and p["reason"] == "noop":
                # nothing to handle any more (the outstanding change was reverted to the last-handled
                # state): the open cycle is over, its leftovers are purged (/repo d1b2dc4); a later
                # change starts a new cycle in which the handlers legitimately run again
                for key in [k for k in succ if k[0] == cyc["uid"]]:
                    succ.pop(key)
                last_reason.pop(cyc["uid"], None)
            if p and p["reason"] in KINDS:
                last_reason[cyc["uid"]] = p["reason"]
            if not p or p.get("outcomes") is None:
                continue
            for hid, o in p["outcomes"].items():
                if o["final"] and not o["error"]:
                    key = (cyc["uid"], hid)
                    succ[key] = succ.get(key, 0) + 1
                    if succ[key] > 1:
                        ctx.oracle_fail(f"handler {hid} succeeded twice within one handling cycle with no crash/lost response/late echo",
                                        {"scenario": sc, "cycle": cyc["i"]}, {"site": "process_changing_cause", "shape": "double success"})
            # the same, counted at the handler functions themselves (a function that returned normally HAS succeeded,
            # whatever the framework made of it) — handlers without sub-handlers: a parent's function legitimately
            # returns once per pass of its children
            for inv in cyc["invoked"]:
                if _hid(inv) in p["owned"] and inv["id"] not in parents_with_subs and "call" in inv \
                        and calls[inv["call"]].get("outcome") == "ok":
                    key = (cyc["uid"], _hid(inv), "fn")
                    succ[key] = succ.get(key, 0) + 1
                    if succ[key] > 1:
                        ctx.oracle_fail(f"the function of handler {_hid(inv)} returned successfully twice within one handling cycle with no "
                                        f"crash/lost response/late echo",
                                        {"scenario": sc, "cycle": cyc["i"]}, {"site": "execute_handler_once", "shape": "double success (function level)"})
            if p["reason"] in KINDS and ("P_after" in p) and all(v is None for k, v in p["P_after"].items() if k in p["owned"]) \
                    and (p["outcomes"] or not p["selected"]):
                for key in [k for k in succ if k[0] == cyc["uid"]]:
                    succ.pop(key)
    oracle_recorded(ctx, sc, tr)
    oracle_own_write(ctx, sc, tr)


SIG_STALE_FIN = {"site": "queueing.worker", "shape": "handler invoked on a view older than the operator's own write that records it as finished"}
SIG_STALE_RETRY = {"site": "queueing.worker", "shape": "retry number restarted: handler invoked on a view older than the operator's own write that records its attempts"}


def _default_consistency_timeout() -> float:
    try:
        import kopf
        return float(kopf.OperatorSettings().persistence.consistency_timeout)
    except Exception:  # noqa: BLE001
        return 5.0


def oracle_own_write(ctx: Ctx, sc: dict, tr: dict) -> None:
    """"… a handler whose success or permanent failure is RECORDED ON THE OBJECT is never invoked again — across … intervening
    events …, and a handler still due is invoked with a retry number equal to its RECORDED attempts", read over the object AS
    THE SERVER HOLDS IT, not over the view a pass happens to be given: once the server has acknowledged the operator's own
    progress-storing write (PATCH → 200, request log of the fake server), what that write stored is recorded on the object, and
    the operator process that made it knows so. A later pass of the SAME operator process that runs its handlers on a view OLDER
    than that write (older by the server's own order of the versions it stored; a resourceVersion is an opaque string) is
    judged against what the write recorded: a handler recorded there as finished must not be invoked, a handler that is
    invoked gets `retry` = the attempts recorded there. Excused, as the property says: lost API responses / rejected writes
    (scenarios with faults), crashes and restarts (another operator process: it starts from a listing), echoes later than the
    consistency timeout (the invocation is at least `consistency_timeout` after the write was requested). Records of another
    cause than the one the pass handles are no claim on it (a superseding cause starts its own cycle)."""
    if sc.get("faults"):
        return
    T = float((sc.get("settings") or {}).get("persistence.consistency_timeout", _default_consistency_timeout()) or 0.0)
    calls = tr["calls"]
    order: dict[Any, dict[str, int]] = {}      # uid -> version -> position in the server's own history of the object
    for versions in (tr.get("history") or {}).values():
        for pos_, v in enumerate(versions):
            meta = (v.get("body") or {}).get("metadata") or {}
            order.setdefault(meta.get("uid"), {}).setdefault(str(meta.get("resourceVersion")), pos_)
    writes: dict[Any, list[dict]] = {}
    for q in tr.get("requests") or []:
        if q.get("method") == "PATCH" and q.get("response") == 200 and q.get("target_uid") and isinstance(q.get("result"), dict) \
                and "/kopfexamples/" in q.get("path", ""):
            writes.setdefault(q["target_uid"], []).append(q)
    last: dict[tuple, dict] = {}        # (operator process, uid) -> its last acknowledged write that carries progress records
    for cyc in tr["cycles"]:
        uid, key = cyc["uid"], (cyc["inc"], cyc["uid"])
        p = cyc.get("pcc") or {}
        W = last.get(key)
        pos = order.get(uid, {})
        if W is not None and cyc["invoked"] and p.get("reason") in KINDS and str(cyc["rv"]) in pos and W["rv"] in pos \
                and pos[str(cyc["rv"])] < pos[W["rv"]]:
            crossed = len(str(cyc["rv"])) < len(W["rv"])
            for inv in cyc["invoked"]:
                hid = _hid(inv)
                t_call = calls[inv["call"]]["t"] if "call" in inv and calls[inv["call"]].get("t") is not None else cyc["t0"]
                late = T <= 0 or t_call - W["t"] >= T
                ctx.count("handlers_run_on_a_view_older_than_the_own_write",
                          f"{'after the consistency timeout (excused)' if late else 'WITHIN the consistency timeout'}"
                          f"{', own version one digit longer' if crossed else ''}")
                if late:
                    continue
                rec = W["records"].get(hid.replace("/", "."))
                where = (f"pass {cyc['i']} ran on resourceVersion {cyc['rv']}, older than {W['rv']}, the version the server returned for "
                         f"the operator's own PATCH of pass {W['cycle']} requested {t_call - W['t']} s earlier (consistency_timeout={T})")
                if rec is None and W["closing"] and W["reason"] == p["reason"] and hid in W["finished_in_cycle"]:
                    # "every handler succeeds at most once per cycle" / "closed … exactly when every selected handler has finished":
                    # the own write CLOSED the cycle (last-handled state written, records removed); the older view knows nothing
                    # of it and the same change is handled from scratch
                    ctx.oracle_fail(f"handler {hid} is invoked (retry={inv['retry']}) for a change whose handling cycle the operator itself has "
                                    f"closed by its own acknowledged write (last-handled state written, progress records removed): {where}",
                                    {"scenario": sc, "cycle": cyc["i"], "own_write_cycle": W["cycle"]},
                                    {"site": "queueing.worker", "shape": "closed cycle started over on a view older than the operator's own closing write"})
                if not isinstance(rec, dict) or rec.get("purpose") not in (None, p["reason"]):
                    continue
                if _finished(rec):
                    ctx.oracle_fail(f"handler {hid} is invoked (retry={inv['retry']}) although its {'success' if rec.get('success') else 'permanent failure'} "
                                    f"is recorded on the object by the operator's own acknowledged write: {where}",
                                    {"scenario": sc, "cycle": cyc["i"], "own_write_cycle": W["cycle"], "record": rec}, SIG_STALE_FIN)
                elif int(rec.get("retries") or 0) != inv["retry"]:
                    ctx.oracle_fail(f"handler {hid} is invoked with retry={inv['retry']} although {int(rec.get('retries') or 0)} attempt(s) are "
                                    f"recorded on the object by the operator's own acknowledged write: {where}",
                                    {"scenario": sc, "cycle": cyc["i"], "own_write_cycle": W["cycle"], "record": rec}, SIG_STALE_RETRY)
        elif W is not None and not cyc["invoked"] and str(cyc["rv"]) in pos and W["rv"] in pos and pos[str(cyc["rv"])] < pos[W["rv"]]:
            ctx.count("views_older_than_the_own_write", f"held back (no handler invoked)"
                      f"{', own version one digit longer' if len(str(cyc['rv'])) < len(W['rv']) else ''}")
        # the acknowledged writes of this pass (by the request log: same object, requested from inside this pass)
        for q in writes.get(uid, []):
            if q.get("cycle") == cyc["i"]:
                rv = str(((q["result"].get("metadata") or {}).get("resourceVersion")))
                recs = _progress_records(q["result"], sc)
                if rv in pos and (W is None or pos.get(W["rv"], -1) < pos[rv]):
                    ann = ((q.get("payload") or {}).get("metadata") or {}).get("annotations") or {} if isinstance(q.get("payload"), dict) else {}
                    fin = sorted(h for h, o in (p.get("outcomes") or {}).items() if o.get("final")) + \
                        sorted(h for h, r in (p.get("P") or {}).items() if _finished(r))
                    W = {"rv": rv, "t": q["wall"], "cycle": cyc["i"], "records": recs, "reason": p.get("reason"), "finished_in_cycle": fin,
                         "closing": any(k.endswith("/last-handled-configuration") and v is not None for k, v in ann.items())}
                    last[key] = W


SIG_RECORDED ={"site": "process_changing_cause", "shape": "handler invoked again after its final outcome was recorded on the object earlier in the same handling cycle"}


def oracle_recorded(ctx: Ctx, sc: dict, tr: dict) -> None:
    """The FIRST sentence of the property, over the HISTORY of the object (not over the one view a pass is given): "within
    one handling cycle of an object, a handler or sub-handler whose success or permanent failure is recorded on the object
    is never invoked again — across retries of its siblings, intervening events and operator restarts".

    `recorded[uid][id]`: a finished record (success / failure) of the handler's own (no purpose, or the purpose of the
    cause being handled) was ON THE OBJECT some earlier pass of the same cycle was given. From then on, until the cycle
    ends, no pass — of this operator process or of a later one, whatever happened to the record in between (a pass that
    removes it from the object does not make the handler due again), whether or not the handler was selected in the
    passes in between, after a graceful stop or a kill (what is on the object does not depend on how the process
    ended) — may invoke it. Permanent failures count like successes (the at-most-one-success clause is silent on them).

    The cycle ends, from the property text alone ("closed exactly when every selected handler has finished"): with a
    pass after which every handler selected in it has finished (recorded before, or a final outcome in the pass), or
    that has no handler selected; with a pass of another cause (the superseding cause starts its own cycle: the
    established reading, theorem superseding_cause_reruns_witness) or of no cause (no-op / free / gone: the change was
    reverted, the object released). A pass that was cut before its handlers returned (the process killed or stopped
    under it) has closed nothing; one that raised after them is judged by the outcomes it got like any other."""
    if sc.get("faults"):
        return      # lost responses / rejected patches: what "is recorded on the object" is then the fault model's subject (C03/C12)
    recorded: dict[Any, dict[str, dict]] = {}
    was_out: dict[Any, set] = {}
    reason_of: dict[Any, str] = {}
    for cyc in tr["cycles"]:
        p = cyc.get("pcc")
        if not p:
            continue
        uid = cyc["uid"]
        reason = p.get("reason")
        if reason not in KINDS:
            recorded.pop(uid, None), was_out.pop(uid, None), reason_of.pop(uid, None)
            continue
        if reason_of.get(uid) not in (None, reason):
            recorded.pop(uid, None), was_out.pop(uid, None)
        reason_of[uid] = reason
        rec_u, out_u = recorded.setdefault(uid, {}), was_out.setdefault(uid, set())
        selected = [h.replace("/", ".") for h in (p.get("selected") or [])]
        # 1. the invocations of this pass against what EARLIER passes of the cycle found on the object
        for inv in cyc["invoked"]:
            key = _hid(inv).replace("/", ".")
            if key in rec_u:
                seen = rec_u[key]
                how = "success" if seen["record"].get("success") else "permanent failure"
                ctx.oracle_fail(f"handler {_hid(inv)} is invoked (retry={inv['retry']}) although its {how} was recorded on the object earlier in "
                                f"this {reason} cycle (pass {seen['cycle']} of operator process {seen['inc']} was given the object with that record; "
                                f"this is pass {cyc['i']} of process {cyc['inc']}"
                                f"{', the handler was not selected in a pass in between' if key in out_u else ''}); the view given now "
                                f"carries {'no record' if _own_record(cyc['body'], _hid(inv), sc) is None else 'another record'} under its id",
                                {"scenario": sc, "cycle": cyc["i"], "recorded_in_cycle": seen["cycle"], "record": seen["record"],
                                 "unselected_in_between": key in out_u},
                                SIG_RECORDED)
        # 2. what this pass's view of the object carries
        for key, rec in _progress_records(cyc["body"], sc).items():
            if isinstance(rec, dict) and _finished(rec) and rec.get("purpose") in (None, reason) and key not in rec_u:
                rec_u[key] = {"cycle": cyc["i"], "inc": cyc["inc"], "record": rec}
        owned = {h.replace("/", ".") for h in p.get("owned") or []}
        for key in rec_u:       # (histogram: the class of histories this clause is about — measured, per re-selection)
            if key in owned and key not in selected:
                if key not in out_u:
                    ctx.count("finished_handler_unselected_in_open_cycle",
                              f"{reason}: {'left out by the resumed filter' if key in [h.replace('/', '.') for h in p.get('raw_selected') or []] else 'not selected by the registry'}")
                out_u.add(key)
            elif key in owned and key in out_u:
                out_u.discard(key)
                ctx.count("finished_handler_selected_again_in_open_cycle",
                          f"{reason}: {'success' if rec_u[key]['record'].get('success') else 'permanent failure'} recorded, "
                          f"{'another operator process' if rec_u[key]['inc'] != cyc['inc'] else 'same process'}")
        # 3. does the cycle end with this pass?
        if not selected:
            recorded.pop(uid, None), was_out.pop(uid, None)
            continue
        if p.get("outcomes") is None:
            continue        # the pass was cut (the process was killed / stopped under it) before its handlers returned: it closed nothing
        all_fin = True
        for hid in p["selected"]:
            before = _own(p, hid, (p.get("P") or {}).get(hid))
            o = p["outcomes"].get(hid)
            if not (_finished(before) or (o and o["final"])):
                all_fin = False
        if all_fin:
            recorded.pop(uid, None), was_out.pop(uid, None)


def _iso_s(val: str) -> float:
    import datetime
    from ..sim import simloop
    return (datetime.datetime.fromisoformat(val) - simloop.EPOCH).total_seconds()


def _finished(rec: dict | None) -> bool:
    return bool(rec and (rec.get("success") or rec.get("failure")))


def oracle_subs(ctx: Ctx, sc: dict, tr: dict) -> dict:
    """Sub-handlers, from the property statement ("a handler or sub-handler …", "the cycle is closed exactly when every
    selected handler has finished, and not before"), over what the scripted handlers saw and the object carried:
    for every invocation of a parent whose function registered the sub-handlers S (none of them declares criteria,
    so all of S are selected for the cause at hand, whatever the cause is — deletion included):
      (a) a sub-handler of S that is still due on the body given to the pass (no success/permanent failure recorded,
          not sleeping) is invoked: all of them under all_at_once, at least one under one_by_one/asap;
      (b) the parent is recorded as finished only if all of S are finished;
      (c) the cycle is closed in that pass (records purged, last-handled state written, the finalizer released on a
          deletion) only if all of S are finished;
      (d) no finished sub-handler is invoked again, (e) `retry` = recorded attempts: `oracle()`, per invocation.
    Returns the per-pass statistics for the histograms."""
    lifecycle = sc.get("lifecycle") or "asap"
    calls = tr["calls"]
    kinds = {h["id"]: h["kind"] for h in sc.get("handlers", [])}
    stats: dict[str, int] = {}
    for cyc in tr["cycles"]:
        regs = cyc.get("sub_registered") or []
        body = cyc["body"]
        p = cyc.get("pcc") or {}
        # deletion (or another cause) arriving over an open series of sub-handlers: histogram only
        if p.get("reason") in KINDS:
            foreign = any("." in k and isinstance(r, dict) and r.get("purpose") not in (None, p["reason"])
                          for k, r in _progress_records(body, sc).items())
            if foreign:
                ctx.count("sub_superseded_series", f"{p['reason']} over the open series of another cause")
        if not regs or cyc.get("error"):
            continue
        invoked = {_hid(i): i for i in cyc["invoked"]}
        after_body = _body_after(cyc)
        recs_after = _progress_records(after_body, sc) if after_body is not None else None
        marked = bool((body.get("metadata") or {}).get("deletionTimestamp"))
        released = marked and "allow_deletion" in ((cyc.get("apply") or {}).get("fns") or [])
        closing = bool(p.get("closed")) or bool(p.get("diffbase_in_patch")) or released
        for reg in regs:
            parent = reg["parent_hid"]
            S = [f"{parent}/{sid}" for sid in reg["subs"]]
            fin_before, due = {}, []
            for sid in S:
                rec = _own_record(body, sid, sc)
                fin_before[sid] = _finished(rec)
                if not fin_before[sid]:
                    d = (rec or {}).get("delayed")
                    if d is None or _iso_s(d) <= reg["t"]:
                        due.append(sid)
            reg_by_parent = {r["parent_hid"]: r for r in regs}

            def fin_of(sid: str, depth: int = 0) -> bool:
                """finished after this pass, from what the functions did: recorded as finished before, or its function ended for
                good in this pass — and, if it is a parent itself, so did all the sub-handlers it registered"""
                if _finished(_own_record(body, sid, sc)):
                    return True
                if sid not in invoked:
                    return False
                c = calls[invoked[sid]["call"]]
                if c.get("outcome") == "perm":
                    return True
                if c.get("outcome") != "ok":
                    return False
                sub_reg = reg_by_parent.get(sid)
                return sub_reg is None or depth > 8 or all(fin_of(f"{sid}/{x}", depth + 1) for x in sub_reg["subs"])

            fin_after = {sid: fin_before[sid] or fin_of(sid) for sid in S}
            kind = kinds.get(reg["parent"], "?")
            key = f"{kind}:{p.get('reason')}"
            stats[key] = stats.get(key, 0) + 1
            ctx.count("sub_parent_kind", kind)
            ctx.count("sub_parent_kind_by_cause", key)
            ctx.count("sub_registration", reg["mode"])
            ctx.count("sub_registered_n", str(len(S)))
            ctx.count("sub_pass_shape", f"due={min(len(due), 3)} fin_before={sum(fin_before.values())} all_fin_after={all(fin_after.values())} closing={closing}")
            if reg.get("depth"):
                ctx.count("sub_nesting", f"registered at depth {reg['depth'] + 1}")
            if reg.get("after") not in (None, "ok"):
                a = reg["after"]
                ctx.count("sub_parent_fails_after", f"{a[0] if isinstance(a, list) else a}{' (before the implicit run)' if reg.get('aborted') else ''}")
            rep = {"scenario": sc, "cycle": cyc["i"], "parent": parent, "registered": S, "due": due,
                   "invoked": [[_hid(i), i["retry"]] for i in cyc["invoked"]]}
            missing = [sid for sid in due if sid not in invoked]
            # the parent's own function raised right after registering (implicit modes): kopf never gets to run them
            aborted = bool(reg.get("aborted"))
            # (b), (c) speak of a parent whose OWN function went through: one that fails itself is finished by that
            own_ok = calls[reg["call"]].get("outcome") in ("ok", "subhandlers") and not calls[reg["call"]].get("after_subs")
            if due and not aborted and (missing if lifecycle == "all_at_once" else len(missing) == len(due)):
                ctx.oracle_fail(f"the {p.get('reason')} handler {parent} ran and registered the sub-handlers {S}, but the due "
                                f"sub-handler(s) {missing} were not invoked in this pass",
                                rep, {"site": "subhandling.execute", "shape": "selected sub-handler not invoked although its parent ran"})
            if not all(fin_after.values()) and own_ok:
                unfinished = [sid for sid, f in fin_after.items() if not f]
                prec = recs_after.get(parent.replace("/", ".")) if recs_after is not None else None
                po = (p.get("outcomes") or {}).get(parent)
                if _finished(prec) or (po and po["final"]):
                    ctx.oracle_fail(f"the parent handler {parent} is finished although its sub-handler(s) {unfinished} have not finished",
                                    {**rep, "parent_record_after": prec},
                                    {"site": "subhandling.execute", "shape": "parent final before its sub-handlers finished"})
                if closing:
                    ctx.oracle_fail(f"the handling cycle is closed ({'finalizer released' if released else 'last-handled state written / records purged'}) "
                                    f"although the sub-handler(s) {unfinished} of the invoked handler {parent} have not finished",
                                    {**rep, "released": released}, {"site": "process_changing_cause", "shape": "closed before the sub-handlers finished"})
    return stats


def abstract(cyc: dict, lifecycle: str) -> tuple[list, dict] | None:
    p = cyc.get("pcc")
    if not p or "P_after" not in p or isinstance(p["P_after"], dict) and "error" in p["P_after"]:
        return None
    outcomes = {k: {f: v[f] for f in ("final", "delay", "error", "subrefs")} for k, v in (p["outcomes"] or {}).items()}
    universe = sorted(set(p["owned"]) | set(p["P"].keys()) | set(p["P_after"].keys()))
    req = ["C02.cycle", {"owned": p["owned"], "selected": p["selected"], "limits": p["limits"], "reason": p["reason"],
                         "bound": _bound(p),
                         "lifecycle": lifecycle, "P": p["P"], "outcomes": outcomes, "now": p["now"],
                         "now1": p["now1"] if p["now1"] is not None else p["now"], "universe": universe}]
    if p.get("raw_selected") is not None and p["reason"] in KINDS and not cyc.get("error"):
        # the step between the registry's selection and the handlers the pass is given (`selectResumed`, `resumedAfter`)
        req[1].update({"raw": p["raw_selected"], "initial": p.get("raw_initial") or [], "resumed": p.get("resumed_before") or []})
    top = set(p["owned"])
    impl = {"invoked": [[_hid(i), i["retry"]] for i in cyc["invoked"] if _hid(i) in top],
            "P": {k: v for k, v in p["P_after"].items() if k in top},
            "purged_subs": sorted(k for k, v in p["P_after"].items() if k not in top and v is None),
            "closed": bool(p.get("closed")),
            "delays": sorted(round(d * 64) for d in p.get("delays", []))}
    # for the converse direction (what the model purges must be gone in the implementation, unless a
    # sub-pass of this very pass wrote it again): kept aside, resolved once the model has answered
    impl["_after_all"] = dict(p["P_after"])
    impl["_sub_written"] = sorted({k for sp in (p.get("subpasses") or []) + (p.get("subpasses_deep") or []) for k in sp.get("known", [])})
    if "raw" in req[1]:
        impl["_resumed"] = {"executed": p["actual_selected"] if p.get("actual_selected") is not None else [],
                            "resumed_after": sorted(p.get("resumed_after") or [])}
    return req, impl


def abstract_subs(cyc: dict, lifecycle: str) -> list[tuple[list, dict]]:
    """The sub-passes (`subhandling.execute`) observed inside this top-level pass, one model request each;
    the implementation side: which sub-handlers were called with which `retry`, the outcome the parent got,
    and the sub-records the object carries afterwards (unless the closing purge removed them)."""
    p = cyc.get("pcc") or {}
    out = []
    first, deep = p.get("subpasses") or [], [sp for sp in (p.get("subpasses_deep") or []) if "error" in sp or sp.get("selected") or sp.get("known")]
    if any("error" in sp for sp in first + deep) or p.get("outcomes") is None:
        return out
    # the parents whose OWN function raised after its sub-pass (`after`): final / error / delay of their outcome are the
    # error policy's (C11's subject); what is compared is what the sub-pass did and the references the outcome carries
    own_failed = {reg["parent_hid"] for reg in cyc.get("sub_registered") or [] if reg.get("after") not in (None, "ok")}
    for sp in first + deep:
        if sp.get("outcomes") is None:
            continue
        parent = sp["parent"]
        # the parent's outcome: the top-level pass's, or — below the first level — the enclosing sub-pass's
        holders = [p["outcomes"]] if sp in first else [q["outcomes"] for q in first + deep if q is not sp and q.get("outcomes")]
        po = next((h[parent] for h in holders if parent in h), None)
        if po is None:
            continue
        known = sp["known"]
        req = ["C02.subpass", {"owned": known, "selected": sp["selected"], "limits": sp["limits"], "reason": sp["reason"],
                               "lifecycle": lifecycle, "P": sp["P"], "outcomes": sp["outcomes"], "now": sp["now"],
                               "now1": sp["now1"] if sp["now1"] is not None else sp["now"], "universe": known}]
        impl: dict[str, Any] = {"invoked": [[_hid(i), i["retry"]] for i in cyc["invoked"] if _hid(i) in known],
                                "final": po["final"], "error": po["error"], "delay": po["delay"],
                                "subrefs": sorted(set(po["subrefs"]))}
        if parent in own_failed:
            impl["_own_failed"] = True
        after = p.get("P_after")
        top_parent = next((t for t in p["outcomes"] if parent == t or parent.startswith(t + "/")), None)
        survives = isinstance(after, dict) and "error" not in after and top_parent is not None and after.get(top_parent) is not None
        impl["P"] = {k: after.get(k) for k in known} if survives else None
        out.append((req, impl))
    return out


def abstract_subsel(cyc: dict, lifecycle: str) -> list[tuple[list, dict]]:
    """The selection side of the sub-registries: the model (`subCfgOf`) takes the sub-handlers a parent registered as
    the ones its sub-pass owns and selects; the implementation side is what `subhandling.execute` passed to
    `execute_handlers_once` for that parent (nothing at all = no sub-pass observed)."""
    p = cyc.get("pcc") or {}
    out = []
    if cyc.get("error") or p.get("reason") not in KINDS:
        return out
    sps = (p.get("subpasses") or []) + [sp for sp in (p.get("subpasses_deep") or []) if "error" in sp or sp.get("selected")]
    if any("error" in sp for sp in sps):
        return out
    for reg in cyc.get("sub_registered") or []:
        if reg.get("aborted") or (reg.get("depth") and "subpasses_deep" not in p):
            continue        # the parent's function raised before kopf ran the children / deeper levels not observed
        parent = reg["parent_hid"]
        children = [f"{parent}/{sid}" for sid in reg["subs"]]
        mine = [sp for sp in sps if sp["parent"] == parent]
        req = ["C02.subcfg", {"parent": parent, "children": {parent: children}, "reason": p["reason"], "lifecycle": lifecycle}]
        impl = {"selected": [k for sp in mine for k in sp["selected"]], "reason": mine[0]["reason"] if mine else p["reason"],
                "subpasses": len(mine)}
        out.append((req, impl))
    return out


def abstract_whole(cyc: dict, lifecycle: str) -> tuple[list, dict] | str | None:
    """A whole pass INCLUDING the sub-passes of its parents, for the composed model `cycle2` (one store, one patch,
    one clock): all records (top-level and children) after the pass, all invocations. Returns a reason string when
    the pass is outside what `cycle2` expresses."""
    p = cyc.get("pcc") or {}
    sps = p.get("subpasses") or []
    if not sps or p.get("reason") not in KINDS or not p.get("selected") or p.get("outcomes") is None \
            or not isinstance(p.get("P_after"), dict) or "error" in p["P_after"]:
        return None
    if any("error" in sp or sp.get("outcomes") is None for sp in sps):
        return "sub-pass not observed"
    if any(sp.get("selected") for sp in p.get("subpasses_deep") or []) or any(o["subrefs"] for sp in sps for o in sp["outcomes"].values()):
        return "nested sub-handlers"
    if any(reg.get("after") not in (None, "ok") for reg in cyc.get("sub_registered") or []):
        return "parent fails after its sub-pass"
    if p.get("now1") not in (None, p["now"]) or any(sp["now"] != p["now"] or sp["now1"] not in (None, p["now"]) for sp in sps):
        return "several clocks in one pass"
    if any(set(sp["known"]) != set(sp["selected"]) for sp in sps) or len({sp["parent"] for sp in sps}) != len(sps):
        return "children outside the registered ones"
    if any(not k.startswith(sp["parent"] + "/") or "/" in k[len(sp["parent"]) + 1:] for sp in sps for k in sp["known"]):
        return "nested sub-handlers"
    if any(sp["limits"].get(k) not in (None, [None, None]) for sp in sps for k in sp["selected"]):
        return "sub-handler limits"
    children = {sp["parent"]: sp["selected"] for sp in sps}
    kids = [k for sp in sps for k in sp["selected"]]
    outcomes = {k: {f: v[f] for f in ("final", "delay", "error", "subrefs")} for k, v in p["outcomes"].items() if k not in children}
    for sp in sps:
        outcomes.update({k: {f: v[f] for f in ("final", "delay", "error", "subrefs")} for k, v in sp["outcomes"].items()})
    Pall = dict(p["P"])
    for sp in sps:
        Pall.update(sp["P"])
    universe = sorted(set(p["owned"]) | set(Pall) | set(kids))
    req = ["C02.cycle2", {"owned": p["owned"], "selected": p["selected"], "limits": p["limits"], "reason": p["reason"],
                          "bound": _bound(p),
                          "lifecycle": lifecycle, "children": children, "P": Pall, "outcomes": outcomes, "now": p["now"],
                          "universe": universe}]
    top = set(p["owned"])
    impl = {"invoked": [[_hid(i), i["retry"]] for i in cyc["invoked"] if _hid(i) in top],
            "subInvoked": [[_hid(i), i["retry"]] for i in cyc["invoked"] if _hid(i) in kids],
            "P": {k: p["P_after"].get(k) for k in universe}, "closed": bool(p.get("closed"))}
    return req, impl


def run(ctx: Ctx) -> None:
    n = ctx.budget(120, 4000)
    scenarios = [gen_scenario(ctx.rng, ctx.seed * 100000 + i) for i in range(n)]
    scenarios += [gen_supersede(ctx.rng, 50_000_000 + ctx.seed * 100000 + i) for i in range(max(10, n // 4))]
    scenarios += [gen_foreign_burst(ctx.rng, 60_000_000 + ctx.seed * 100000 + i) for i in range(max(10, n // 4))]
    scenarios += [gen_restart_supersede(ctx.rng, 65_000_000 + ctx.seed * 100000 + i) for i in range(max(10, n // 6))]
    scenarios += [gen_subs(ctx.rng, 70_000_000 + ctx.seed * 100000 + i) for i in range(max(60, n // 2))]
    scenarios += [gen_deselect(ctx.rng, 80_000_000 + ctx.seed * 100000 + i) for i in range(max(40, n // 4))]
    scenarios += [gen_stacked(ctx.rng, 90_000_000 + ctx.seed * 100000 + i) for i in range(max(60, n // 3))]
    scenarios += [gen_free(ctx.rng, 95_000_000 + ctx.seed * 100000 + i) for i in range(max(40, n // 5))]
    scenarios += [gen_nested(ctx.rng, 96_000_000 + ctx.seed * 100000 + i) for i in range(max(90, n // 3))]
    scenarios += [gen_legacy(ctx.rng, 97_000_000 + ctx.seed * 100000 + i) for i in range(max(30, n // 8))]
    scenarios += [gen_stacked_resume(ctx.rng, 98_000_000 + ctx.seed * 100000 + i) for i in range(max(40, n // 6))]
    scenarios += [gen_reselect(ctx.rng, 99_000_000 + ctx.seed * 100000 + i) for i in range(max(50, n // 4))]
    scenarios += [gen_stale_view(ctx.rng, 99_500_000 + ctx.seed * 100000 + i) for i in range(max(50, n // 4))]
    # the server's numbering of its versions is part of EVERY history (drawn from the scenario's own seed: the families' own
    # streams of draws stay as they were)
    for sc in scenarios:
        if "rv" not in sc and sc.get("family") != "stale-view":
            rvp = gen_rv_plan(random.Random(int(sc.get("seed", 0)) * 7919 + 13))
            if rvp is not None:
                sc["rv"] = rvp
    # other progress storages: a sample of every family re-run under another `settings.persistence.progress_storage`
    pick = [sc for sc in scenarios if not sc.get("objects") or sc.get("family") != "legacy"]
    scenarios += [with_storage(ctx.rng, sc) for sc in ctx.rng.sample(pick, min(len(pick), max(60, n // 4)))]
    for name, sc in _corpus():
        scenarios.insert(0, sc)
    scenarios = [_with_runner(sc) for sc in scenarios]
    for sc in scenarios:
        ctx.count("family", sc.get("family") or "base")
        rvp_ = sc.get("rv") or {}
        ctx.count("rv_plan", rvp_.get("mode") or ("corpus plan" if rvp_ else "the fake server's default (101, 102, …)"))
        if sc.get("family") == "stale-view":
            ctx.count("stale_view_window", ("a handler sleeps while somebody edits" if any(isinstance(a, list) and a and a[0] == "sleep"
                                            for h in sc["handlers"] for a in h.get("script", [])) else "") +
                      ("+a foreign write right before the own PATCH" if sc.get("slips") else ""))
        if sc.get("after_ending"):
            ctx.count("parent_ending_after_its_children", sc["after_ending"])
        if sc.get("reselect_way"):
            ctx.count("reselect_way", sc["reselect_way"].rsplit("/", 1)[0])
            ctx.count("reselect_final", sc["reselect_way"].rsplit("/", 1)[1])
        ctx.count("progress_storage", (sc.get("progress_storage") or {}).get("kind", "default (smart)"))
    results = pool.run_many(scenarios, wall=40.0)
    reqs, impls, where = [], [], []
    for sc, res in zip(scenarios, results):
        if "trace" not in res:
            raise RuntimeError(f"simulation failed: {str(res)[:2000]}")
        tr = res["trace"]
        if tr.get("sim_error"):
            raise RuntimeError(f"simulation error: {tr['sim_error']}")
        ctx.traces += 1
        oracle(ctx, sc, tr)
        sub_stats = oracle_subs(ctx, sc, tr)
        if sub_stats:
            ctx.count("scenarios_with_sub_passes", "+".join(sorted({k.split(":")[0] for k in sub_stats})))
        lifecycle = sc.get("lifecycle") or "asap"
        for cyc in tr["cycles"]:
            for qreq, qimpl in abstract_subsel(cyc, lifecycle):
                reqs.append(qreq)
                impls.append(qimpl)
                where.append({"scenario": sc, "cycle": cyc["i"], "sub_registry_of": qreq[1]["parent"]})
                ctx.count("sub_selection", f"{qreq[1]['reason']}:{len(qimpl['selected'])}/{len(qreq[1]['children'][qreq[1]['parent']])}")
            ab = abstract(cyc, lifecycle)
            if ab is None:
                continue
            req, impl = ab
            p = cyc["pcc"]
            shape = {"reason": p["reason"], "sel": len(p["selected"]),
                     "P": sorted((k, bool(v and (v["success"] or v["failure"])), bool(v and v["delayed"] is not None))
                                 for k, v in p["P"].items() if v),
                     "out": sorted((k, o["final"], o["error"], o["delay"] is not None) for k, o in (p["outcomes"] or {}).items()),
                     "lc": lifecycle}
            ctx.case(key=shape, nontrivial=bool(p["selected"]),
                     sample={"scenario_seed": sc.get("seed"), "cycle": cyc["i"], "request": req[1], "impl": impl}
                     if p["selected"] and p["P"] and any(p["P"].values()) else None)
            ctx.count("reason", p["reason"])
            if p["reason"] == "free":
                left = sorted(k for k, v in p["P"].items() if v is not None)
                gone = sorted(k for k in left if p["P_after"].get(k) is None)
                ctx.count("free_pass", f"leftover records: {min(len(left), 4)} (owned {min(len([k for k in left if k in p['owned']]), 3)}), "
                                       f"purged: {min(len(gone), 4)}")
            ctx.count("outcomes", ",".join(sorted((o.get("exc") or "ok") for o in (p["outcomes"] or {}).values())) or "-")
            reqs.append(req)
            impls.append(impl)
            where.append({"scenario": sc, "cycle": cyc["i"]})
            whole = abstract_whole(cyc, lifecycle)
            if isinstance(whole, str):
                ctx.count("whole_pass_skipped", whole)
            elif whole is not None:
                reqs.append(whole[0])
                impls.append(whole[1])
                where.append({"scenario": sc, "cycle": cyc["i"], "whole_pass": True})
                ctx.count("whole_pass", "closed" if whole[1]["closed"] else "open")
            for sreq, simpl in abstract_subs(cyc, lifecycle):
                reqs.append(sreq)
                impls.append(simpl)
                where.append({"scenario": sc, "cycle": cyc["i"], "subpass_of": (sreq[1]["selected"] or sreq[1]["owned"] or ["?"])[0].rsplit("/", 1)[0]})
                ctx.count("subpass", "final" if simpl["final"] else "children-retry")
                ctx.case(key={"sub": True, "sel": len(sreq[1]["selected"]), "lc": lifecycle,
                              "P": sorted((bool(v and (v["success"] or v["failure"])), bool(v and v["delayed"] is not None))
                                          for v in sreq[1]["P"].values() if v),
                              "out": sorted((o["final"], o["error"], o["delay"] is not None) for o in sreq[1]["outcomes"].values())},
                         nontrivial=True)
    ctx.count("scenarios", "run", len(scenarios))
    try:
        outs = ctx.driver.ask(reqs)
    except leanio.LeanError as e:
        ctx.tie_fail(f"Lean driver failed: {e}", {"log": e.log})
        return
    for req, impl, out, wh in zip(reqs, impls, outs, where):
        if not out or out[0] != "ok":
            ctx.tie_fail("driver rejected a pass", {"request": req, "answer": out, **wh})
            continue
        m = out[1]
        if req[0] == "C02.subcfg":
            ctx.compare("C02 sub-registry selection (registered sub-handlers = selected sub-handlers)", impl,
                        {"selected": m["selected"], "reason": m["reason"], "subpasses": 1}, wh)
            continue
        if req[0] == "C02.cycle2":
            model = {"invoked": m["invoked"], "subInvoked": m["subInvoked"], "P": _norm(m["P"]), "closed": m["closed"]}
            impl["P"] = _norm(impl["P"])
            ctx.compare("C02 whole pass with its sub-passes", impl, model, wh)
            continue
        if req[0] == "C02.subpass":
            model = {"invoked": m["invoked"], "final": m["final"], "error": m["error"], "delay": m["delay"],
                     "subrefs": sorted(set(m["subrefs"])), "P": _norm(m["P"]) if impl["P"] is not None else None}
            impl["P"] = _norm(impl["P"])
            if impl.pop("_own_failed", False):
                if m["final"]:      # the children's pass went through, then the parent's own function raised
                    for f in ("final", "error", "delay"):
                        model[f] = impl[f]
                ctx.count("subpass_parent_own_ending", "children finished, parent raised" if m["final"] else "children unfinished")
            ctx.compare("C02 sub-handler pass", impl, model, wh)
            continue
        top = set(req[1]["owned"])
        resumed_io = impl.pop("_resumed", None)
        if resumed_io is not None:
            ctx.compare("C02 selection after the resumed filter (registry's selection minus the resuming handlers that have finished in this process)",
                        {"executed": resumed_io["executed"]}, {"executed": m["selectedR"]}, wh)
            ctx.compare("C02 in-memory set of finished resuming handlers after the pass",
                        {"resumed": resumed_io["resumed_after"]}, {"resumed": sorted(set(m["resumedAfter"]))}, wh)
        after_all, sub_written = impl.pop("_after_all"), set(impl.pop("_sub_written"))
        model_purged = [k for k in req[1]["universe"] if k not in top and req[1]["P"].get(k) is not None
                        and m["P"].get(k) is None and k not in sub_written]
        impl["unpurged_subs"] = sorted(k for k in model_purged if after_all.get(k) is not None)
        impl["P"] = _norm(impl["P"])
        model = {"invoked": m["invoked"], "P": _norm({k: v for k, v in m["P"].items() if k in top}), "unpurged_subs": [],
                 "closed": m["closed"],
                 "purged_subs": impl["purged_subs"] if all(m["P"].get(k) is None for k in impl["purged_subs"]) else
                 sorted(k for k in impl["purged_subs"] if m["P"].get(k) is None),
                 "delays": sorted(m["delays"])}
        ctx.compare("C02 handling pass", impl, model, wh)


def _norm(P: Any) -> Any:
    """Records with their references as a sorted set (kopf stores `sorted(set(...))`; the model keeps the order of arrival)."""
    if not isinstance(P, dict):
        return P
    return {k: ({**v, "subrefs": sorted(set(v.get("subrefs") or []))} if isinstance(v, dict) else v) for k, v in P.items()}


def _corpus() -> list[tuple[str, dict]]:
    from ..core import load_corpus
    return [(n, d["scenario"] if "scenario" in d else d) for n, d in load_corpus(ID)]


def search(ctx: Ctx, broken: list) -> None:
    """A proof/tie is broken: look for a concrete failing history with the oracle at 10x budget."""
    n = ctx.budget(1200, 8000)
    scenarios = [gen_scenario(ctx.rng, 7_000_000 + ctx.seed * 100000 + i) for i in range(n)]
    scenarios += [gen_deselect(ctx.rng, 87_000_000 + ctx.seed * 100000 + i) for i in range(n // 4)]
    scenarios += [gen_stacked(ctx.rng, 97_000_000 + ctx.seed * 100000 + i) for i in range(n // 3)]
    scenarios += [gen_subs(ctx.rng, 77_000_000 + ctx.seed * 100000 + i) for i in range(n // 4)]
    scenarios += [gen_nested(ctx.rng, 96_700_000 + ctx.seed * 100000 + i) for i in range(n // 3)]
    scenarios += [gen_supersede(ctx.rng, 57_000_000 + ctx.seed * 100000 + i) for i in range(n // 8)]
    scenarios += [gen_legacy(ctx.rng, 97_700_000 + ctx.seed * 100000 + i) for i in range(n // 8)]
    scenarios += [gen_reselect(ctx.rng, 99_700_000 + ctx.seed * 100000 + i) for i in range(n // 4)]
    scenarios += [gen_stale_view(ctx.rng, 99_900_000 + ctx.seed * 100000 + i) for i in range(n // 3)]
    for sc in scenarios:
        if "rv" not in sc and sc.get("family") != "stale-view":
            rvp = gen_rv_plan(random.Random(int(sc.get("seed", 0)) * 7919 + 13))
            if rvp is not None:
                sc["rv"] = rvp
    scenarios += [with_storage(ctx.rng, sc) for sc in ctx.rng.sample(scenarios, min(len(scenarios), n // 4))]
    # bias: replay the scenarios of the diverging passes first
    for b in broken[:10]:
        sc = (b.replay or {}).get("input", {}).get("scenario") if isinstance(b.replay, dict) else None
        if sc:
            scenarios.insert(0, sc)
    scenarios = [_with_runner(sc) for sc in scenarios]
    for sc, res in zip(scenarios, pool.run_many(scenarios, wall=40.0)):
        if "trace" in res:
            oracle(ctx, sc, res["trace"])
            oracle_subs(ctx, sc, res["trace"])
            if any(f.kind == "oracle" for f in ctx.failures):
                return


def replay(ctx: Ctx, data: dict) -> None:
    rep = data.get("replay", data)
    sc = _with_runner(rep.get("scenario") or rep.get("input", {}).get("scenario"))
    res = pool.run_many([sc], wall=40.0)[0]
    if "trace" in res:
        oracle(ctx, sc, res["trace"])
        oracle_subs(ctx, sc, res["trace"])
