"""C02's own scenario runner: the shared scenario language (harness/sim/scenario.py) plus what the white-box review
of C02 found it could not express (review/wb/C02/NOTES.md). Nothing in harness/sim is changed.

Scripted handlers (`Observer02`, used for a handler definition as soon as it — or one of its descendants — uses a
new key; otherwise the shared implementation is used as it is):
 * NESTED sub-handlers: a sub-handler definition may itself have `"sub": [...]` / `"sub_mode"` (sub-sub-handlers, any
   depth): its scripted function registers them the same four ways a top-level parent does.
 * `"after": [a0, a1, …]` on a parent (any level): in its n-th invocation, once its sub-handlers have been registered
   — and, with the explicit modes (`execute`, `decorator_execute`), have RUN and all finished — the parent's own
   function goes on with action a_n ("perm" / "arb" / ["temp", d] / "ok" / null): a parent that fails AFTER its
   children ran in the same invocation. With the implicit modes (`decorator`, `register`) the function raises before
   kopf gets to run the children: the registration is logged with `"aborted": true`.
 * `"sub_sets": [[ids…] | null, …]` on a parent: the sub-handlers it registers in its n-th invocation (null / beyond
   the list = all of them): a parent whose set of children changes between the passes.

Registrations: `"same_fn": true` — all the registrations of one id share ONE function object (stacked decorators on one
function, as in user code; kopf de-duplicates by (function, id)); the shared builder makes one function per registration.

Settings: `"progress_storage": {"kind": "annotations"|"status"|"multi"|"smart", "prefix": …, "name": …}` builds
`settings.persistence.progress_storage` for every incarnation (default: kopf's own default).

Observation, added to the cycle records of `observe` (key `pcc`):
 * `raw_selected`   — `registry._changing.get_handlers(cause)`: what the registry selects for the cause;
 * `actual_selected`— the handlers `process_changing_cause` really passed to `execute_handlers_once`;
 * `resumed_before` / `resumed_after` — `memory.resumed_handlers` around the pass;
 * `subpasses_deep` — the sub-passes of `subhandling.execute` BELOW the first level (the shared observer logs the
   first level as `subpasses`), same fields plus `depth`.

Selected per scenario with `"runner": "harness.props.sim_c02:run_scenario"` (see harness/sim/worker.py).
"""
from __future__ import annotations

import asyncio
import contextlib
import contextvars
import copy
from typing import Any, Iterator

from ..sim import observe, scenario, simloop

RUNNER = "harness.props.sim_c02:run_scenario"
NEW_KEYS = ("after", "sub_sets")


def uses_new_features(h: dict, top: bool = True) -> bool:
    if any(k in h for k in NEW_KEYS):
        return True
    if not top and (h.get("sub") or "sub_mode" in h):
        return True
    return any(uses_new_features(s, top=False) for s in h.get("sub", []) or [])


class Observer02(observe.Observer):

    def make_handler(self, h: dict) -> Any:
        # scenario key `"same_fn": true` — ONE function object for all the registrations of one id (stacked decorators,
        # as in user code): kopf de-duplicates handlers by (function, id); the script is the first registration's
        if self.sim.sc.get("same_fn") and h["kind"] in ("create", "update", "delete", "resume", "field"):
            cache = self.__dict__.setdefault("_fn_by_id", {})
            if h["id"] not in cache:
                cache[h["id"]] = super().make_handler(h)
            return cache[h["id"]]
        return super().make_handler(h)

    def _make_plain(self, h: dict) -> Any:
        if h.get("kind") != "sub" and not uses_new_features(h):
            return super()._make_plain(h)
        subs_all = h.get("sub", []) or []

        async def handler(**kwargs: Any) -> Any:
            if self._muted():
                raise asyncio.CancelledError()
            rec = self._base_rec(h, kwargs)
            action, n = self._next_action(h, rec["uid"] or "")
            rec["n"] = n
            self.calls.append(rec)
            call_idx = len(self.calls) - 1
            cyc = observe._cycle.get()
            real_id = None
            try:
                from kopf._core.actions import execution as _execution
                real_id = str(_execution.handler_var.get().id)
            except Exception:  # noqa: BLE001
                real_id = None
            if real_id is not None:
                rec["hid"] = real_id
            if cyc is not None and h["kind"] in ("create", "update", "delete", "resume", "field", "sub"):
                cyc["invoked"].append({"id": h["id"], "retry": rec["retry"], "hid": real_id or h["id"], "call": call_idx})
            sets = h.get("sub_sets")
            subs = subs_all
            if sets and n < len(sets) and sets[n] is not None:
                subs = [s for s in subs_all if s["id"] in sets[n]]
            if subs and (action == "ok" or action == ["ok"]):
                import kopf
                mode = h.get("sub_mode", "execute")
                fns = {}
                for s in subs:
                    sh = {"kind": "sub", "id": f"{h['id']}/{s['id']}", "script": s.get("script", []), "default": s.get("default", "ok")}
                    for k in ("sub", "sub_mode") + NEW_KEYS:
                        if k in s:
                            sh[k] = s[k]
                    fns[s["id"]] = self._make_plain(sh)
                after = h.get("after")
                after_action = after[n] if after and n < len(after) else None
                reg = None
                if cyc is not None:
                    reg = {"parent": h["id"], "parent_hid": real_id or h["id"], "mode": mode, "t": self.sim.now(),
                           "call": call_idx, "subs": [s["id"] for s in subs], "depth": h["id"].count("/") if h["kind"] == "sub" else 0,
                           "after": after_action}
                    cyc.setdefault("sub_registered", []).append(reg)
                rec["outcome"] = "subhandlers"
                rec["sub_mode"] = mode
                if mode == "execute":
                    await kopf.execute(fns=fns)
                elif mode in ("decorator", "decorator_execute"):
                    for sid, sfn in fns.items():
                        kopf.subhandler(id=sid)(sfn)
                    if mode == "decorator_execute":
                        await kopf.execute()
                elif mode == "register":
                    for sid, sfn in fns.items():
                        kopf.register(sfn, id=sid)
                else:
                    raise RuntimeError(f"unknown sub_mode {mode!r}")
                if after_action is not None and after_action != "ok":
                    if reg is not None and mode in ("decorator", "register"):
                        reg["aborted"] = True       # the function raises before kopf runs the children implicitly
                    rec["after_subs"] = True
                    return await self._perform(after_action, rec, kwargs)
                rec["outcome"] = "ok"
                rec["t_end"] = self.sim.now()
                return None
            return await self._perform(action, rec, kwargs)

        handler.__name__ = handler.__qualname__ = h["id"].replace("/", "_")
        return handler


def build_progress_storage(spec: dict) -> Any:
    from kopf._cogs.configs import progress
    kind = spec.get("kind", "smart")
    prefix = spec.get("prefix", "kopf.zalando.org")
    name = spec.get("name", "kopf")
    if kind == "annotations":
        return progress.AnnotationsProgressStorage(prefix=prefix)
    if kind == "status":
        return progress.StatusProgressStorage(name=name)
    if kind == "multi":
        return progress.MultiProgressStorage([progress.AnnotationsProgressStorage(prefix=prefix),
                                              progress.StatusProgressStorage(name=name)])
    if kind == "smart":
        return progress.SmartProgressStorage(prefix=prefix, name=name)
    raise ValueError(f"unknown progress storage {kind!r}")


class Sim02(scenario.Sim):
    def __init__(self, sc: dict):
        super().__init__(sc)
        self.obs = Observer02(self)
        self.registry = scenario.build_registry(sc, self.obs)
        # `"rv": {"start": n, "strides": [...], "jumps": [{"nth": k}, …]}` — how the server numbers its versions (to a client a
        # resourceVersion is an opaque string; the fake server's own 101, 102, … keeps one decimal width for a whole history).
        # Same plan language as C07's (`Sim07._install_rv_plan`, copied: nothing in harness/sim or in C07's files is changed).
        self.rv_plan = dict(sc.get("rv") or {})
        self.rv_jumps = [dict(j) for j in self.rv_plan.get("jumps", [])]
        self.own_patches = 0
        self.cluster.before_request.append(self._tag_cycle)
        if self.rv_plan:
            self._install_rv_plan()
            if self.rv_jumps:
                self.cluster.before_request.append(self._rv_jump)      # (after `_slip`: a slipped-in foreign write comes first)

    def _install_rv_plan(self) -> None:
        cl = self.cluster
        start = self.rv_plan.get("start")
        if start is not None:
            base = 100                     # fakeapi.Cluster: `self.rv = 100` before anything is stored
            shift = int(start) - base

            def re_based(body: dict) -> None:
                body["metadata"]["resourceVersion"] = str(int(body["metadata"]["resourceVersion"]) + shift)

            if int(start) < 1 or cl.horizon and any(cl.horizon.values()):
                raise ValueError("rv plan: the counter starts at 1 or above, before any compaction")
            for body in cl.objects.values():
                re_based(body)
            for k, entries in cl.log.items():
                cl.log[k] = [(rv + shift, et, snap) for rv, et, snap in entries]
                for _, _, snap in cl.log[k]:
                    re_based(snap)
            for versions in cl.history.values():
                for v in versions:
                    re_based(v["body"])
            cl.rv += shift
        strides = [int(g) for g in self.rv_plan.get("strides", [1])] or [1]
        if any(g < 1 for g in strides):
            raise ValueError("rv plan: strides are >= 1")
        orig_next = cl._next_rv
        n = [0]

        def next_rv() -> int:
            cl.rv += strides[n[0] % len(strides)] - 1
            n[0] += 1
            return orig_next()

        cl._next_rv = next_rv  # type: ignore[method-assign]

    def _tag_cycle(self, req: dict) -> None:
        """Which handling pass (`process_resource_event` call) a request of the operator was made in — None: none."""
        rec = observe._cycle.get()
        req["cycle"] = rec["i"] if rec is not None else None

    def _rv_jump(self, req: dict) -> None:
        """Right before the n-th PATCH of the operator on the object the counter leaps to the end of its decimal width: the
        operator's own write gets the first version that is one digit longer than the versions stored just before it."""
        if req.get("method") == "PATCH" and "/kopfexamples/" in req.get("path", ""):
            self.own_patches += 1
            for j in self.rv_jumps:
                if j.get("nth") == self.own_patches and not j.get("done"):
                    j["done"] = True
                    cl = self.cluster
                    cl.rv = max(cl.rv, 10 ** len(str(cl.rv)) - 1)
                    self.mark("rv-jump", rv=cl.rv)

    def settings(self) -> Any:
        s = super().settings()
        spec = self.sc.get("progress_storage")
        if spec:
            s.persistence.progress_storage = build_progress_storage(spec)
        return s


@contextlib.contextmanager
def installed2(obs: observe.Observer) -> Iterator[None]:
    """On top of `observe.installed`: the registry's own selection, the handlers really executed, the in-memory set of
    resuming handlers around the pass, and the sub-passes below the first level."""
    from kopf._core.actions import execution
    from kopf._core.reactor import processing
    sim = obs.sim
    inner_pcc = processing.process_changing_cause
    inner_exec = execution.execute_handlers_once
    depth: contextvars.ContextVar[int] = contextvars.ContextVar("verif_c02_exec_depth", default=0)
    actual: contextvars.ContextVar[list | None] = contextvars.ContextVar("verif_c02_actual", default=None)

    async def process_changing_cause(**kw: Any) -> Any:
        rec = observe._cycle.get()
        if rec is None:
            return await inner_pcc(**kw)
        cause, registry, memory = kw["cause"], kw["registry"], kw["memory"]
        extra: dict[str, Any] = {}
        try:
            raw = list(registry._changing.get_handlers(cause=cause))
            extra["raw_selected"] = [str(h.id) for h in raw]
            extra["raw_initial"] = sorted({str(h.id) for h in raw if h.initial})
            # the gates of the handlers SELECTED (after the de-duplication by function & id): with one function stacked
            # under one id the owned handlers keep the first registration only, the selected one is the cause's own
            extra["selected_gates"] = [{"id": str(h.id), "reason": h.reason.value if h.reason is not None else None,
                                        "initial": bool(h.initial)} for h in raw]
        except Exception as e:  # noqa: BLE001
            extra["raw_selected_error"] = repr(e)
        extra["resumed_before"] = sorted(map(str, getattr(memory, "resumed_handlers", ()) or ()))
        box: list = []
        tok = actual.set(box)
        try:
            return await inner_pcc(**kw)
        finally:
            actual.reset(tok)
            extra["resumed_after"] = sorted(map(str, getattr(memory, "resumed_handlers", ()) or ()))
            extra["actual_selected"] = box[0] if box else None
            if rec.get("pcc") is not None:
                rec["pcc"].update(extra)

    async def execute_handlers_once(*a: Any, **kw: Any) -> Any:
        rec = observe._cycle.get()
        d = depth.get()
        tok = depth.set(d + 1)
        sp = None
        try:
            if rec is not None and d == 0 and kw.get("extra_context") is not None and "default_errors" not in kw:
                box = actual.get()
                if box is not None and not box:
                    box.append([str(h.id) for h in kw.get("handlers") or []])
            if rec is not None and d >= 2 and rec.get("pcc") is not None and kw.get("state") is not None:
                try:
                    parent = execution.handler_var.get()
                    st, cause_, settings_ = kw["state"], kw["cause"], kw["settings"]
                    sp = {"parent": str(parent.id), "depth": d, "selected": [str(h.id) for h in kw.get("handlers") or []],
                          "known": [str(k) for k in st], "reason": cause_.reason.value,
                          "limits": {str(h.id): [None if h.timeout is None else observe.to_ticks(h.timeout), h.retries]
                                     for h in kw.get("handlers") or []},
                          "P": {str(k): observe.record_to_json(settings_.persistence.progress_storage.fetch(key=k, body=cause_.body))
                                for k in st},
                          "now": observe.to_ticks(sim.now()), "outcomes": None, "now1": None}
                    rec["pcc"].setdefault("subpasses_deep", []).append(sp)
                except Exception as e:  # noqa: BLE001
                    sp = None
                    rec["pcc"].setdefault("subpasses_deep", []).append({"error": repr(e)})
            out = await inner_exec(*a, **kw)
        finally:
            depth.reset(tok)
        if sp is not None:
            sp["outcomes"] = {str(k): {"final": bool(o.final), "delay": None if o.delay is None else observe.to_ticks(o.delay),
                                       "error": o.exception is not None, "subrefs": sorted(map(str, o.subrefs))}
                              for k, o in out.items()}
            sp["now1"] = observe.to_ticks(sim.now())
        return out

    processing.process_changing_cause = process_changing_cause  # type: ignore[assignment]
    execution.execute_handlers_once = execute_handlers_once  # type: ignore[assignment]
    try:
        yield
    finally:
        processing.process_changing_cause = inner_pcc  # type: ignore[assignment]
        execution.execute_handlers_once = inner_exec  # type: ignore[assignment]


def run_scenario(sc: dict, wall_limit: float = 60.0) -> dict:
    if not all(simloop.dyadic(e[0]) for e in sc.get("timeline", [])):
        raise ValueError("non-dyadic time in the scenario")
    holder: dict[str, Any] = {}

    async def main() -> dict:
        sim = Sim02(copy.deepcopy(sc))
        holder["sim"] = sim
        with observe.installed(sim.obs), installed2(sim.obs):
            return await sim.run()

    try:
        return simloop.run_sim(main, wall_limit=wall_limit)
    except (simloop.SimDeadlock, simloop.SimStall) as e:
        sim = holder.get("sim")
        tr = sim.obs.trace() if sim is not None else {}
        tr["sim_error"] = f"{type(e).__name__}: {e}"
        return tr
