"""C01 — simulation half: the REAL `queueing.watcher` under a virtual-time loop, fully scripted.

Nothing in /repo is edited. Observation is by module-attribute patching of names *as referenced from
`kopf._core.reactor.queueing`*: `watching` (→ scripted `infinite_watch`), `asyncio` (→ `wait_for`,
`Queue` observed), `aiotasks` (→ `Scheduler` subclass with observed `_running_tasks` /
`_pending_coros`), `worker`, `_wait_for_depletion`. Every hook sits at a point where the real state
equals the model state *after* the label (see DESIGN §4 A), so each label carries a clean snapshot.
"""
from __future__ import annotations

import asyncio
import contextvars
import heapq
import logging
import random
import sys
import warnings
from typing import Any

from ..sim.simloop import SimDeadlock, SimLoop, SimStall, run_sim

TICK = 2.0 ** -10

# The observer of the watcher in whose context the current code runs. Every task a watcher creates
# (its Scheduler's spawner/cleaner, the workers, the depletion task) inherits the watcher task's context,
# so several watchers can run in ONE loop (as in a real operator) and are observed separately.
CUR: contextvars.ContextVar = contextvars.ContextVar("c01_observer", default=None)


class TieLoop(SimLoop):
    """SimLoop + control of the order of timers that are due at the same virtual instant
    (real asyncio orders heap ties arbitrarily). policy: fifo (heap order) | lifo | rng."""

    def __init__(self, policy: str = "fifo", seed: int = 0, max_steps_per_instant: int = 5000) -> None:
        super().__init__(0.0, None, max_steps_per_instant)
        self.policy = policy
        self.tie_rng = random.Random(seed)
        self.tie_groups = 0

    def _run_once(self) -> None:
        sched = self._scheduled
        while sched and sched[0]._cancelled:
            h = heapq.heappop(sched)
            h._scheduled = False
            self._timer_cancelled_count = max(0, self._timer_cancelled_count - 1)
        if not self._ready and not self._stopping and sched and sched[0]._when > self.vtime:
            self.vtime = sched[0]._when
            self._steps_at_instant = 0
        due: list[Any] = []
        while sched and sched[0]._when <= self.vtime:
            h = heapq.heappop(sched)
            h._scheduled = False
            if h._cancelled:
                self._timer_cancelled_count = max(0, self._timer_cancelled_count - 1)
                continue
            due.append(h)
        if len(due) > 1:
            out: list[Any] = []
            i = 0
            while i < len(due):
                j = i
                while j < len(due) and due[j]._when == due[i]._when:
                    j += 1
                grp = due[i:j]
                if len(grp) > 1:
                    self.tie_groups += 1
                    if self.policy == "lifo":
                        grp.reverse()
                    elif self.policy == "rng":
                        self.tie_rng.shuffle(grp)
                out.extend(grp)
                i = j
            due = out
        self._ready.extend(due)
        if not self._ready and not self._scheduled and not self._stopping:
            # the base loop would block in select() for ever: there are no threads or sockets here
            raise SimDeadlock("nothing ready, nothing scheduled")
        super()._run_once()


class _Proxy:
    """A module look-alike: a few names overridden, everything else is the real module's."""

    def __init__(self, real: Any, **over: Any) -> None:
        self.__dict__["_real"] = real
        self.__dict__.update(over)

    def __getattr__(self, name: str) -> Any:
        return getattr(self.__dict__["_real"], name)


class ProcessorBoom(Exception):
    pass


class Inst:
    __slots__ = ("k", "g", "key", "coro", "task", "started", "timed_out", "got_eos", "proc_raised",
                 "exit", "waiting", "wait_since", "wait_timeout", "busy", "in_wait", "timeout_took", "last_got", "first_wait", "t_created", "t_spawn",
                 "t_exit", "t_left", "p_spawn", "p_left", "waiters", "obj")

    def __init__(self, k: int, g: int, key: Any) -> None:
        self.k, self.g, self.key = k, g, key
        self.coro = self.task = None
        self.started = self.timed_out = self.got_eos = self.proc_raised = False
        self.exit: str | None = None
        self.waiting = False
        self.busy = False
        self.in_wait = False          # inside `wait_for(backlog.get(), …)`
        self.timeout_took = False     # took an item synchronously in the TimeoutError branch
        self.last_got: Any = None
        self.first_wait = True        # the task's first step has not reached its first wait_for yet
        self.wait_since = self.wait_timeout = 0.0
        self.t_created = self.t_spawn = self.t_exit = self.t_left = None
        self.p_spawn = self.p_left = None
        self.waiters: list[asyncio.Future] = []
        self.obj: int | None = None


class Observer:
    def __init__(self, scn: dict, queueing: Any, name: str = "main") -> None:
        self.scn = scn
        self.q = queueing
        self.name = name
        self.loop: TieLoop | None = None
        self.outcome: str | None = None
        self.close_p: int | None = None
        self.in_hand: dict | None = None   # the event the stream has handed over and the watcher has not enqueued yet
        self.sched = 0.0                   # when the API "sent" the previous item (availability time)
        self.last_yield: float | None = None
        self.items_by_seq: dict[int, dict] = {}
        self.pos = 0                       # global log position (orders things inside one instant)
        self.labels: list[list] = []       # [label, snapshot|None, time_ticks]
        self.anomalies: list[str] = []
        self.streams: dict | None = None
        self.scheduler: Any = None
        self.kidx: dict[Any, int] = {}
        self.gens: dict[int, int] = {}
        self.insts: list[Inst] = []
        self.by_coro: dict[int, Inst] = {}
        self.by_task: dict[Any, Inst] = {}
        self.delivered: list[dict] = []
        self.calls: list[dict] = []
        self.fresh_put: tuple[Any, int] | None = None
        self.closing_t: float | None = None    # first moment the watch is known to be over/doomed
        self.cancel_t: float | None = None
        self.fail_t: float | None = None
        self.stream_end: dict | None = None
        self.watcher_task: Any = None
        self.seq_obj: dict[int, int] = {}
        self.max_running = 0
        self.max_busy = 0
        self.nbusy = 0
        self.inst_by_k: dict[int, Inst] = {}
        self.obj_k: dict[int, int] = {}
        self.pending_maxsize: int | None = None    # the bound of the scheduler's pending queue AS THE CODE BUILT IT
        self.lock_held: list[str] = []             # labels at which the scheduler's lock was held by a suspended task

    # ---- helpers --------------------------------------------------------------------------------
    def now(self) -> float:
        return self.loop.time()  # type: ignore[union-attr]

    def ticks(self) -> int:
        return int(round(self.now() * 1024))

    def key_index(self, key: Any) -> int:
        if key not in self.kidx:
            self.kidx[key] = len(self.kidx)
        return self.kidx[key]

    def snap(self) -> list | None:
        if self.scheduler is None:
            return None
        st = []
        if self.streams is not None:
            for key, stream in self.streams.items():
                st.append([self.key_index(key), stream.backlog.qsize()])
        st.sort()
        sch = self.scheduler
        try:
            run = len(sch._running_tasks)
            pend = sch._pending_coros.qsize()
        except (AttributeError, TypeError):
            return None
        self.max_running = max(self.max_running, run)
        return [pend, run, st]

    # segments of the watcher / of a worker that contain no scheduler code: whoever holds the scheduler's lock while one
    # of them runs, holds it ACROSS A SUSPENSION (Lean C01_Sched: `lock_free_between_segments` for the unbounded queue)
    OUTSIDE_SCHEDULER = ("arrive", "take", "ttake", "finish", "start")

    def label(self, lab: list, snap: bool = True) -> None:
        self.pos += 1
        if lab[0] in self.OUTSIDE_SCHEDULER and self.scheduler is not None:
            cond = getattr(self.scheduler, "_condition", None)
            try:
                held = cond is not None and cond.locked()
            except Exception:  # noqa: BLE001
                held = False
            if held:
                if not self.lock_held:
                    self.anomalies.append(f"the scheduler's lock is held by a suspended task (seen at {lab}): in the model every "
                                          f"scheduler segment (spawn's put, the spawner's round, the cleaner's notification) is atomic")
                self.lock_held.append(f"{lab} at t={self.ticks()}")
        sn = self.snap() if snap else None
        if lab[0] == "miss" and self.streams is None:
            sn = None        # the watcher-local dict is not yet known to the harness
        self.labels.append([lab, sn, self.ticks()])

    # ---- hooks ----------------------------------------------------------------------------------
    def on_deliver(self, ev: dict, obj: int, avail: float) -> None:
        """The stream hands `ev` to the watcher. WHICH queue it goes to is observed (`on_put`), not re-computed:
        the key is whatever the watcher uses. `t` is when the API sent the event (= now, unless the watcher came
        back late for it), `t_pull` when the watcher took it."""
        self.flush_hand("the watcher asked for the next event")
        self.pos += 1
        d = {"seq": ev["seq"], "obj": obj, "t": int(round(avail * 1024)), "t_pull": self.ticks(), "p": self.pos, "k": None}
        self.delivered.append(d)
        self.seq_obj[ev["seq"]] = obj
        fb_key = (self.resource, self.q.get_uid(ev))
        self.in_hand = {"d": d, "idx": len(self.labels), "snap": self.snap() if self.streams is not None else None,
                        "t": self.ticks(), "iter": self.loop.iterations,  # type: ignore[union-attr]
                        "fb_key": fb_key, "fb_missing": self.streams is None or fb_key not in self.streams}

    def flush_hand(self, why: str) -> None:
        """A delivered event that was never put into any backlog (the watcher was cancelled, or is still blocked,
        between taking it and enqueueing it)."""
        h, self.in_hand = self.in_hand, None
        if h is None:
            return
        d = h["d"]
        if h["fb_missing"]:
            # no stream existed for it (by the documented key): it sat in the watcher's hand after the KeyError
            self.labels.insert(h["idx"], [["miss", self.key_index(h["fb_key"]), d["seq"]], h["snap"], h["t"]])
        else:
            self.anomalies.append(f"event {d['seq']} was taken from the stream but never put into its backlog ({why})")

    def on_put(self, queue: Any, item: Any) -> None:
        if item is self.q.EOS.token:
            if queue.vkey is None:
                self.anomalies.append("EOS put into a queue that no worker was created for")
            else:
                self.label(["eosput", self.key_index(queue.vkey)])
            return
        seq = item.get("seq") if isinstance(item, dict) else None
        if queue.vkey is None:
            self.fresh_put = (queue, seq)
        else:
            k = self.key_index(queue.vkey)
            self.settle_hand(seq, k, missed=False)
            self.label(["arrive", k, seq])

    def settle_hand(self, seq: Any, k: int, missed: bool) -> None:
        h = self.in_hand
        if h is None or h["d"]["seq"] != seq:
            self.anomalies.append(f"event {seq} was enqueued, but it is not the event the stream has just handed over")
            return
        self.in_hand = None
        h["d"]["k"] = k
        self.obj_k[h["d"]["obj"]] = k
        if missed:
            # the KeyError branch: the event was in the watcher's hand since it was delivered (label position
            # and snapshot of THAT moment: a suspension in between must be visible to the model)
            self.labels.insert(h["idx"], [["miss", k, seq], h["snap"], h["t"]])

    def on_get(self, queue: Any, item: Any) -> None:
        inst = self.by_task.get(asyncio.current_task())
        if inst is None:
            return
        inst.last_got = item
        if inst.timed_out and not inst.in_wait:
            inst.timeout_took = True      # `except TimeoutError: … raw_event = backlog.get_nowait()`

    def on_worker_call(self, **kw: Any) -> Any:
        key, streams = kw["key"], kw["streams"]
        self.streams = streams
        k = self.key_index(key)
        g = self.gens.get(k, 0)
        self.gens[k] = g + 1
        inst = Inst(k, g, key)
        inst.t_created = self.ticks()
        self.insts.append(inst)
        self.inst_by_k[k] = inst
        try:
            streams[key].backlog.vkey = key
        except (KeyError, AttributeError):
            self.anomalies.append("worker created for a key without an observed stream entry")
        coro = self._run_worker(inst, kw)
        inst.coro = coro
        self.by_coro[id(coro)] = inst
        return coro

    def log_exit(self, inst: Inst, exc: BaseException | None) -> None:
        """The worker's `finally:` has just run `del streams[key]` (hook: entry of `async with signaller`,
        which follows it in the same segment; fallback: the end of the coroutine)."""
        if inst.exit is not None:
            return
        if isinstance(exc, asyncio.CancelledError):
            inst.exit = "kill"
        elif exc is not None:
            inst.exit = "fail" if inst.proc_raised else "weird"
        else:
            inst.exit = ("eos" if inst.last_got is self.q.EOS.token else
                         "retire" if inst.timed_out and not inst.timeout_took else "weird")
        inst.waiting = False
        inst.t_exit = self.ticks()
        if inst.exit == "fail" and self.fail_t is None:
            self.fail_t = self.now()
        for f in inst.waiters:
            if not f.done():
                f.set_result(None)
        inst.waiters.clear()
        self.label([inst.exit, inst.k, inst.g])

    async def _run_worker(self, inst: Inst, kw: dict) -> None:
        inst.started = True
        inst.task = asyncio.current_task()
        self.by_task[inst.task] = inst
        # the task's own lifetime (first step .. done), independent of how the scheduler keeps its books: the
        # same instants as the scheduler's spawn / done-callback (used when those are not observable)
        if inst.t_spawn is None:
            self.pos += 1
            inst.t_spawn, inst.p_spawn = self.ticks(), self.pos

        def _done(_t: Any, inst: Inst = inst) -> None:
            if inst.t_left is None:
                self.pos += 1
                inst.t_left, inst.p_left = self.ticks(), self.pos
        inst.task.add_done_callback(_done)
        try:
            await self.real_worker(**kw)
        except BaseException as e:
            self.log_exit(inst, e)
            raise
        else:
            self.log_exit(inst, None)

    def on_pending_put(self, job: Any) -> None:
        inst = self.by_coro.get(id(job.coro))
        if inst is None:
            self.anomalies.append("scheduler got a coroutine that is not an observed worker")
            return
        seq = None
        if self.fresh_put is not None:
            queue, seq = self.fresh_put
            if getattr(queue, "vkey", None) != inst.key:
                seq = None
            self.fresh_put = None
        if seq is None:
            self.anomalies.append(f"worker ({inst.k},{inst.g}) enqueued before its first event was put "
                                  f"into the new stream (stream creation + put + spawn are not one segment)")
            self.label(["insert-without-event", inst.k, inst.g])
        else:
            self.settle_hand(seq, inst.k, missed=True)
            self.label(["insert", inst.k, inst.g, seq])

    def on_running_add(self, task: Any) -> None:
        inst = self.by_coro.get(id(task.get_coro()))
        if inst is None:
            self.anomalies.append("a task that is not an observed worker entered the running set")
            return
        inst.task = task
        self.by_task[task] = inst
        inst.t_spawn = self.ticks()
        self.label(["spawn", inst.k, inst.g])
        inst.p_spawn = self.pos

    def on_running_discard(self, task: Any) -> None:
        inst = self.by_task.get(task)
        if inst is None:
            return
        if not inst.started and inst.exit is None:
            inst.exit = "kill-unstarted"
            self.label(["kill", inst.k, inst.g], snap=False)
        inst.t_left = self.ticks()
        if inst.exit == "fail" and self.closing_t is None:
            self.closing_t = self.now()
        self.label(["left", inst.k, inst.g])
        inst.p_left = self.pos

    def on_close(self) -> None:
        self.label(["close"])
        self.close_p = self.pos

    def mark_closing(self) -> None:
        if self.closing_t is None:
            self.closing_t = self.now()

    # ---- the scripted pieces ----------------------------------------------------------------------
    def live_inst_of_obj(self, obj: int) -> Inst | None:
        k = self.obj_k.get(obj)
        inst = self.inst_by_k.get(k) if k is not None else None
        if inst is not None and inst.exit is None:
            return inst
        return None

    async def wait_item(self, item: dict) -> float:
        """Waits until the API "sends" the item; returns that (availability) time. A `delay` is counted from the
        moment the PREVIOUS item was sent, not from the moment the watcher came back for more: a watcher that
        returns late finds the item already waiting (as in a socket buffer) — on the unchanged code the watcher
        always returns within the same instant, so the two readings coincide there."""
        w = item.get("wait", ["delay", 0])
        if w[0] == "delay":
            avail = self.sched + max(0, w[1]) * TICK
            if avail > self.now():
                await asyncio.sleep(avail - self.now())
            # else: the item has been waiting for the watcher since `avail`
        elif w[0] == "deadline":
            inst = self.live_inst_of_obj(w[1])
            while inst is not None and not inst.waiting:   # pending / spawned / busy: wait until it idles
                fut = self.loop.create_future()  # type: ignore[union-attr]
                inst.waiters.append(fut)
                await fut
                inst = self.live_inst_of_obj(w[1])
            if inst is not None and inst.waiting:
                target = inst.wait_since + inst.wait_timeout + w[2] * TICK
                delay = target - self.now()
            else:
                delay = abs(w[2]) * TICK
            if delay > 0:
                await asyncio.sleep(delay)
            avail = self.now()
        else:
            raise ValueError(f"unknown wait spec {w!r}")
        avail = min(avail, self.now())
        self.sched = avail
        for _ in range(item.get("hops", 0)):
            await asyncio.sleep(0)
        return avail

    def make_event(self, item: dict, seq: int) -> dict:
        o = self.scn["objects"][item["obj"]]
        # resourceVersions are opaque to clients: the delivered order is the order, whatever they look like
        meta: dict[str, Any] = {"resourceVersion": str(item["rv"]) if item.get("rv") is not None else str(seq)}
        body: dict[str, Any] = {"metadata": meta}
        if "uid" in o:
            meta["uid"] = o["uid"]
            meta["name"] = o.get("name", o["uid"])
            if o.get("namespace") is not None:
                meta["namespace"] = o["namespace"]
        else:
            n = o["nouid"]
            for f in ("kind", "apiVersion"):
                if n.get(f) is not None:
                    body[f] = n[f]
            for f in ("name", "namespace", "creationTimestamp"):
                if f in n:
                    meta[f] = n[f]
        return {"type": item.get("type", "MODIFIED"), "seq": seq, "object": body}

    async def stream(self, **_: Any):
        seq = 0
        self.sched = self.now()       # the watch begins now
        for idx, item in enumerate(self.scn["stream"]):
            if self.last_yield is not None and self.now() > self.last_yield and self.closing_t is None:
                self.anomalies.append(f"the watcher came back to the stream {int(round((self.now() - self.last_yield) * 1024))} "
                                      f"ticks after it was given an event: it waited for something (in the model every "
                                      f"watcher segment is enabled at once, whatever the workers do)")
            avail = await self.wait_item(item)
            if "bookmark" in item:
                self.last_yield = self.now()
                if item["bookmark"] == "LISTED":
                    yield self.q.watching.Bookmark.LISTED
                else:
                    yield {"type": "BOOKMARK", "object": {"metadata": {"resourceVersion": "999"}}}
                continue
            seq += 1
            ev = self.make_event(item, seq)
            self.items_by_seq[seq] = item
            c = self.scn.get("cancel")
            if c and c.get("mode") == "after_event" and c.get("index") == idx:
                if c.get("soon") is not None:
                    # lands at the (soon+1)-th suspension of the watcher after it got this event
                    self.cancel_soon(int(c["soon"]))
                else:
                    self.loop.call_later(c.get("delta", 0) * TICK, self.do_cancel)  # type: ignore[union-attr]
            self.on_deliver(ev, item["obj"], avail)
            self.last_yield = self.now()
            yield ev
        self.flush_hand("the watcher asked for the next event")
        tail = self.scn.get("tail", 0)
        if tail > 0:
            await asyncio.sleep(tail * TICK)
        self.pos += 1
        self.stream_end = {"t": self.ticks(), "p": self.pos, "snap": self.snap(),
                           "finished": [c["seq"] for c in self.calls if c["end"] is not None]}
        self.mark_closing()
        self.label(["cancel"])

    def cancel_soon(self, n: int) -> None:
        if n <= 0:
            self.loop.call_soon(self.do_cancel)  # type: ignore[union-attr]
        else:
            self.loop.call_soon(self.cancel_soon, n - 1)  # type: ignore[union-attr]

    def do_cancel(self) -> None:
        wt = self.watcher_task
        if wt is None or wt.done():
            return
        if self.cancel_t is None:
            self.cancel_t = self.now()
            c2 = self.scn.get("cancel2")
            if c2 is not None:      # a second cancellation while the watcher drains / closes
                self.loop.call_later(c2 * TICK, self.do_cancel)  # type: ignore[union-attr]
        self.mark_closing()
        self.label(["cancel"])
        wt.cancel()

    async def processor(self, *, raw_event: dict, stream_pressure: Any = None, resource_indexed: Any = None,
                        operator_indexed: Any = None, consistency_time: Any = None) -> str | None:
        seq = raw_event.get("seq")
        item = self.items_by_seq.get(seq, {})
        inst = self.by_task.get(asyncio.current_task())
        rec = {"seq": seq, "obj": self.seq_obj.get(seq), "k": inst.k if inst else None,
               "g": inst.g if inst else None, "t0": self.ticks(), "p0": None, "t1": None, "p1": None, "end": None}
        self.calls.append(rec)
        if inst is None:
            self.anomalies.append("processor called outside an observed worker")
        else:
            inst.busy = True
            inst.obj = rec["obj"]
            if inst.timeout_took:
                inst.timeout_took = inst.timed_out = False
                self.label(["ttake", inst.k, inst.g, seq])
            else:
                self.label(["take", inst.k, inst.g, seq])
        rec["p0"] = self.pos
        self.nbusy += 1
        self.max_busy = max(self.max_busy, self.nbusy)
        try:
            if resource_indexed is not None and operator_indexed is not None:
                await operator_indexed.drop_toggle(resource_indexed)
            if item.get("dur", 0) > 0:
                await asyncio.sleep(item["dur"] * TICK)
            for _ in range(item.get("dhops", 0)):
                await asyncio.sleep(0)
            if item.get("raise"):
                raise ProcessorBoom(f"scripted failure at event {seq}")
        except asyncio.CancelledError:
            rec["end"] = "cancelled"
            raise
        except ProcessorBoom:
            rec["end"] = "raised"
            if inst is not None:
                inst.proc_raised = True
            raise
        else:
            rec["end"] = "ok"
            if inst is not None:
                self.label(["finish", inst.k, inst.g])
            return item.get("ver")
        finally:
            self.nbusy -= 1
            if inst is not None:
                inst.busy = False
            self.pos += 1
            rec["t1"], rec["p1"] = self.ticks(), self.pos

    async def wait_for(self, fut: Any, timeout: Any) -> Any:
        inst = self.by_task.get(asyncio.current_task())
        if inst is None:
            return await asyncio.wait_for(fut, timeout)
        if inst.first_wait:
            inst.first_wait = False
            self.label(["start", inst.k, inst.g])
        if inst.timed_out:
            inst.timed_out = False
            self.anomalies.append(f"worker ({inst.k},{inst.g}) re-waits after a timeout on a filled queue "
                                  f"(the model takes the found event in the same segment)")
            self.label(["retry", inst.k, inst.g])
        inst.wait_since, inst.wait_timeout = self.now(), timeout
        stream = self.streams.get(inst.key) if self.streams is not None else None
        inst.waiting = stream is not None and stream.backlog.empty()    # a real (blocking) idle wait
        if inst.waiting:
            for f in inst.waiters:
                if not f.done():
                    f.set_result(None)
            inst.waiters.clear()
        inst.in_wait = True
        try:
            res = await asyncio.wait_for(fut, timeout)
        except asyncio.TimeoutError:
            inst.timed_out = True
            raise
        finally:
            inst.waiting = False
            inst.in_wait = False
        if res is self.q.EOS.token:
            inst.got_eos = True
        return res


def simulate(scn: dict, policy: str = "fifo", max_steps: int = 5000) -> dict:
    """Run one scripted scenario through the real watcher. Returns the observation log.
    `scn["peer"]` (optional: objects/stream/cancel/cancel2/tail/indexed/start of its own) is a SECOND watcher of
    another resource in the same loop, with the same settings — as in a real operator; its log is `log["peer"]`."""
    from kopf._cogs.aiokits import aiotasks, aiotoggles
    from kopf._cogs.configs import configuration
    from kopf._cogs.structs import references
    from kopf._core.reactor import queueing

    obs = Observer(scn, queueing, "main")
    obs.resource = references.Resource("kopf.dev", "v1", "kopfexamples", namespaced=True)
    observers = [obs]
    if scn.get("peer"):
        peer = Observer(dict(scn["peer"], settings=scn["settings"]), queueing, "peer")
        peer.resource = references.Resource("kopf.dev", "v1", "kopfpeers", namespaced=True)
        observers.append(peer)
    real_worker = queueing.worker
    real_depletion = queueing._wait_for_depletion
    for o in observers:
        o.real_worker = real_worker

    def owner_of_task(task: Any) -> Observer | None:
        for o in observers:
            if task in o.by_task:
                return o
        return None

    def owner_of_coro(coro: Any) -> Observer | None:
        for o in observers:
            if id(coro) in o.by_coro:
                return o
        return None

    class ObservedQueue(asyncio.Queue):
        vkey: Any = None

        def __init__(self, *a: Any, **kw: Any) -> None:
            super().__init__(*a, **kw)
            self.vobs = CUR.get()

        def put_nowait(self, item: Any) -> None:
            super().put_nowait(item)
            if self.vobs is not None:
                self.vobs.on_put(self, item)

        def get_nowait(self) -> Any:
            item = super().get_nowait()
            o = owner_of_task(asyncio.current_task())
            if o is not None:
                o.on_get(self, item)
            return item

    class ObservedCondition(asyncio.Condition):
        """the watcher's `signaller`: a worker enters it right after `del streams[key]`"""

        async def __aenter__(self) -> None:
            o = owner_of_task(asyncio.current_task())
            if o is not None:
                o.log_exit(o.by_task[asyncio.current_task()], sys.exc_info()[1])
            return await super().__aenter__()

    class PendingMixin:
        """Observation of `Scheduler._pending_coros`, mixed INTO the class of the queue the scheduler itself has
        built (`observe_queue`): the queue object, its bound, its order and its content stay the code's own."""

        def put_nowait(self, item: Any) -> None:
            super().put_nowait(item)  # type: ignore[misc]
            o = owner_of_coro(item.coro) or CUR.get()
            if o is not None:
                o.on_pending_put(item)

    observed_classes: dict[type, type] = {}

    def observe_queue(q: Any) -> bool:
        """Makes the scheduler's OWN queue object observable (its class becomes a subclass of what it was, with
        `PendingMixin` in front). Nothing is re-built by hand: maxsize, the kind of queue (FIFO/LIFO/priority),
        waiters and items are what `Scheduler.__init__` made them."""
        cls = type(q)
        if not isinstance(q, asyncio.Queue):
            return False
        if cls not in observed_classes:
            observed_classes[cls] = type("Observed" + cls.__name__, (PendingMixin, cls), {})
        try:
            q.__class__ = observed_classes[cls]
        except TypeError:
            return False
        return True

    class ObservedSet(set):
        """`Scheduler._running_tasks`, iterated in insertion order (deterministic replays)."""

        def __init__(self, content: Any = ()) -> None:
            super().__init__(content)
            self._order: dict[Any, None] = dict.fromkeys(content)

        def add(self, task: Any) -> None:
            super().add(task)
            self._order[task] = None
            o = owner_of_coro(task.get_coro()) or CUR.get()
            if o is not None:
                o.on_running_add(task)

        def discard(self, task: Any) -> None:
            present = task in self
            super().discard(task)
            self._order.pop(task, None)
            if present:
                o = owner_of_task(task)
                if o is not None:
                    o.on_running_discard(task)

        def __iter__(self):
            return iter(list(self._order))

    class ObservedScheduler(aiotasks.Scheduler):
        def __init__(self, **kw: Any) -> None:
            super().__init__(**kw)
            # The observed containers go where the code under test keeps its own: per instance normally. State
            # that the code keeps on the CLASS (shared by all schedulers of the process) stays shared here.
            o = CUR.get()
            # `_pending_coros`: the scheduler's own queue object is observed in place (never replaced: a hand-built
            # queue would silently drop whatever `Scheduler.__init__` configured — a bound, another discipline).
            q = getattr(self, "_pending_coros", None)
            if "_pending_coros" in self.__dict__:
                if not observe_queue(q):
                    if o is not None:
                        o.anomalies.append("Scheduler._pending_coros is not an asyncio.Queue: the scheduler is not observable")
            elif "_pending_coros" not in ObservedScheduler.__dict__:
                # state the code keeps on the CLASS (shared by all schedulers of the process) stays shared here: one
                # queue of the same class and bound for all schedulers of this simulation
                if isinstance(q, asyncio.Queue):
                    q = type(q)(maxsize=q.maxsize)
                    observe_queue(q)
                    setattr(ObservedScheduler, "_pending_coros", q)
                elif o is not None:
                    o.anomalies.append("Scheduler._pending_coros is not an asyncio.Queue: the scheduler is not observable")
            # `_running_tasks`: a built-in set cannot be observed in place; the observed set takes over its content
            # (a plain set has no configuration besides its content).
            rt = getattr(self, "_running_tasks", None)
            if type(rt) is set:
                if "_running_tasks" in self.__dict__:
                    self._running_tasks = ObservedSet(rt)
                elif "_running_tasks" not in ObservedScheduler.__dict__:
                    setattr(ObservedScheduler, "_running_tasks", ObservedSet(rt))
            elif not isinstance(rt, ObservedSet):
                # not the container this harness knows how to observe (renamed / another type): leave the
                # code alone — the trace will not match the model (a tie failure), the oracle still judges
                if o is not None:
                    o.anomalies.append("Scheduler._running_tasks is not a plain set: the scheduler is not observable")
            if o is not None:
                try:
                    o.pending_maxsize = int(getattr(q, "maxsize", 0) or 0)
                except (TypeError, ValueError):
                    o.pending_maxsize = -1
            if o is not None:
                o.scheduler = self

        async def close(self) -> None:
            o = CUR.get()
            if o is not None:
                o.on_close()
            await super().close()

    async def depletion(**kw: Any) -> None:
        o = CUR.get()
        if o is not None:
            o.mark_closing()
        await real_depletion(**kw)

    def worker_hook(**kw: Any) -> Any:
        o = CUR.get()
        if o is None:
            return real_worker(**kw)
        return o.on_worker_call(**kw)

    def watch_hook(**kw: Any) -> Any:
        return CUR.get().stream(**kw)

    async def wait_for_hook(fut: Any, timeout: Any) -> Any:
        o = owner_of_task(asyncio.current_task())
        if o is None:
            return await asyncio.wait_for(fut, timeout)
        return await o.wait_for(fut, timeout)

    st = scn["settings"]
    settings = configuration.OperatorSettings()
    settings.queueing.idle_timeout = st["idle_timeout"] * TICK
    settings.queueing.worker_limit = st.get("worker_limit")
    et = st.get("exit_timeout", 2048)
    settings.queueing.exit_timeout = None if et is None else et * TICK
    if st.get("batch_window") is not None:
        with warnings.catch_warnings():
            warnings.simplefilter("ignore")
            settings.queueing.batch_window = st["batch_window"] * TICK
    ct = st.get("consistency_timeout")
    settings.persistence.consistency_timeout = ct * TICK if ct is not None else 0

    loop = TieLoop(policy=policy, seed=scn.get("tie_seed", 0), max_steps_per_instant=max_steps)
    for o in observers:
        o.loop = loop
    result: dict[str, Any] = {"outcome": None, "error": None}
    verdict: tuple[Any, Any] = (None, None)

    saved = {n: getattr(queueing, n) for n in ("watching", "asyncio", "aiotasks", "worker", "_wait_for_depletion")}
    log_levels = [(lg, lg.level) for lg in (logging.getLogger("kopf"), logging.getLogger("asyncio"))]
    queueing.watching = _Proxy(saved["watching"], infinite_watch=watch_hook)
    queueing.asyncio = _Proxy(asyncio, wait_for=wait_for_hook, Queue=ObservedQueue, Condition=ObservedCondition)
    queueing.aiotasks = _Proxy(aiotasks, Scheduler=ObservedScheduler)
    queueing.worker = worker_hook
    queueing._wait_for_depletion = depletion
    for lg, _ in log_levels:
        lg.setLevel(logging.CRITICAL + 1)

    async def run_watcher(o: Observer) -> None:
        sc = o.scn
        if sc.get("start"):
            await asyncio.sleep(sc["start"] * TICK)
        kw: dict[str, Any] = {}
        if sc.get("indexed"):
            ts = aiotoggles.ToggleSet(all)
            kw["resource_indexed"] = await ts.make_toggle(name="this-resource")
            await ts.make_toggle(name="another-resource")   # keeps the operator "not yet indexed"
            kw["operator_indexed"] = ts
        ctx = contextvars.copy_context()
        ctx.run(CUR.set, o)
        wt = loop.create_task(queueing.watcher(namespace=None, settings=settings, resource=o.resource,
                                               processor=o.processor, **kw), context=ctx)
        o.watcher_task = wt
        c = sc.get("cancel")
        if c and c.get("mode") == "abs":
            loop.call_at(max(loop.time(), c["at"] * TICK), o.do_cancel)
        try:
            await wt
            o.outcome = "ended"
        except asyncio.CancelledError:
            o.outcome = "cancelled"
        except RuntimeError as e:
            o.outcome = "escalated" if "unrecoverable" in str(e) else f"runtime-error: {e}"
        except BaseException as e:  # noqa: BLE001
            o.outcome = f"error: {type(e).__name__}: {e}"
        o.flush_hand("the watcher is over")

    async def main() -> None:
        runners = [asyncio.ensure_future(run_watcher(o)) for o in observers]
        for r in runners:
            await r
        result["outcome"] = "done"

    def log_of(o: Observer) -> dict:
        return {
            "watcher": o.name,
            "outcome": o.outcome, "error": result["error"] if o.outcome in ("stall", "deadlock") else None,
            "labels": o.labels, "anomalies": o.anomalies,
            "delivered": o.delivered, "calls": o.calls,
            "insts": [{"k": i.k, "g": i.g, "key": repr(i.key[-1]), "obj": i.obj, "t_created": i.t_created,
                       "t_spawn": i.t_spawn, "t_exit": i.t_exit, "t_left": i.t_left, "exit": i.exit,
                       "p_spawn": i.p_spawn, "p_left": i.p_left} for i in o.insts],
            "stream_end": o.stream_end, "close_p": o.close_p,
            "closing_t": None if o.closing_t is None else int(round(o.closing_t * 1024)),
            "cancel_t": None if o.cancel_t is None else int(round(o.cancel_t * 1024)),
            "fail_t": None if o.fail_t is None else int(round(o.fail_t * 1024)),
            "end_t": int(round(loop.vtime * 1024)),
            "max_running": o.max_running, "max_busy": o.max_busy,
            "pending_maxsize": o.pending_maxsize, "lock_held": o.lock_held[:5],
            "tie_groups": loop.tie_groups, "iterations": loop.iterations,
        }

    frozen: list[dict] = []
    try:
        try:
            run_sim(main, wall_limit=120.0, loop=loop)
        except SimStall as e:
            result["outcome"], result["error"] = "stall", str(e)
        except SimDeadlock as e:
            result["outcome"], result["error"] = "deadlock", str(e)
        for o in observers:
            if result["outcome"] in ("stall", "deadlock"):
                if o.outcome is None:
                    o.outcome = result["outcome"]
            else:
                o.label(["end"])
        verdict = (result["outcome"], result["error"])
        # the observation ends HERE: what the clean-up below provokes (cancelling whatever still hangs) is not part of
        # the run — it must neither overwrite a watcher's outcome nor append labels / calls to its log
        import copy
        frozen.extend(copy.deepcopy(log_of(o)) for o in observers)
    finally:
        for n, v in saved.items():
            setattr(queueing, n, v)
        try:
            asyncio.set_event_loop(loop)
            for _ in range(3):      # also after a stall: a cancelled spinning worker does leave its loop
                pending = [t for t in asyncio.all_tasks(loop) if not t.done()]
                if not pending:
                    break
                for t in pending:
                    t.cancel()
                loop._steps_at_instant = 0
                try:
                    loop.run_until_complete(asyncio.gather(*pending, return_exceptions=True))
                except (SimDeadlock, SimStall):
                    pass
        except BaseException:  # noqa: BLE001
            pass
        for t in asyncio.all_tasks(loop):
            t._log_destroy_pending = False
        try:
            loop.close()
        except BaseException:  # noqa: BLE001
            pass
        asyncio.set_event_loop(None)
        for lg, lv in log_levels:
            lg.setLevel(lv)
    result["outcome"], result["error"] = verdict     # the clean-up above must not overwrite the verdict

    if len(frozen) != len(observers):       # an exception other than stall/deadlock escaped: nothing was frozen
        frozen[:] = [log_of(o) for o in observers]
    log = frozen[0]
    log["peer"] = frozen[1] if len(observers) > 1 else None
    return log
