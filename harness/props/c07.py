"""C07 — change handlers never run on a view older than the operator's own last write.

Theorems: lean/Kopf/Props/C07.lean over the model lean/Kopf/Model/C07_Barrier.lean (the worker's
`expected_version/consistency_time` locals, the consistency block of `process_resource_causes`,
`aiotime.sleep`, the feedback of the patched version). Tie (S): every worker iteration of closed-loop
simulations of the real operator (harness/props/sim_c07.py: per-event echo delays, request/response
latency, foreign edits before/after the echo) is replayed through the model: same `consistency_time`
handed to the processor, same barrier sleep (entered? ended when? timed out?), same decision
(change handlers entered / early return), and the model's worker state is what the next real
iteration starts from. The oracle below is independent of the model.
"""
from __future__ import annotations

import re
from typing import Any

from .. import leanio
from ..core import Ctx, load_corpus
from . import sim_c07
from . import x01_reactor

ID = "C07"
LEVEL = "proof"
STRENGTH = "partial"   # the barrier clause is proved under a named guard (C07-F1), "not delayed" rests on tie + oracle: see LEVEL_TEXT
ENGINES = ["lean-model", "kopfsim"]
TIE = ("S: step refinement — every worker iteration (and idle retirement) of closed-loop simulations replayed through the "
       "Lean worker/processor step; the model's (expected, deadline) must be the consistency_time the next real iteration gets")
LEVEL_TEXT = ("PARTIAL by DESIGN §8's definition: (1) the barrier clause is proved only under the guard 'the PATCH was issued by the "
              "object's worker' (barrier_partial, barrier_every_patch_partial, barrier_view_partial, barrier_every_patch_view_partial — the "
              "last one uses the stream order so that a later no-op patch cannot discharge an earlier real one); the FULL clause (every "
              "framework patch) is false of the code: barrier_background_witness + open finding C07-F1 (daemon/timer result patches are "
              "never reported to the worker), replayed on the real code on every run (corpus/C07/F1.json). (2) 'raw-event handlers, "
              "indexing, daemons and timers are not delayed' rests on the S-tie (when index/on.event handlers really started, per "
              "iteration) and the oracle (raw handlers/indexers at the dequeue instant also in held-back iterations, timers on schedule "
              "during barrier sleeps, daemon spawned in the first iteration); in the model it is a structural fact (Lemmas: "
              "stages_before_barrier_independent), not counted; not_delayed_kopf adds that the sleep begins only after the low-level "
              "stages and that a wake-up ends it at once; the tie compares when process_spawning_cause was really ENTERED in every iteration "
              "(held back or not) and the oracle requires a daemon/timer behind a filter to be started in the low-level phase of the first "
              "iteration that shows a matching view, before its barrier sleep. Unguarded theorems for ALL step lists of one object's stream (any versions, "
              "listed or streamed events, arrival times, pressure, wake-ups incl. the exiting watcher's, pending patches, handler "
              "durations, sleep lateness, idle retirements, background patches, any consistency_timeout): interrupted_never_achieved, "
              "released_after_deadline(+_run) (fix 5dff3c1: at or after the deadline, with no pending patch, the changing stage is entered "
              "whatever was accumulated; deadline_with_patch_regression_witness on the pre-fix verdict), "
              "released_by_timeout (a timed-out sleep, not paused: the changing stage is entered when it ends); fix 3cc60e3: paused_holds(+_run) "
              "(while a version is awaited and the operator is paused when the consistency block is left, the iteration is held back: at/after "
              "the deadline, after a timed-out sleep, for a GONE cause, for consistency_time 0.0; low-level stages as always), "
              "pause_ignored_when_nothing_expected, awaited_version_releases (the re-listed awaited version resets the worker, paused or not), "
              "paused_timeout_regression_witness on the pre-fix verdict; fix 30557a0 + the rework of 608a57d (was finding C07-F2 = C03-N6, and C03-N2 seen "
              "through the barrier): held_comes_back(+_run) — EVERY held-back iteration of an operator that is not paused reports a waiting delay to "
              "application.apply: max(0, deadline - now) while a version is awaited (left + wait = max(left, deadline)), 0 when only a carried patch "
              "holds back; wait_only_when_held (no delay from iterations that are let through or paused); come_back_is_released(+_run) — the "
              "iteration that reaches the barrier no earlier than asked is let through, whatever version it carries; pending_holds_iff, "
              "pending_comes_back_at_once; held_for_good_regression_witness and carried_fulfilled_regression_witness on the pre-fix return values. "
              "'Followed' in the model = the delay is returned; what application.apply does with it (no sleep if the patch changed the object, else "
              "sleep + touch) is C03/C08's; on the real code the oracle requires every held-back iteration to be followed when the waiting time is "
              "over (next iteration / a write that changed the object / a 422) and no history to end held back (corpus F2.json, F2b.json, 27 are "
              "regressions now); patch_initially_empty is derived from 'something was carried' and compared with the real one; "
              "disabled (T=0), deadline_monotone, retire_after_deadline, never_arrives, noop_patch_does_not_arm, "
              "noop_cycle_leaves_consistent (fix 460c956) with noop_stall_regression_witness on the pre-fix feedback; "
              "listed_view_is_not_consistency_witness (a worker that trusts (re-)listed events breaks the barrier: seeded change C14c). "
              "WHICH dequeued version counts as the own patch come back (Model/C07_Reached: the worker's one comparison as a parameter): "
              "version_test_is_equality (kopf's `==` is the worker of all the theorems), barrier_view_sound_test_partial (the view barrier for EVERY "
              "test that accepts no version older than the expected one: equality, 'or a numerically later one'; same guard as barrier_view_partial), "
              "string_order_unsound_witness + string_order_breaks_barrier_witness (Python's `>` on the two strings — seeded change C07g — takes 99 for "
              "100 come back: handlers on the older view one tick after the patch), string_order_is_numeric_same_width (why histories of ONE decimal "
              "width cannot tell: there the string order is the numeric order). "
              "The model is hand-written; it is tied to the code by replaying every iteration of seeded whole-operator simulations "
              "(incl. re-listings/reconnects inside running handlers and between a patch and its echo); the wf hypotheses of the "
              "theorems are checked on the real traces.")
THEOREMS = [("Kopf.Props.C07", "Kopf.C07." + n) for n in [
    "barrier_partial", "barrier_background_witness", "barrier_every_patch_partial", "barrier_view_partial",
    "barrier_every_patch_view_partial", "not_delayed_kopf", "interrupted_never_achieved", "released_after_deadline", "released_after_deadline_run",
    "deadline_with_patch_regression_witness", "released_by_timeout", "paused_holds", "paused_holds_run",
    "pause_ignored_when_nothing_expected", "awaited_version_releases", "paused_timeout_regression_witness",
    "held_comes_back", "held_comes_back_run", "wait_only_when_held", "come_back_is_released", "come_back_is_released_run",
    "held_for_good_regression_witness", "pending_holds_iff", "pending_comes_back_at_once", "carried_fulfilled_regression_witness",
    "disabled",
    "deadline_monotone", "retire_after_deadline", "never_arrives", "listed_view_is_not_consistency_witness",
    "noop_patch_does_not_arm", "noop_cycle_leaves_consistent", "noop_stall_regression_witness",
    "version_test_is_equality", "barrier_view_sound_test_partial", "string_order_unsound_witness",
    "string_order_breaks_barrier_witness", "string_order_is_numeric_same_width"]]
# the composed reactor (C03 loop + C07 barrier + C08 version test; the versions are GENERATED by the model, not fed):
# no_stale_handling is this property's barrier clause over every history of the composed system (Kopf/Props/X01*.lean)
THEOREMS += x01_reactor.THEOREMS
DRIVER_MODULES = ["C07", "X01"]
RULE = ("seeded whole-operator scenarios: T in {0, 0.25, 1, 5} s; request latency 1-64 ticks, response latency 0-48 ticks; echo delay of "
        "own writes in {0, < T, = T after the patch, = exactly the worker's deadline, > T}; foreign-event delay and jitter; 0-5 foreign "
        "edits before and 0-5 after each chosen own write (reactive offsets), slips right before a PATCH (422 -> remaining patch); create/"
        "update/delete handlers with temporary errors (several cycles), sleeping handlers; transformation functions in the patch (20 %; in 40 % of those "
        "idempotent ones that the slipped-in foreign write fulfils: carried, nothing to send, comes back at once); optional event handler (plain/slow/result-"
        "returning incl. idempotent results = no-op writes), index, daemon, timer (plain/result-returning = background patches); idle_timeout in {0.25, 1, 5}; optional deletion; in 30 % of the histories 1-3 breaks of the watch stream (410 with "
        "compaction -> re-listing, eof, connection reset; queued behind the pending deliveries or cutting the stream at once) timed inside a "
        "sleeping change handler or between an own write and its echo; in 30 % of the histories with T > 0 one or two pause plans (a toggle in the "
        "operator's own `operator_paused` set, as the peering does): paused right after the n-th own write / inside the n-th sleeping change handler "
        "(with foreign edits queued behind it) / at the begin of, inside, one tick before, exactly at or after the deadline of the n-th barrier sleep; "
        "un-paused before or after the deadline; 30 % of the plans pause again 1-40 ticks after the un-pausing (flapping); handler shapes: create/update/delete plus (20 % each) resume and field handlers; 12 % of the histories start from an object "
        "already handled by a previous incarnation (last-handled annotation: RESUME causes, resuming handlers with retries); 30 %: a daemon or "
        "timer behind a filter (spec.x == v, v mostly the value of a reactive foreign edit: spawned by a held-back iteration); deletions with "
        "foreign edits of the terminating object around the framework's writes, and early deletions (inside the window of edits); the server's NUMBERING of its versions "
        "(8/9 of the histories; 1/9 keep the fake server's 101, 102, …): the counter starts shortly below a power of ten (widths 1-19) or another round number d·10^k / at a random "
        "number of 1-18 digits / around 2^31, 2^53, 10^18, 2^62, leaves gaps (cyclic strides 1-90: other objects' versions), or leaps to the end of its "
        "decimal width right before the n-th PATCH of the operator — after a slipped-in foreign write — so that the own patch's version is one digit "
        "longer than the stale views around it (measured: rv_shape, rv_widths, rv_magnitude). One case = one "
        "worker iteration; distinct & non-trivial = distinct abstracted (deadline set?, reset by arrival?, slept/woken/timed-out, "
        "held/entered, pending patch, pressure, patched?) tuples where a deadline was set or a patch was made")
TRUSTED = ["harness/sim (virtual-time loop, fake API server, scripted handlers) + harness/props/sim_c07.py (per-event echo delay, "
           "FIFO delivery within a watch, response latency, attribute-level observation of worker/processor/aiotime)",
           "asyncio.wait_for / Event contract behind aiotime.sleep: None only after the full delay",
           "per-object order of the watch stream (Kubernetes' guarantee; C01/C19) for barrier_view"]
ASSUMPTIONS = ["the barrier theorems are about PATCHes issued by the object's worker; for daemon/timer patches the clause is false (C07-F1)",
               "daemons/timers not being delayed by the barrier is checked by the oracle on the simulations, not proved (they are separate tasks outside the model)",
               "fault sequences are outside C07's quantifier: a PATCH whose response is lost (exception out of patch_obj, swallowed by the "
               "throttler) returns None to the worker, nothing is armed and the next (older) view is handled at once",
               "pausing is a toggle of the harness in the operator's own ToggleSet (standalone operator): the peering's own decisions are C13's subject; "
               "`operator_paused.is_on()` is sampled where the code reads it (at the finalizer decision: no suspension point from there to the read when "
               "no sleep is taken; and when the barrier sleep returns)",
               "a paused operator stops its daemons and timers: their schedule from the first pause on is not checked here (C09)",
               "the release of the barrier ('until … the timeout has elapsed'): in the model a held-back iteration RETURNS the remaining waiting time "
               "(held_comes_back); that application.apply sleeps it and touches the object is C03/C08's ground; on the real code the oracle checks, for "
               "every held-back iteration, that it is followed when the waiting time is over (+ 5 request round-trips), and at the end of every "
               "history that the last iteration of a living object is not held back (the former finding C07-F2 = C03-N6, fixed by 30557a0)",
               "whether carried transformation functions still yield an operation on the view at hand is classified by the harness from the scripted "
               "functions' semantics (they set one label; the last one wins) for the histograms only: the code decides it when patching (C08)",
               "watch-stream breaks, reconnects and re-listings (410) are generated; operator restarts are not (a fresh operator re-lists the current state; C14/C19's subject)",
               "resourceVersions are decimal numbers that grow with every write of the server (what etcd-backed servers hand out; the oracle orders "
               "views by the server's own storing order, not by the digits); versions that are not numbers at all are not generated",
               "times are multiples of 1/64 s; a timed-out sleep ends exactly at its deadline under virtual time (the theorems allow any lateness)",
               "GONE causes have no handlers (C05); `handlers` in the model excludes them",
               "the model's inputs of one iteration (patch emptiness, pressure, pause) are sampled when the last low-level stage "
               "(process_watching_cause / process_spawning_cause) returns, else at the finalizer decision; code that no longer passes through "
               "processing.process_resource_causes is reported as a broken tie (nothing compared), not as a pass"]

CHANGE_KINDS = ("create", "update", "delete", "resume", "field")
F1_SIG = {"site": "daemons._runner/application.apply vs queueing.worker",
          "shape": "change handler on a view older than a daemon/timer PATCH of the same object before the timeout: "
                   "background patches are not reported to the worker"}
VER_RE = re.compile(r"(\d+)(~which~never~arrives)?")


ASSUMPTIONS = ASSUMPTIONS + x01_reactor.ASSUMPTIONS
TRUSTED = TRUSTED + x01_reactor.TRUSTED

def ticks(x: float | None) -> int | None:
    if x is None:
        return None
    v = x * 64
    r = round(v)
    if abs(v - r) > 1e-6:
        raise ValueError(f"time {x!r} is not a multiple of 1/64 s")
    return int(r)


def parse_ver(s: Any) -> list | None:
    if s is None:
        return None
    m = VER_RE.fullmatch(str(s))
    if not m:
        raise ValueError(f"unparsable resourceVersion {s!r}")
    return [int(m.group(1)), bool(m.group(2))]


# ---------------------------------------------------------------------------------------------
# generator
def gen_scenario(rng: Any, i: int) -> dict:
    T = rng.choice([0, 0.25, 1.0, 1.0, 5.0, 5.0])
    Tt = int(T * 64)
    L = rng.choice([1, 1, 2, 3, 4, 8, 16, 32, 64])
    R = rng.choice([0, 0, 0, 1, 2, 8, 24, 48])
    cls = rng.choice(["zero", "below", "below", "equal_patch", "equal_deadline", "above", "above"])
    ref = Tt if Tt else 16
    if cls == "zero":
        own = 0
    elif cls == "below":
        own = rng.randrange(1, max(2, ref + R))
    elif cls == "equal_patch":
        own = ref
    elif cls == "equal_deadline":
        own = ref + R
    else:
        own = ref + R + rng.choice([1, 2, 8, 32, 96])
    fcls = rng.choice(["zero", "zero", "small", "same", "above_own"])
    foreign = {"zero": 0, "small": rng.randrange(1, 9), "same": own, "above_own": own + rng.randrange(1, 17)}[fcls]
    jitter = [rng.choice([0, 0, 1, 2, 5]) for _ in range(rng.choice([0, 0, 3, 5]))]

    def script(maxlen: int = 3) -> list:
        out: list = []
        for _ in range(rng.choice([0, 0, 1, 1, 2, maxlen])):
            a = rng.choice(["ok", "temp", "temp", "temp", "sleep", "arb"])
            if a == "temp":
                out.append(["temp", rng.choice([0.25, 0.5, 1.0, 2.0])])
            elif a == "sleep":
                out.append(["sleep", rng.choice([0.125, 0.5, 1.5]), rng.choice(["ok", ["temp", 0.5]])])
            else:
                out.append(a)
        return out

    handlers: list[dict] = [{"kind": "create", "id": "c0", "script": script(), "default": "ok", "opts": {"backoff": rng.choice([0.25, 1.0])}}]
    if rng.random() < 0.85:
        handlers.append({"kind": "update", "id": "u0", "script": script(), "default": "ok", "opts": {"backoff": rng.choice([0.25, 1.0])}})
    if rng.random() < 0.3:
        handlers.append({"kind": "create", "id": "c1", "script": script(2), "default": "ok"})
    with_delete = rng.random() < 0.4
    if with_delete:
        handlers.append({"kind": "delete", "id": "x0", "script": script(2), "default": "ok", "opts": {"backoff": 0.25}})
    ev = rng.choice([None, "plain", "plain", "plain", "slow", "result", "const"])
    if ev == "plain":
        handlers.append({"kind": "event", "id": "e0"})
    elif ev == "slow":
        handlers.append({"kind": "event", "id": "e0", "script": [["sleep", rng.choice([0.125, 0.5]), "ok"]] * rng.choice([1, 3, 30])})
    elif ev == "const":
        # the same result in every cycle: after the first one every PATCH is a non-empty server-side no-op
        handlers.append({"kind": "event", "id": "e0", "script": [], "default": ["ok", {"state": "seen"}]})
    elif ev == "result":
        handlers.append({"kind": "event", "id": "e0", "script": [["ok", {"seen": k // rng.choice([1, 2, 50])}] for k in range(rng.choice([2, 6, 40]))]})
    # the other change-detecting shapes: they are held back / let through together with the rest
    if rng.random() < 0.2:
        handlers.append({"kind": "resume", "id": "r0", "script": script(1), "default": "ok"})
    if rng.random() < 0.2:
        handlers.append({"kind": "field", "id": "f0", "script": script(1), "default": "ok", "opts": {"field": "spec.x"}})
    if rng.random() < 0.6:
        handlers.append({"kind": "index", "id": "i0"})
    if rng.random() < 0.4:
        handlers.append({"kind": "daemon", "id": "d0", "daemon": {"mode": "obey", "poll": 0.5}})
    tm = rng.choice([None, None, "plain", "plain", "result"])
    if tm == "plain":
        handlers.append({"kind": "timer", "id": "t0", "opts": {"interval": rng.choice([0.5, 1.0])}})
    elif tm == "result":
        handlers.append({"kind": "timer", "id": "t0", "opts": {"interval": rng.choice([0.75, 1.0])},
                         "script": [["ok", {"tick": k}] for k in range(rng.choice([3, 8]))]})

    # daemons/timers behind a filter: they are spawned by the first event that shows a matching view — often a foreign
    # edit made right after an own write (x = 1001, 1002, …: the reactive edits below), i.e. in a held-back iteration
    if rng.random() < 0.3:
        v = rng.choice([1001, 1001, 1002, 1003, 1, 2])
        if rng.random() < 0.5:
            handlers.append({"kind": "daemon", "id": "d1", "opts": {"field": "spec.x", "value": v}, "daemon": {"mode": "obey", "poll": 0.5}})
        else:
            handlers.append({"kind": "timer", "id": "t1", "opts": {"interval": 1.0, "field": "spec.x", "value": v}})
    preexisting = rng.random() < 0.2
    t_create = 1.0
    timeline: list[list] = []
    objects = []
    if preexisting:
        body: dict = {"spec": {"x": 0}}
        if rng.random() < 0.6:
            # handled by a previous incarnation of the operator: the first (listed) view and every later view without an
            # essential change is a RESUME cause, for the resuming handlers (with retries: several own writes in a row)
            body["metadata"] = {"annotations": {"kopf.zalando.org/last-handled-configuration": '{"spec":{"x":0}}\n'}}
            if not any(h["kind"] == "resume" for h in handlers):
                handlers.append({"kind": "resume", "id": "r0", "script": [["temp", rng.choice([0.25, 0.5, 1.0])] for _ in range(rng.choice([1, 2, 3]))],
                                 "default": "ok", "opts": {"backoff": rng.choice([0.25, 1.0])}})
        objects.append({"name": "a", "body": body})
    else:
        timeline.append([t_create, "create", "a", {"spec": {"x": 0}}])
    n_before = rng.choice([0, 1, 2, 3, 4, 5])
    window = (L + R) * 4 + own + foreign + 64
    x = 0
    t_last = t_create
    for _ in range(n_before):
        x += 1
        t = t_create + rng.randrange(0, window) / 64.0
        t_last = max(t_last, t)
        timeline.append([t, "edit", "a", {"spec": {"x": x}}])
    reactive = []
    for _ in range(rng.choice([0, 1, 1, 2])):
        n_after = rng.choice([0, 1, 2, 3, 4, 5])
        span = own + R + ref + 32
        reactive.append({"nth": rng.choice([1, 2, 2, 3, 4, 5]),
                         "offsets": sorted(rng.choice([0, 0, 1, rng.randrange(0, span), rng.randrange(0, span)]) for _ in range(n_after))})
    slips = []
    if rng.random() < 0.25:
        slips.append({"nth": rng.choice([1, 1, 2, 3]), "op": ["edit", "a", {"spec": {"x": 500 + i % 7}}]})
    if rng.random() < 0.2:
        # a handler adds transformation functions to the patch (JSON patch guarded by the version); a foreign write
        # slips in right before one of those requests: 422, the functions are carried into the next iteration
        h = rng.choice([x for x in handlers if x["kind"] in ("create", "update", "event")])
        sc_old = list(h.get("script", []))
        # idempotent: always the same label — a foreign write that slips in right before the JSON patch and sets that very
        # label fulfils the carried function: it has nothing to do on the next view (nothing is sent: the cycle must come back at once)
        idem = rng.random() < 0.4
        h["script"] = [["fn", "S" if idem else f"L{k}", sc_old[k] if k < len(sc_old) else h.get("default", "ok")]
                       for k in range(max(len(sc_old), rng.choice([1, 2, 4])))]
        for _ in range(rng.choice([1, 1, 2])):
            edit: dict = {"spec": {"x": 600 + i % 5}}
            if idem or rng.random() < 0.2:
                edit["metadata"] = {"labels": {"c07fn": "S" if idem else rng.choice(["L0", "L1"])}}
            slips.append({"nth": 1 if idem else rng.choice([1, 2, 2, 3, 4]), "ctype": "json-patch", "op": ["edit", "a", edit]})
    if with_delete and rng.random() < 0.5:
        # the deletion is not left in peace: foreign edits of the terminating object around the framework's writes
        # (their stale views reach the worker while it awaits its own patch), and/or the deletion comes early
        for _ in range(rng.choice([1, 1, 2])):
            reactive.append({"on": "marked", "nth": rng.choice([1, 1, 2, 2, 3]),
                             "offsets": sorted(rng.choice([0, 0, 1, rng.randrange(0, own + R + 33)]) for _ in range(rng.choice([1, 2, 3])))})
        if rng.random() < 0.5:
            # (not before the operator has got through its start-up requests and seen the object once)
            t = t_create + (8 * L + rng.randrange(0, window)) / 64.0
            t_last = max(t_last, t)
            timeline.append([t, "delete", "a"])
    horizon = max(T, own / 64.0, 1.0)
    t_quiet = t_last + 10 * horizon + 6
    if rng.random() < 0.35:
        timeline.append([t_quiet, "edit", "a", {"spec": {"x": 900}}])
        t_quiet += 4 * horizon + 4
    if rng.random() < (0.8 if any(r.get("on") == "marked" for r in reactive) else 0.35):
        timeline.append([t_quiet, "delete", "a"])
        t_quiet += 4 * horizon + 4
    # re-listings and reconnects of the watch stream: inside a running (sleeping) change handler — the listed object is
    # queued before that handler's PATCH and dequeued after it — and between an own write and its echo
    breaks: list[dict] = []
    if rng.random() < 0.3:
        hows = ["410", "410", "410-now", "410-now", "eof", "conn", "eof-now"]
        for _ in range(rng.choice([1, 1, 2, 3])):
            if rng.random() < 0.55:
                tgt = rng.choice([h for h in handlers if h["kind"] in ("create", "update")])
                d = rng.choice([0.25, 0.5, 1.5])
                k = rng.choice([0, 0, 1])
                scr = list(tgt.get("script", []))
                while len(scr) <= k:
                    scr.append(tgt.get("default", "ok"))
                scr[k] = ["sleep", d, rng.choice(["ok", "ok", ["temp", 0.5]])]
                tgt["script"] = scr
                breaks.append({"on": "sleep", "nth": rng.choice([1, 1, 2, 3]), "offset": rng.randrange(0, int(d * 64)), "how": rng.choice(hows)})
            else:
                breaks.append({"on": "write", "nth": rng.choice([1, 2, 2, 3, 4, 5]), "offset": rng.randrange(0, own + R + 9), "how": rng.choice(hows)})
    # pausing (what the peering does to an operator of a lower priority): the watch streams are closed, what is queued is
    # still processed. Toggled around the barrier: before the sleep (after an own write / inside a running handler, with
    # foreign events queued behind it), during the sleep, exactly at / right after its deadline; un-paused before or after
    # the deadline; sometimes paused again soon after (flapping). Every plan ends un-paused.
    pauses: list[dict] = []
    if Tt and rng.random() < 0.3:
        for _ in range(rng.choice([1, 1, 2])):
            kind = rng.choice(["barrier", "barrier", "barrier", "write", "write", "sleep"])
            anchor = "start"
            if kind == "barrier":
                anchor = rng.choice(["start", "start", "deadline"])
                on = rng.choice([0, 0, 1, rng.randrange(0, Tt + 1)]) if anchor == "start" else rng.choice([-1, 0, 0, 1, 5])
            elif kind == "write":
                on = rng.choice([0, 1, rng.randrange(0, own + R + 9)])
            else:
                tgt = rng.choice([h for h in handlers if h["kind"] in ("create", "update")])
                d = rng.choice([0.5, 1.5])
                scr = list(tgt.get("script", []))
                if not any(isinstance(a, list) and a and a[0] == "sleep" for a in scr):
                    scr.insert(0, ["sleep", d, "ok"])
                    tgt["script"] = scr
                on = rng.randrange(0, 32)
            nth = rng.choice([1, 1, 2, 3])
            if kind in ("write", "sleep"):
                # foreign edits while the handler runs / right around the own write: their events are queued before the pause
                reactive.append({"on": kind, "nth": nth, "offsets": sorted(rng.randrange(0, 24) for _ in range(rng.choice([1, 2, 3])))})
            long = Tt + R + rng.choice([8, 64, 200])
            short = rng.randrange(1, max(2, Tt))
            dur = rng.choice([short, long, long])
            plan = [[on, True], [on + dur, False]]
            if rng.random() < 0.3:
                gap = rng.choice([1, 8, 40])
                dur2 = rng.choice([short, long])
                plan += [[on + dur + gap, True], [on + dur + gap + dur2, False]]
            pauses.append({"on": kind, "nth": nth, "anchor": anchor, "plan": plan})
    sc = {"seed": i, "handlers": handlers, "timeline": timeline, "objects": objects, "slips": slips,
          "settings": {"persistence.consistency_timeout": T, "queueing.idle_timeout": rng.choice([0.25, 1.0, 5.0, 5.0]),
                       "execution.default_backoff": 1.0, "watching.reconnect_backoff": 0.125},
          "c07": {"latency": L, "resp_latency": R, "own_delay": own, "foreign_delay": foreign, "jitter": jitter, "reactive": reactive,
                  "breaks": breaks, "pauses": pauses, "echo_class": cls, "foreign_class": fcls},
          "end": t_quiet + 2.0}
    if rng.random() < 0.2:
        sc["status_subresource"] = True
    # (drawn last within a scenario)
    rvp = gen_rv_plan(rng)
    if rvp is not None:
        sc["c07"]["rv"] = rvp
    return sc


def gen_rv_plan(rng: Any) -> dict | None:
    """How the server numbers its versions. To a client they are opaque strings: the only thing the worker may do with the
    version of its own patch is to recognise it when it comes back. The fake API's own numbering (101, 102, …) keeps ONE
    decimal width, consecutive numbers and small magnitudes for a whole history; a real server's counter is shared by all
    objects of the cluster (gaps), grows through every power of ten, and is a 64-bit number. Classes: the counter starts
    shortly below a power of ten (widths 1-19: the history crosses it somewhere) or below another round number d·10^k; it leaps to the end of its width right
    before the n-th PATCH of the operator (the operator's own write gets the first version that is one digit longer than a
    foreign write made just before it); magnitudes around 2^31, 2^53, 10^18 (int/float conversions); gaps between versions."""
    mode = rng.choice(["default", "near", "near", "near", "jump", "jump", "jump", "big", "random"])
    if mode == "default":
        return None
    strides = rng.choice([[1], [1], [1], [1, 1, 2], [1, 3, 1, 7], [2], [11, 1, 1], [1, 1, 1, 90]])
    k = rng.choice([1, 2, 2, 3, 3, 4, 5, 6, 8, 9, 12, 16, 18])
    plan: dict = {"strides": strides, "mode": mode}
    if mode == "near":
        # (below a power of ten: the width grows; below another round number: a carry runs through all the lower digits)
        plan["start"] = max(1, rng.choice([1, 1, 1, 2, 7]) * 10 ** k
                            - rng.randrange(3, 3 + rng.choice([6, 12, 25, 40]) * max(1, sum(strides) // len(strides))))
    elif mode == "big":
        plan["start"] = rng.choice([2 ** 31, 2 ** 53, 2 ** 53, 10 ** 18, 2 ** 62]) + rng.randrange(-20, 60)
    elif mode == "random":
        plan["start"] = rng.randrange(10 ** (k - 1), 10 ** k)
    else:
        if rng.random() < 0.6:
            plan["start"] = rng.choice([1, 5, 40, 470, 5000, 123456, 10 ** 8 + 7, 2 ** 53 + 11, 10 ** 18 + 3])
        plan["jumps"] = [{"nth": n} for n in sorted(set(rng.choice([1, 1, 2, 2, 3, 3, 4, 5, 7]) for _ in range(rng.choice([1, 1, 2, 3]))))]
    return plan


# ---------------------------------------------------------------------------------------------
# the independent oracle (property statement over implementation-level observations)
def _split(tr: dict) -> dict[str, dict]:
    """Per object uid: its cycles, worker lives, own (worker) patches, background patches, handler calls."""
    out: dict[str, dict] = {}
    for c in tr["cycles"]:
        out.setdefault(c["uid"], {"cycles": [], "lives": [], "own": [], "background": [], "calls": []})["cycles"].append(c)
    for l in tr["lives"]:
        out.setdefault(l["uid"], {"cycles": [], "lives": [], "own": [], "background": [], "calls": []})["lives"].append(l)
    for p in tr["patches"]:
        u = p.get("target_uid")
        if u in out and p.get("response") == 200 and p.get("applied_rv") is not None:
            out[u]["own" if p.get("cycle") is not None else "background"].append(p)
    for c in tr["calls"]:
        if c.get("uid") in out:
            out[c["uid"]]["calls"].append(c)
    return out


def _paused_at_exit(c7: dict) -> bool:
    """`operator_paused.is_on()` at the instant the processor leaves its consistency block (sampled by sim_c07)."""
    s = c7.get("sleep")
    pz = s.get("paused_end") if s is not None and "t1" in s else c7.get("paused_mid")
    return bool(pz)


def _held_back(cyc: dict) -> bool:
    """A changing cause was there for the handlers (not a cycle dedicated to the finalizer, not filtered out) and the
    processor returned early."""
    c7 = cyc["c07"]
    must_block = any(c7["reqfin"])
    fin_turn = (must_block and not c7["blocked"] and not c7["ongoing"]) or ((not must_block) and c7["blocked"])
    required = bool(cyc["has_cause"] and c7["prematch"] and not fin_turn)
    return required and not c7["matched"]


def oracle(ctx: Ctx, sc: dict, tr: dict) -> None:
    T = float(sc["settings"]["persistence.consistency_timeout"])
    plog = [p for p in tr.get("pause_log", []) if not p.get("noop")]
    t_first_pause = min([p["wall"] for p in plog if p["on"]] or [float("inf")])
    paused_at_end = bool(plog and plog[-1]["on"])
    t_last_resume = max([p["wall"] for p in plog if not p["on"]] or [float("-inf")])
    ev_ids = [h["id"] for h in sc["handlers"] if h["kind"] == "event"]
    ix_ids = [h["id"] for h in sc["handlers"] if h["kind"] == "index"]
    t_end = min([m["t"] for m in tr["marks"] if m.get("what") == "end"] or [float("inf")])
    for uid, o in _split(tr).items():
        cycles = o["cycles"]
        # "A view OLDER than that patch": by the server's own order of the versions it stored for this object (to a client
        # a resourceVersion is an opaque string: neither its digits nor its length say anything by themselves; the fake
        # server's counter is a number, which is the fallback for versions it has no record of).
        order: dict[str, int] = {}
        for vs in (tr.get("history") or {}).values():
            for pos_, v in enumerate(vs):
                if v.get("uid") == uid:
                    order.setdefault(str(v.get("rv")), pos_)

        def older(a: Any, b: Any) -> bool:
            ia, ib = order.get(str(a)), order.get(str(b))
            return ia < ib if ia is not None and ib is not None else int(a) < int(b)

        # Every change-handler call against the worker's own PATCHes that were applied by then. (A PATCH of the
        # same iteration comes after its handlers and takes >= 1 tick of latency, so `t_applied <= t` selects
        # exactly the patches of earlier iterations.)
        for call in [c for c in o["calls"] if c["kind"] in CHANGE_KINDS]:
            view = int(call["rv"])
            earlier = [p for p in o["own"] if float(p["t_applied"]) <= call["t"]]
            if earlier:
                last = earlier[-1]
                pv, tp = int(last["applied_rv"]), float(last["t_applied"])
                stale = older(call["rv"], last["applied_rv"])
                if stale:
                    sv, sp = str(call["rv"]), str(last["applied_rv"])
                    ctx.count("rv_shape", "stale view vs own patch: " + (
                        "the patch's version is longer (a power of ten in between)" if len(sp) > len(sv) else
                        "same width, consecutive" if pv - view == 1 else "same width, a gap in between")
                        + (", above 2^53" if pv > 2 ** 53 else ""))
                ctx.count("view", "older-than-own-patch (timeout elapsed)" if stale and call["t"] >= tp + T else
                          "older-than-own-patch BEFORE timeout" if stale else "not-older")
                if stale and call["t"] < tp + T:
                    ctx.oracle_fail(
                        f"change handler {call['id']} ran at t={call['t']} on resourceVersion {view}, older than the worker's own "
                        f"PATCH result {pv} applied at t={tp}; only {call['t'] - tp} s < consistency_timeout={T} elapsed",
                        {"scenario": sc, "call": call, "patch": last},
                        {"site": "queueing.worker/process_resource_causes", "shape": "change handler on a view older than the own last patch before the timeout"})
            else:
                ctx.count("view", "no own patch yet")
            # the same clause for the framework's OTHER patches of this object: results/progress written by its
            # daemon and timer tasks (`daemons._runner → application.apply`). The worker is never told their versions.
            bg = [p for p in o["background"] if float(p["t_applied"]) <= call["t"]]
            if bg:
                lastb = bg[-1]
                if older(call["rv"], lastb["applied_rv"]) and call["t"] < float(lastb["t_applied"]) + T:
                    ctx.count("background_patch", "change handler on a view older than a daemon/timer patch before the timeout (C07-F1)")
                    ctx.oracle_fail(
                        f"change handler {call['id']} ran at t={call['t']} on resourceVersion {view}, older than the PATCH result "
                        f"{lastb['applied_rv']} of a daemon/timer task of the same object applied at t={lastb['t_applied']}; only "
                        f"{call['t'] - float(lastb['t_applied'])} s < consistency_timeout={T} elapsed",
                        {"scenario": sc, "call": call, "patch": lastb}, F1_SIG)
                else:
                    ctx.count("background_patch", "view not older / timeout elapsed")
        # raw-event handlers and indexers are served in every iteration, at the dequeue instant
        for cyc in cycles:
            c7 = cyc.get("c07")
            if c7 is None or cyc.get("error") or cyc["t0"] >= t_end:
                continue
            held = c7["consistency_time"] is not None and c7["pcc_t"] is None
            for hid in ev_ids:
                ok = any(c["id"] == hid and c["rv"] == cyc["rv"] and c["t"] == cyc["t0"] for c in o["calls"])
                if held:
                    ctx.count("held_iteration", "event handler served at the dequeue instant" if ok else "event handler NOT served")
                if not ok:
                    ctx.oracle_fail(f"raw-event handler {hid} was not invoked at the dequeue instant t={cyc['t0']} of event {cyc['rv']}",
                                    {"scenario": sc, "cycle": cyc["i"]},
                                    {"site": "process_resource_causes", "shape": "raw-event handler delayed or skipped"})
            if cyc["event_type"] != "DELETED":
                for hid in ix_ids:
                    ok = any(c["id"] == hid and c["rv"] == cyc["rv"] and c["t"] == cyc["t0"] for c in o["calls"])
                    if held:
                        ctx.count("held_iteration", "indexer served at the dequeue instant" if ok else "indexer NOT served")
                    if not ok:
                        ctx.oracle_fail(f"indexer {hid} was not invoked at the dequeue instant t={cyc['t0']} of event {cyc['rv']}",
                                        {"scenario": sc, "cycle": cyc["i"]},
                                        {"site": "process_resource_event", "shape": "indexing delayed or skipped"})
        # "…until the patched version has come back": once it has — the view at hand is not older than the worker's
        # last own PATCH result — and no patch was pending at the entry, the barrier must not hold change handlers back.
        # (A PATCH that changed nothing is answered with the version just processed: it HAS come back. Fix 460c956.)
        releasing = {c["i"] for c in cycles if c.get("result_rv") and "~" in str(c["result_rv"])}
        for cyc in cycles:
            c7 = cyc.get("c07")
            if c7 is None or cyc.get("error") or cyc["t0"] >= t_end or c7.get("matched") is None or T == 0:
                continue
            if not _held_back(cyc):
                continue
            if c7["consistency_time"] is not None and _paused_at_exit(c7):
                # A paused operator's watch streams are closed: the patched version CANNOT come back, and the timeout
                # proves nothing (fix 3cc60e3): nothing releases the handlers while paused. What the property's safety
                # clause needs is only that they do not run — checked above, pause or no pause. That the dropped event's
                # change is handled after the un-pausing is the "held back for good" clause further down.
                s7 = c7.get("sleep")
                ctx.count("paused", "held while paused: " + (
                    "the barrier sleep timed out" if s7 and s7.get("timed_out") else
                    "the barrier sleep was interrupted (held anyway)" if s7 else
                    "the deadline had passed already" if c7["consistency_time"] <= c7["t_mid"] else
                    "a patch was pending (held anyway)"))
                continue
            earlier = [p for p in o["own"] if float(p["t_applied"]) <= cyc["t0"] and p["cycle"] < cyc["i"]]
            if not earlier or not c7["patch_init_empty"] or cyc["reason"] == "gone":
                continue
            # "… or the consistency timeout has elapsed": the worker counts it from the moment the processor returned with
            # the patched version (cycle end `t1` of that iteration, never earlier than the PATCH itself). An iteration that
            # starts at or after that — with no patch pending — must not be held back, whatever it accumulates (fix 5dff3c1).
            t1_last = max(c2["t1"] for c2 in cycles if c2["i"] == earlier[-1]["cycle"])
            if cyc["t0"] >= t1_last + T:
                ctx.oracle_fail(
                    f"change handlers were held back at t={cyc['t0']} on resourceVersion {cyc['rv']} although the consistency timeout "
                    f"{T} s had elapsed since the worker's last own PATCH (result {earlier[-1]['applied_rv']}, returned to the worker at "
                    f"t={t1_last}) and no patch was pending",
                    {"scenario": sc, "cycle": cyc["i"], "patch": earlier[-1]},
                    {"site": "process_resource_causes", "shape": "change handlers held back after the consistency timeout has elapsed"})
                continue
            if earlier[-1]["cycle"] in releasing:
                continue
            last = earlier[-1]

            def came_back(p: dict) -> bool:
                return any(c2["rv"] == p["applied_rv"] and p["cycle"] <= c2["i"] <= cyc["i"] for c2 in cycles)

            # every own patch so far has come back (an earlier one may have been lost with a broken stream: the worker
            # rightly keeps waiting for it — the text promises no release then, see the observation in the report)
            if all(came_back(p) for p in earlier if p["cycle"] not in releasing):
                ctx.oracle_fail(
                    f"change handlers were held back at t={cyc['t0']} on resourceVersion {cyc['rv']} although the worker's last own "
                    f"PATCH result {last['applied_rv']} (applied at t={last['t_applied']}) had come back through the watch stream and no "
                    f"patch was pending",
                    {"scenario": sc, "cycle": cyc["i"], "patch": last},
                    {"site": "queueing.worker", "shape": "change handlers held back although the own last patch's version has come back"})
            elif int(cyc["rv"]) >= int(last["applied_rv"]):
                ctx.count("held_iteration", "newer view, the patched version itself was lost with a broken stream (held until the timeout)")
            else:
                ctx.count("held_iteration", "view older than the own last patch (rightly held)")
        # "… UNTIL the patched version has come back, or the consistency timeout has elapsed": the barrier delays the change
        # handlers, it does not cancel them. If the LAST iteration of an object that still exists was held back, and the
        # history goes on quietly (operator running, not paused) for longer than the timeout after it, after the worker's
        # deadline and after the last un-pausing, then the change at hand is never handled: nothing else will bring it up.
        done = [c for c in cycles if c.get("c07") is not None and not c.get("error") and c["c07"].get("matched") is not None]
        # (the object may be gone without the operator having seen it go: released while paused, the stream closed)
        t_gone = min([float(v["t"]) for vs in (tr.get("history") or {}).values() for v in vs
                      if v.get("uid") == uid and v.get("event") == "DELETED"] or [float("inf")])
        gone = t_gone < float("inf")
        if done and T > 0 and done[-1] is cycles[-1] and done[-1]["event_type"] != "DELETED" and not gone and _held_back(done[-1]):
            last_c = done[-1]
            c7 = last_c["c07"]
            wall_off = last_c["t0"] - last_c["loop_t0"]
            due = max(last_c["t1"], (c7["consistency_time"] or 0.0) + wall_off, t_last_resume) + T + 2.0
            was_paused = c7["consistency_time"] is not None and _paused_at_exit(c7)
            if paused_at_end or t_end < due:
                ctx.count("held_for_good", "the history ends held back, but paused / too early to tell")
            else:
                # (the shape of the former finding C07-F2 = C03-N6, repaired by 30557a0: a PATCH was sent by that iteration — so a
                # patch had been accumulated —, it was answered with the version just processed, no barrier sleep, begun before
                # the worker's deadline. Named in the message only: every history that ends held back for good is a violation.)
                noop = (last_c.get("result_rv") is not None and str(last_c["result_rv"]) == str(last_c["rv"]) and c7.get("sleep") is None
                        and c7["consistency_time"] is not None and last_c["loop_t0"] < c7["consistency_time"] and not was_paused)
                ctx.count("held_for_good", "held back for good" + (": a patch accumulated by the low-level handlers, a no-op on the server" if noop else ""))
                ctx.oracle_fail(
                    f"the last event {last_c['rv']} of the object was held back at t={last_c['t0']} (consistency_time "
                    f"{c7['consistency_time']}, operator {'paused' if was_paused else 'not paused'}) and nothing let its change through to the "
                    f"change handlers in the {t_end - last_c['t1']} s that followed (consistency_timeout={T}"
                    + (f", last un-pausing at t={t_last_resume}" if plog else "") + ")"
                    + ("; the iteration had a patch accumulated by its low-level handlers (so it did not sleep), the PATCH changed nothing "
                       "on the server (answered with the version just processed), so no event followed and the deadline passed unnoticed" if noop else ""),
                    {"scenario": sc, "cycle": last_c["i"]},
                    {"site": "process_resource_causes/queueing.worker", "shape": "change handlers held back for good"})
        elif done and T > 0:
            ctx.count("held_for_good", "the last iteration is not held back")
            for cyc in done:
                if cyc["c07"]["consistency_time"] is not None and _paused_at_exit(cyc["c07"]) and _held_back(cyc):
                    ctx.count("paused", "… and a later iteration of the object is not held back")
        # "… UNTIL … the consistency timeout has elapsed": somebody must act when it has. A held-back iteration of a living
        # object (operator running, not paused when the iteration gave up) is followed — by the time the waiting is over, plus
        # the time the requests of one cycle take — by the next iteration of the object, or by a write of the framework that
        # changed the object (its event is owed by the API), or by a write that was rejected because a newer version exists
        # (that version's event is owed). Otherwise nothing will ever look at the deadline: the worker idles past it and retires.
        Lq = (int(sc["c07"].get("latency", 1)) + int(sc["c07"].get("resp_latency", 0))) / 64.0
        for n, cyc in enumerate(cycles):
            c7 = cyc.get("c07")
            if (c7 is None or cyc.get("error") or c7.get("matched") is None or c7.get("t_out") is None or T == 0
                    or cyc["event_type"] == "DELETED" or not _held_back(cyc)):
                continue
            wall_off = cyc["t0"] - cyc["loop_t0"]
            t_gave_up = c7["t_out"] + wall_off
            if c7["consistency_time"] is not None and _paused_at_exit(c7):
                ctx.count("come_back", "held while paused: nothing is owed (the un-pausing re-lists)")
                continue
            over = t_gave_up if c7["consistency_time"] is None else max(t_gave_up, c7["consistency_time"] + wall_off)
            due = over + 5 * Lq + 1 / 64.0
            if due >= min(t_end, t_gone):
                ctx.count("come_back", "held back, too close to the end of the history (or of the object) to tell")
                continue
            nxt = cycles[n + 1] if n + 1 < len(cycles) else None
            mine = [p for p in tr["patches"] if p.get("cycle") == cyc["i"] and p.get("target_uid") == uid]
            changed = [p for p in mine if p.get("response") == 200 and p.get("applied_rv") is not None
                       and str(p["applied_rv"]) != str(cyc["rv"]) and float(p["t_applied"]) + wall_off <= due]
            rejected = [p for p in mine if p.get("response") in (422, 409)]
            vanished = [p for p in mine if p.get("response") == 404]
            how = ("the next iteration began" if nxt is not None and nxt["t0"] <= due else
                   "a write changed the object (the patch, or the touch when the waiting was over)" if changed else
                   "a write was rejected: a newer version exists" if rejected else
                   "the object is gone (404)" if vanished else None)
            ctx.count("come_back", ("followed: " + how) if how else "NOT followed when the waiting time was over")
            if how is None:
                ctx.oracle_fail(
                    f"event {cyc['rv']} of the object was held back at t={cyc['t0']} (consistency_time {c7['consistency_time']}, given up at "
                    f"t={t_gave_up}) and by t={due} — the waiting time over at {over}, plus the requests of one cycle — neither the next "
                    f"iteration had begun (next: {nxt and nxt['t0']}) nor had the framework written anything that changes the object "
                    f"(requests of the iteration: {[(p.get('response'), p.get('applied_rv'), p.get('t_applied')) for p in mine]})",
                    {"scenario": sc, "cycle": cyc["i"]},
                    {"site": "process_resource_causes/application.apply", "shape": "held-back iteration not followed when the waiting time is over"})
        # a new arrival ends the barrier sleep at once: its own low-level processing is not held up
        pos = 0
        for life in o["lives"]:
            gets = [g for g in life["gets"] if g[1] != "EOS"]
            arrivals = [a for a in life["arrivals"] if a[1] != "EOS"]
            for k in range(len(gets)):
                if pos >= len(cycles):
                    break
                cyc = cycles[pos]
                pos += 1
                c7 = cyc.get("c07") or {}
                s = c7.get("sleep")
                if not s or "t1" not in s or k + 1 >= len(arrivals):
                    continue
                ta = arrivals[k + 1][0]
                due = max(ta, s["t0"])
                if due < c7["consistency_time"] and due < t_end:
                    nxt = cycles[pos] if pos < len(cycles) else None
                    ctx.count("barrier_sleep", "woken by a new arrival")
                    if s["t1"] != due or s["timed_out"] or nxt is None or nxt["t0"] != due:
                        ctx.oracle_fail(f"an event arrived at t={ta} during the barrier sleep (deadline {c7['consistency_time']}) but the sleep "
                                        f"ended at {s['t1']} and the next iteration began at {nxt and nxt['t0']}",
                                        {"scenario": sc, "cycle": cyc["i"]},
                                        {"site": "process_resource_causes", "shape": "new event held up by the barrier sleep"})
        # timers keep their schedule while the worker sleeps in the barrier; daemons are spawned at first sight
        sleeps = [(c["c07"]["sleep"]["t0"], c["c07"]["sleep"].get("t1")) for c in cycles
                  if (c.get("c07") or {}).get("sleep") and c["c07"]["sleep"].get("t1") is not None]
        marked_at = min([c["t0"] for c in cycles if (c.get("c07") or {}).get("ongoing")] or [float("inf")])
        for h in sc["handlers"]:
            if h["kind"] == "timer" and not h.get("script") and "field" not in (h.get("opts") or {}):
                # (a paused operator stops its timers and daemons: their schedule from the first pause on is not this barrier's)
                tc = [c["t"] for c in o["calls"] if c["id"] == h["id"] and c["t"] < min(marked_at, t_end, t_first_pause)]
                iv = float(h["opts"]["interval"])
                for a, b in zip(tc, tc[1:]):
                    inside = any(s0 < b < s1 for s0, s1 in sleeps)
                    ctx.count("timer_tick", "during a barrier sleep" if inside else "outside")
                    if b - a != iv:
                        ctx.oracle_fail(f"timer {h['id']} ticked at {a} and then at {b}: not its interval {iv}",
                                        {"scenario": sc, "uid": uid},
                                        {"site": "daemons._timer", "shape": "timer delayed"})
            if h["kind"] in ("daemon", "timer") and (h.get("opts") or {}).get("field") == "spec.x" and "value" in h["opts"]:
                # behind a filter: spawned by the first iteration that shows a matching view — in its low-level phase,
                # i.e. before its barrier sleep if it takes one, and also when its change handlers are held back
                v = h["opts"]["value"]
                fm = next((c for c in cycles if c.get("c07") is not None and not c.get("error") and c["c07"].get("t_out") is not None
                           and c.get("x") == v and not c.get("marked") and c["event_type"] != "DELETED"), None)
                # (a view that stops matching within the same instant — the next iteration begins at once and shows another
                # value — stops the task before it gets to its function: nothing to observe)
                nm = next((c for c in cycles if fm is not None and c["i"] > fm["i"]
                           and (c.get("x") != v or c.get("marked") or c["event_type"] == "DELETED")), None)
                limit = None
                if fm is not None:
                    s7 = fm["c07"].get("sleep")
                    wall_off = fm["t0"] - fm["loop_t0"]
                    limit = (s7["t0"] + wall_off) if s7 else fm["t1"]      # the end of its low-level phase
                if fm is None or fm["t0"] >= min(t_end, t_first_pause):
                    ctx.count("filtered_spawn", "no matching view (or only while paused / at the end)")
                elif nm is not None and nm["t0"] <= limit:
                    ctx.count("filtered_spawn", "matched for an instant only")
                else:
                    hc = [c["t"] for c in o["calls"] if c["id"] == h["id"]]
                    ok = any(fm["t0"] <= t <= limit for t in hc)
                    ctx.count("filtered_spawn", ("started by the first matching view" if ok else "NOT started by the first matching view")
                              + (" (iteration held back)" if _held_back(fm) else ""))
                    if not ok:
                        ctx.oracle_fail(
                            f"{h['kind']} {h['id']} (spec.x == {v}) was not started in the low-level phase of the first iteration that "
                            f"shows a matching view (event {fm['rv']} dequeued at t={fm['t0']}, "
                            + (f"barrier sleep from {limit}" if s7 else f"ended at {limit}") + f"): its calls are at {hc[:5]}",
                            {"scenario": sc, "cycle": fm["i"]},
                            {"site": "process_resource_causes/process_spawning_cause", "shape": "daemon/timer delayed by the barrier"})
            elif h["kind"] == "daemon" and cycles:
                first = cycles[0]
                if not (first.get("c07") or {}).get("ongoing") and first["event_type"] != "DELETED" and not first.get("error"):
                    dc = [c["t"] for c in o["calls"] if c["id"] == h["id"]]
                    ctx.count("daemon", "spawned in the first iteration" if dc and dc[0] <= first["t1"] else "late")
                    if not dc or dc[0] > first["t1"]:
                        ctx.oracle_fail(f"daemon {h['id']} was not spawned in the first iteration of the object",
                                        {"scenario": sc, "uid": uid}, {"site": "process_spawning_cause", "shape": "daemon delayed"})


# ---------------------------------------------------------------------------------------------
# abstraction: real iterations -> model steps
class TraceShape(Exception):
    pass


class Bypassed(Exception):
    """The instrumentation points were not passed through: a tie failure (nothing could be compared), not a harness error."""


def abstract(sc: dict, tr: dict) -> list[dict]:
    """One model run per object: {"req": driver request, "impl": [per step], "where": [...]}"""
    T = ticks(float(sc["settings"]["persistence.consistency_timeout"]))
    runs = []
    for uid, o in _split(tr).items():
        cycles = o["cycles"]
        ch_calls = [c for c in o["calls"] if c["kind"] in CHANGE_KINDS]
        cptr = 0
        steps: list[dict] = []
        impl: list[dict] = []
        where: list[dict] = []
        pos = 0
        idle = None
        truncated = False
        bgq = sorted(o["background"], key=lambda p: float(p["t_applied"]))

        def flush_background(before: float | None) -> None:
            # PATCHes by the object's daemon/timer tasks: steps the worker does not see
            while bgq and (before is None or float(bgq[0]["t_applied"]) < before):
                b = bgq.pop(0)
                steps.append({"background": [parse_ver(b["applied_rv"]), ticks(float(b["t_applied"]))]})
                impl.append({"background": True})
                where.append({"uid": uid, "background": b["applied_rv"]})

        for li, life in enumerate(o["lives"]):
            idle = ticks(float(life["idle_timeout"]))
            gets = [g for g in life["gets"] if g[1] != "EOS"]
            arrivals = [a for a in life["arrivals"] if a[1] != "EOS"]
            if li > 0:
                prev = o["lives"][li - 1]
                if prev["t_end"] is None:
                    raise TraceShape("a second worker started while the first had not ended")
                steps.append({"retire": ticks(prev["t_end"])})
                impl.append({"retired": True})
                where.append({"uid": uid, "retire": prev["t_end"]})
            for k, g in enumerate(gets):
                if pos >= len(cycles):
                    raise TraceShape("a dequeued event has no processing cycle")
                c = cycles[pos]
                pos += 1
                if c["loop_t0"] != g[0] or c["rv"] != g[1]:
                    raise TraceShape(f"cycle {c['i']} does not match the dequeue {g}")
                c7 = c.get("c07")
                n_inv = len(c["invoked"])
                mine = ch_calls[cptr:cptr + n_inv]
                cptr += n_inv
                if c7 is None and not c.get("error") and c.get("has_cause"):
                    # causes were detected, but not inside an observed `process_resource_causes`: the code no longer goes
                    # through the attributes this harness watches. Nothing of this run can be compared: say so, loudly.
                    raise Bypassed(f"cycle {c['i']}: causes detected outside an observed processing.process_resource_causes")
                if c.get("error") or c7 is None or c7.get("t_out") is None:
                    truncated = True      # cancelled at the operator's stop / throttled: the iteration never completed
                    break
                if c7["t_mid"] is None:
                    raise TraceShape("the finalizer decision point was not observed")
                flush_background(c["loop_t0"])
                now = ticks(c["loop_t0"])
                tmid = ticks(c7["t_mid"])
                t_ix = [x["t"] for x in o["calls"] if x["kind"] == "index" and x["rv"] == c["rv"] and c["t0"] <= x["t"] <= c["t1"]]
                t_ev = [x["t"] for x in o["calls"] if x["kind"] == "event" and x["rv"] == c["rv"] and c["t0"] <= x["t"] <= c["t1"]]
                must_block = any(c7["reqfin"])
                add = must_block and not c7["blocked"] and not c7["ongoing"]
                remove = (not must_block) and c7["blocked"]
                required = bool(c["has_cause"] and c7["prematch"] and not add and not remove)
                # the next item that raises the stream pressure: a further event, or (since fix f370f06) the
                # end-of-stream marker of the exiting watcher
                wake = None
                nxt_items = [a for a in life["arrivals"][k + 1:] if len(a) < 3 or a[2]]
                if nxt_items:
                    wake = max(0, ticks(nxt_items[0][0]) - tmid)
                patched = parse_ver(c["result_rv"])
                tret = ticks(c["loop_t0"] + (c["t1"] - c["t0"]))
                tp = tret
                if patched is not None:
                    cand = [p for p in o["own"] if p["cycle"] == c["i"] and p["applied_rv"] == str(patched[0])]
                    if cand:
                        tp = ticks(cand[-1]["t_applied"])
                # what the cycle began with: something carried over from a 422 (`memory.remaining_patch`, read by sim_c07
                # before the cycle)? The model derives `patch_initially_empty` from it; the real one is compared with it.
                cr = c7.get("carried") or {}
                if cr.get("carried") is None:
                    raise TraceShape(f"cycle {c['i']}: memory.remaining_patch was not observed before the cycle: {cr}")
                it = {"ver": parse_ver(c["rv"]), "now": now, "dur": tmid - now, "pressure": bool(c7["pressure_mid"]), "wake": wake,
                      "lag": 0, "gone": c["reason"] == "gone", "required": required, "carried": bool(cr["carried"]),
                      "patchMid": bool(c7["patch_mid_empty"]), "patched": patched, "tp": tp, "tret": tret,
                      "listed": c["event_type"] is None}
                s = c7["sleep"]
                # `operator_paused.is_on()` as the code reads it when it leaves the consistency block: sampled when the
                # barrier sleep returned, else when the finalizer decision was taken (no suspension point in between)
                pz = s.get("paused_end") if s is not None and "t1" in s else c7.get("paused_mid")
                if pz is None:
                    raise TraceShape("the state of operator_paused was not observed")
                it["paused"] = bool(pz)
                steps.append({"event": it})
                held_real = bool(required and not c7["matched"])
                # the waiting delay of the early return (fix 30557a0): what a held-back iteration returns beyond the
                # delays of the spawning stage; and when the consistency block was left (no suspension point up to the
                # return of a held-back iteration / the entry of process_changing_cause)
                # what `process_resource_causes` returned = the delays of the spawning stage + those of the changing stage (if it
                # was entered) + at most one more: the waiting delay
                sd = list(c7.get("spawn_delays") or [])
                cd = list(c7.get("changing_delays") or [])
                do = c7.get("delays_out")
                if do is None:
                    raise TraceShape(f"cycle {c['i']}: the delays returned by process_resource_causes were not observed")
                stage_delays_kept = do[:len(sd) + len(cd)] == sd + cd
                extra = do[len(sd) + len(cd):] if stage_delays_kept else do
                wait_real = ticks(extra[0]) if len(extra) == 1 else None
                left_real = ticks(c7["t_out"]) if held_real else ticks(c7["pcc_t"])
                impl.append({"given": ticks(c["consistency_time"]),
                             "slept": None if s is None else [ticks(s["t1"]), bool(s["timed_out"])],
                             "entered": ticks(c7["pcc_t"]), "held": held_real, "wait": wait_real, "left": left_real,
                             "delays": {"stage_delays_kept": stage_delays_kept, "more": len(extra)},
                             "patchInit": bool(c7["patch_init_empty"]),
                             "first_handler": ticks(mine[0]["t"]) if mine else None,
                             "t_index": ticks(min(t_ix)) if t_ix else None, "t_event": ticks(min(t_ev)) if t_ev else None,
                             "t_spawn": ticks(c7["t_spawn0"]) if c7.get("t_spawn0") is not None else None,
                             "eos_wake": bool(s is not None and not s["timed_out"] and nxt_items and nxt_items[0][1] == "EOS")})
                where.append({"uid": uid, "cycle": c["i"], "stage_delays": len(sd) + len(cd), "carried_ops": cr.get("ops")})
            if truncated:
                break
        if not truncated:
            flush_background(None)
        if steps:
            runs.append({"req": ["C07.run", {"T": T, "idle": idle if idle is not None else 0, "clock": 0, "steps": steps}],
                         "impl": impl, "where": where, "uid": uid})
    return runs


def _sanity(sc: dict, tr: dict) -> None:
    """Environment assumptions of the check itself (a failure here is a harness error, never a verdict)."""
    if not tr["cycles"]:
        raise RuntimeError(f"harness: scenario {sc.get('seed')} produced no processing cycle at all")
    for c in tr["cycles"]:
        if c.get("result_rv") is not None and not c.get("error"):
            base = str(parse_ver(c["result_rv"])[0])
            if not any(p.get("cycle") == c["i"] and p.get("applied_rv") == base for p in tr["patches"]):
                raise RuntimeError(f"harness: cycle {c['i']} returned version {c['result_rv']} but no PATCH is attributed to it")
    n_inv = sum(len(c["invoked"]) for c in tr["cycles"])
    n_calls = sum(1 for c in tr["calls"] if c["kind"] in CHANGE_KINDS)
    if n_inv != n_calls:
        raise RuntimeError(f"harness: {n_calls} change-handler calls but {n_inv} attributed to processing cycles")
    for life in tr["lives"]:
        rvs = [int(a[1]) for a in life["arrivals"] if a[1] != "EOS" and a[1] is not None]
        if any(b < a for a, b in zip(rvs, rvs[1:])):     # equal: a re-listing shows the version the stream has shown
            raise RuntimeError(f"harness: the fake API delivered one object's events out of order: {rvs}")


def sc_has_stage_delays(run: dict, wh: dict) -> bool:
    return bool(wh.get("stage_delays"))


def _shape(it: dict, m: dict) -> dict:
    o = m["outcome"]
    return {"given": o["given"] is not None, "slept": None if o["slept"] is None else ("timeout" if o["slept"][1] else "woken"),
            "held": o["held"], "entered": o["entered"] is not None, "handlers": o["handlers"] is not None,
            "wait": None if o["wait"] is None else ("zero" if o["wait"] == 0 else "positive"),
            "gone": it["gone"], "req": it["required"], "pI": m["patchInit"], "carried": it["carried"], "pM": it["patchMid"], "press": it["pressure"],
            "patched": it["patched"] is not None, "never": bool(it["patched"] and it["patched"][1]),
            "reset": o["given"] is None and m.get("_prev_deadline") is not None, "after": m["after"]["deadline"] is not None,
            "dur": it["dur"] > 0}


class _Rec:
    """Stand-in for Ctx inside the simulation subprocess: collects what the oracle reports."""

    def __init__(self) -> None:
        self.hist: dict[str, dict[str, int]] = {}
        self.fails: list[dict] = []

    def count(self, group: str, tag: Any, n: int = 1) -> None:
        g = self.hist.setdefault(group, {})
        g[str(tag)] = g.get(str(tag), 0) + n

    def oracle_fail(self, what: str, replay: Any, signature: dict | None = None) -> None:
        if len(self.fails) < 20:
            self.fails.append({"what": what, "replay": replay, "signature": signature})


def digest(sc: dict, tr: dict, tie: bool = True) -> dict:
    """Runs in the simulation subprocess: sanity, oracle, abstraction of one trace (keeps the parent light)."""
    if tr.get("sim_error"):
        return {"error": f"simulation error: {tr['sim_error']}"}
    try:
        _sanity(sc, tr)
    except RuntimeError as e:
        return {"error": str(e)}
    rec = _Rec()
    oracle(rec, sc, tr)  # type: ignore[arg-type]
    c7 = sc["c07"]
    rec.count("T", sc["settings"]["persistence.consistency_timeout"])
    rec.count("echo_class", c7.get("echo_class", "corpus"))
    rec.count("foreign_class", c7.get("foreign_class", "corpus"))
    rvp = c7.get("rv") or {}
    rec.count("rv_plan", (rvp.get("mode") or ("corpus plan" if rvp else "the fake server's default (101, 102, …)"))
              + (", gaps" if any(g != 1 for g in rvp.get("strides", [1])) else ""))
    rvs = [str(v["rv"]) for vs in (tr.get("history") or {}).values() for v in vs]
    if rvs:
        rec.count("rv_widths", f"{min(map(len, rvs))}-{max(map(len, rvs))} digits" if len(set(map(len, rvs))) > 1 else "one width")
        rec.count("rv_magnitude", "above 2^53" if any(int(r) > 2 ** 53 for r in rvs) else "above 2^31" if any(int(r) > 2 ** 31 for r in rvs) else "small")
    rec.count("latency_ticks", c7["latency"])
    rec.count("resp_latency_ticks", c7["resp_latency"])
    rec.count("foreign_edits", sum(1 for m in tr["marks"] if m.get("what") == "op" and m["op"][0] == "edit"))
    for m in tr["marks"]:
        if m.get("what") == "op" and m["op"][0] == "break":
            rec.count("stream_breaks", m["op"][1])
    for pz in c7.get("pauses", []):
        rec.count("pause_plans", f"{pz['on']}/{pz.get('anchor', 'start')}" + (" flapping" if len(pz.get("plan", [])) > 2 else ""))
    for c in tr["cycles"]:
        q = c.get("c07")
        if q and q.get("t_out") is not None and (q.get("paused_in") or q.get("paused_mid") or (q.get("sleep") or {}).get("paused_end")):
            sl = q.get("sleep") or {}
            rec.count("paused", "iteration processed while paused: " + (
                "nothing expected" if q["consistency_time"] is None else
                "expecting; paused " + ("before the sleep" if q.get("paused_mid") and sl else "during the sleep" if sl.get("paused_end") else
                                        "and un-paused before the sleep ended" if sl else "no sleep")))
    rec.count("listed_events", "re-listed while the worker was expecting a version",
              sum(1 for c in tr["cycles"] if c["event_type"] is None and c.get("consistency_time") is not None))
    rec.count("listed_events", "listed", sum(1 for c in tr["cycles"] if c["event_type"] is None))
    nw = sum(int(l.get("nowait", 0)) for l in tr["lives"])
    if nw:
        rec.count("worker_wait", "timed-out wait found the backlog non-empty: event taken with get_nowait", nw)
    bypassed = None
    try:
        runs = abstract(sc, tr) if tie else []
    except Bypassed as e:
        runs, bypassed = [], str(e)
    return {"hist": rec.hist, "fails": rec.fails, "runs": runs, "bypassed": bypassed}


def evaluate(ctx: Ctx, scenarios: list[dict], results: list[dict], tie: bool = True) -> None:
    batch: list[tuple[dict, dict]] = []
    for sc, res in zip(scenarios, results):
        if "digest" not in res:
            raise RuntimeError(f"simulation failed: {str(res)[:3000]}")
        dg = res["digest"]
        if dg.get("error"):
            raise RuntimeError(dg["error"])
        ctx.traces += 1
        for g, tags in dg["hist"].items():
            for tag, n in tags.items():
                ctx.count(g, tag, n)
        for f in dg["fails"]:
            ctx.oracle_fail(f["what"], f["replay"], f["signature"])
        if tie:
            if dg.get("bypassed"):
                ctx.tie_fail("C07 the processor's consistency block was not observed (the code under test no longer passes through "
                             "the module attributes the harness instruments): " + dg["bypassed"], {"scenario": sc})
            for run in dg["runs"]:
                batch.append((sc, run))
    if not tie or not batch:
        return
    outs = None
    for attempt in range(3):
        try:
            outs = ctx.driver.ask([run["req"] for _, run in batch])
            break
        except leanio.LeanError as e:
            # the driver imports every property's Drv module; a concurrent rebuild of another module can
            # make it fail transiently. That is a toolchain problem (exit 2), never a verdict on C07.
            err = e
            leanio.lake_build(["Kopf.Drv.All"])
    if outs is None:
        raise RuntimeError(f"Lean driver failed (toolchain problem, not a verdict): {err} {err.log[-1500:]}")
    for (sc, run), out in zip(batch, outs):
        if not out or out[0] != "ok":
            ctx.tie_fail("driver rejected a run", {"scenario": sc, "request": run["req"], "answer": out})
            continue
        msteps = out[1]["steps"]
        prev_deadline = None
        has_spawn = any(h["kind"] in ("daemon", "timer") for h in sc["handlers"])
        for st, impl, m, wh in zip(run["req"][1]["steps"], run["impl"], msteps, run["where"]):
            rep = {"scenario": sc, **wh, "step": st}
            if "retire" in st:
                ctx.case(key={"retire": True, "expecting": prev_deadline is not None}, nontrivial=prev_deadline is not None)
                ctx.count("step", "retire (deadline pending)" if prev_deadline is not None else "retire")
                ctx.compare("C07 worker retirement (wf: not before the idle wait max(idle, deadline-now) has elapsed)",
                            {"ok": True}, {"ok": m["ok"]}, rep)
                prev_deadline = m["after"]["deadline"]
                continue
            if "background" in st:
                ctx.case(key={"background": True, "expecting": prev_deadline is not None}, nontrivial=True)
                ctx.count("step", "background patch (worker expecting)" if prev_deadline is not None else "background patch")
                ctx.compare("C07 background patch: the worker's locals are untouched",
                            {"ok": True, "deadline": prev_deadline}, {"ok": m["ok"], "deadline": m["after"]["deadline"]}, rep)
                continue
            o = m["outcome"]
            m["_prev_deadline"] = prev_deadline
            shape = _shape(st["event"], m)
            nontrivial = shape["given"] or shape["patched"] or shape["held"] or shape["reset"]
            ctx.case(key=shape, nontrivial=nontrivial,
                     sample={"scenario_seed": sc.get("seed"), **wh, "iteration": st["event"], "impl": impl, "model": o}
                     if shape["slept"] is not None and shape["patched"] else None)
            ctx.count("barrier", "no deadline" if not shape["given"] else
                      ("slept:" + shape["slept"]) if shape["slept"] else "deadline set, no sleep (pending patch / not required / gone)")
            ctx.count("decision", "held back" if o["held"] else "change handlers entered" if o["entered"] is not None else "no changing cause")
            if o["given"] is not None and o["given"] != 0 and st["event"]["now"] + st["event"]["dur"] >= o["given"]:
                ctx.count("release", "deadline already passed when the barrier is reached: no sleep"
                          + (" (patch non-empty: released since fix 5dff3c1)" if not st["event"]["patchMid"] else ""))
            if impl.get("eos_wake"):
                ctx.count("barrier_sleep", "interrupted by the exiting watcher (pressure + EOS): held back")
            if shape["reset"]:
                ctx.count("release", "by arrival of the expected version")
            if shape["slept"] == "timeout" and o["entered"] is not None:
                ctx.count("release", "by timeout")
            if shape["never"]:
                ctx.count("patched", "~which~never~arrives")
            elif shape["patched"]:
                e = st["event"]
                ctx.count("patched", "no-op write: the returned version is the one just processed or older (not armed since fix 460c956 when equal)"
                          if e["ver"] is not None and e["patched"][0] <= e["ver"][0] else "new version")
            mlow = dict((a, b) for a, b in o["low"])
            # when the low-level stages really started (observable only where such handlers are registered)
            rlow = {"indexing": impl["t_index"] if impl["t_index"] is not None else mlow.get("indexing"),
                    "watching": impl["t_event"] if impl["t_event"] is not None else mlow.get("watching"),
                    # the spawning stage (daemons/timers: spawn, match, stop) is there in every iteration iff such handlers exist
                    "spawning": impl["t_spawn"] if has_spawn else mlow.get("spawning")}
            if impl["t_index"] is not None or impl["t_event"] is not None:
                ctx.count("low_level_stages", "timed against the model" + (" (deadline set)" if shape["given"] else ""))
            model = {"given": o["given"], "slept": o["slept"], "entered": o["entered"], "held": o["held"], "ok": m["ok"],
                     "low": mlow, "order": [a for a, _ in o["low"]], "wait": o["wait"], "patchInit": m["patchInit"],
                     "left": o["left"] if impl["left"] is not None else None,
                     "delays": {"stage_delays_kept": True, "more": 0 if o["wait"] is None else 1}}
            real = {"given": impl["given"], "slept": impl["slept"], "entered": impl["entered"], "held": impl["held"], "ok": True,
                    "low": rlow, "order": ["indexing", "watching", "spawning"], "wait": impl["wait"], "patchInit": impl["patchInit"],
                    "left": impl["left"], "delays": impl["delays"]}
            if impl["held"] and sc_has_stage_delays(run, wh):
                ctx.count("come_back", "held back with delays of the spawning stage (daemons being stopped): both reported")
            if st["event"]["carried"]:
                ctx.count("carried_patch", "pending (change handlers held back, re-sent)"
                          + {True: ": still has something to do on the view at hand", False: ": fulfilled already on the view at hand (nothing to send: comes back at once)",
                             None: ""}[wh.get("carried_ops")])
            if o["held"]:
                ctx.count("come_back", "held back, paused: no delay" if st["event"]["paused"] else
                          "held back, nothing awaited (pending patch): waiting delay 0, come back at once" if o["given"] is None else
                          "held back: waiting delay 0 (the deadline is over)" if o["wait"] == 0 else
                          "held back: waiting delay = what is left till the deadline"
                          + (" (patch accumulated, no sleep)" if o["slept"] is None else " (sleep interrupted)"))
            ctx.compare("C07 worker iteration (consistency_time given, barrier sleep, decision)", real, model, rep)
            if impl["first_handler"] is not None:
                ok = o["handlers"] is not None and o["handlers"] <= impl["first_handler"]
                ctx.compare("C07 change handler invoked only where the model admits handlers", {"ok": True}, {"ok": ok}, rep)
            prev_deadline = m["after"]["deadline"]
        if not out[1]["wf"]:
            ctx.compare("C07 wf hypothesis of the theorems on the real run", {"wf": True}, {"wf": False}, {"scenario": sc, "uid": run["uid"]})


def _corpus() -> list[dict]:
    return [d["scenario"] if "scenario" in d else d for _, d in load_corpus(ID)]


def run(ctx: Ctx) -> None:
    n = ctx.budget(200, 6000)
    scenarios = _corpus() + [gen_scenario(ctx.rng, ctx.seed * 1_000_000 + i) for i in range(n)]
    chunk = 2500
    for k in range(0, len(scenarios), chunk):
        part = scenarios[k:k + chunk]
        evaluate(ctx, part, sim_c07.run_many(part, wall=40.0, tie=True))
    ctx.count("scenarios", "run", len(scenarios))
    ctx.extra["strength"] = STRENGTH
    # composition tie: the same kind of whole-operator histories replayed worker iteration by worker iteration through the
    # composed Lean step X01.work, where the versions are generated by the model itself (a different random stream than C03's)
    x01_reactor.run_reactor(ctx, n=ctx.budget(24, 600))


def search(ctx: Ctx, broken: list) -> None:
    """A proof/tie is broken: look for a concrete failing history with the oracle alone."""
    first: list[dict] = []
    for b in broken[:10]:
        sc = (b.replay or {}).get("input", {}).get("scenario") if isinstance(b.replay, dict) else None
        if sc and sc not in first:
            first.append(sc)
    n = ctx.budget(1500, 8000)
    scenarios = first + [gen_scenario(ctx.rng, 7_000_000 + ctx.seed * 1_000_000 + i) for i in range(n)]
    chunk = 500
    for k in range(0, len(scenarios), chunk):
        part = scenarios[k:k + chunk]
        evaluate(ctx, part, sim_c07.run_many(part, wall=40.0, tie=False), tie=False)
        if any(f.kind == "oracle" for f in ctx.failures):
            return


def replay(ctx: Ctx, data: dict) -> None:
    rep = data.get("replay") or data.get("first") or data
    sc = rep.get("scenario") or (rep.get("input") or {}).get("scenario")
    if sc is None:
        raise RuntimeError("no scenario in the replay file")
    evaluate(ctx, [sc], sim_c07.run_many([sc], wall=40.0, tie=True), tie=True)
    for f in ctx.failures:
        print(f"{f.kind}: {f.what}")
